"""Small executable reference models, written from the documentation and the property statements (not from
the code under test).  Where the documentation is silent a model returns UNSPEC and the oracle skips the case.
"""
import datetime as _dt
from fnmatch import fnmatch

UNSPEC = 'unspecified'


# ------------------------------------------------------------------------------------------------------
# C14 / C10: metadata matcher

def _is_operator(f):
    return isinstance(f, dict) and 'operator' in f and 'value' in f


def ref_match_value(f, recorded):
    """recorded is the metadata value, or None when the key is absent."""
    if isinstance(f, list):
        results = [ref_match_value(x, recorded) for x in f]
        if any(r is True for r in results):
            return True
        if any(r == UNSPEC for r in results):
            return UNSPEC
        return False
    if _is_operator(f):
        op, val = f['operator'], f['value']
        try:
            hash(op)
        except TypeError:
            return UNSPEC
        if op not in ('=', '<', '<=', '>', '>='):
            return False
        if op == '=':
            if recorded is None and val is None:
                return UNSPEC   # "missing matches only a None alternative": is {=, None} one? not documented
            try:
                return bool(recorded == val)
            except Exception:
                return False
        if recorded is None:
            return False        # a missing value matches only a None alternative
        try:
            if op == '<':
                return bool(recorded < val)
            if op == '<=':
                return bool(recorded <= val)
            if op == '>':
                return bool(recorded > val)
            return bool(recorded >= val)
        except TypeError:
            return False        # not comparable => no match (and never raises)
    if recorded is None:
        return f is None
    if isinstance(f, str):
        if not isinstance(recorded, str):
            return False
        return bool(fnmatch(recorded, f))
    try:
        return bool(recorded == f)
    except Exception:
        return False


def ref_match(filter_by, metadata):
    res = True
    for k, f in filter_by.items():
        r = ref_match_value(f, metadata.get(k))
        if r is False:
            return False
        if r == UNSPEC:
            res = UNSPEC
    return res


# ------------------------------------------------------------------------------------------------------
# C10: lookup

def ref_lookup(saved, category, filter_by):
    """saved: list of (id, category, metadata). Returns (ids, unspecified_ids)."""
    yes, maybe = [], []
    for rid, cat, md in saved:
        if cat != category:
            continue
        r = ref_match(filter_by or {}, md)
        if r is True:
            yes.append(rid)
        elif r == UNSPEC:
            maybe.append(rid)
    return yes, maybe


# ------------------------------------------------------------------------------------------------------
# C16: S3 time window

def ref_in_window(t, start, end, now):
    end = end if end is not None else now
    return start <= t <= end


# ------------------------------------------------------------------------------------------------------
# C17: sampling policy

def ref_keep(skipped, discarded, forced, ignore_forced, rate, draw):
    """Returns 'none' (no recording started), 'abort' or 'save'. ``draw`` is the single uniform draw, or None."""
    if skipped:
        return 'none'
    if discarded:
        return 'abort'
    if forced and not ignore_forced:
        return 'save'
    if rate >= 1:
        return 'save'
    if draw is None:
        return UNSPEC
    return 'save' if draw <= rate else 'abort'


# ------------------------------------------------------------------------------------------------------
# C02: replay policy for a missing / present input key

def ref_input_policy(present_keys, possible_keys, run_original, substitute):
    """-> ('recorded', key) | ('run_original',) | ('substitute',) | ('missing',)"""
    for k in possible_keys:
        if k in present_keys:
            return ('recorded', k)
    if run_original:
        return ('run_original',)
    if substitute is not None:
        return ('substitute',)
    return ('missing',)
