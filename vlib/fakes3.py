"""In-memory stand-in for the six boto3 calls S3BasicFacade makes, installed *behind the real facade*.

    client.put_object(Bucket, Key, Body, **kw)      client.get_object(Bucket, Key)['Body'].read()
    resource.Bucket(b).objects.filter(Prefix=p)  -> iterable of summaries (.key, .last_modified, .get()) in S3's
                                                    lexicographic (UTF-8 byte) order, and .delete()

Every client/resource is tagged with the owner that was current when it was created, so each entry of the
mutation log is attributed to the cassette that caused it.  A controllable clock provides last_modified and
(via ``FakeDateTime``) the ``datetime`` the S3 cassette uses for recording ids.  ``on_mutation`` is the
"invariant at a hook" entry point; ``crash_at`` injects a crash before the n-th mutation.
"""
import contextlib
import datetime as _dt
import io

import pytz


class NoSuchKey(Exception):
    """Named like botocore's error: the cassette recognises it by type name."""


class InjectedCrash(Exception):
    pass


class FakeS3(object):
    def __init__(self, start=None):
        self.buckets = {}
        self.log = []           # (owner, op, bucket, key)
        self.reads = []         # (owner, op, bucket, key-or-prefix)
        self.now = start or _dt.datetime(2024, 3, 10, 12, 0, 0)
        self._owner = None
        self.on_mutation = None
        self.crash_at = None    # raise InjectedCrash instead of performing mutation number crash_at (0-based)
        self.mutations = 0
        self._in_hook = False

    # --- installation ------------------------------------------------------------------------------
    @contextlib.contextmanager
    def installed(self):
        from playback.tape_cassettes.s3 import s3_basic_facade, s3_tape_cassette
        fake_mod = _FakeBoto3(self)
        saved = (s3_basic_facade.boto3, s3_tape_cassette.datetime)
        s3_basic_facade.boto3 = fake_mod
        s3_tape_cassette.datetime = make_fake_datetime(self)
        try:
            yield self
        finally:
            s3_basic_facade.boto3, s3_tape_cassette.datetime = saved

    @contextlib.contextmanager
    def owner(self, tag):
        old = self._owner
        self._owner = tag
        try:
            yield
        finally:
            self._owner = old

    def cassette(self, tag, bucket='bkt', cls=None, **kw):
        from playback.tape_cassettes.s3.s3_tape_cassette import S3TapeCassette
        with self.owner(tag):
            return (cls or S3TapeCassette)(bucket, **kw)

    # --- store -------------------------------------------------------------------------------------
    def _b(self, bucket):
        return self.buckets.setdefault(bucket, {})

    def _mutate(self, owner, op, bucket, key, apply):
        rp = getattr(self, 'reject_puts', None)
        if rp and op == 'put' and self.mutations == rp['at'] and rp['times'] > 0:
            # the service refuses the request (throttling, 5xx) this many consecutive times; nothing is stored
            rp['times'] -= 1
            rp['rejected'] = rp.get('rejected', 0) + 1
            raise ClientError({'Error': {'Code': rp.get('code', 'SlowDown'), 'Message': 'Please reduce your request rate.'},
                               'ResponseMetadata': {'HTTPStatusCode': 503}}, 'PutObject')
        rd = getattr(self, 'reject_deletes', None)
        if rd and op == 'delete' and self.mutations == rd['at'] and rd['times'] > 0:
            rd['times'] -= 1
            rd['rejected'] = rd.get('rejected', 0) + 1
            raise ClientError({'Error': {'Code': rd.get('code', 'SlowDown'), 'Message': 'Please reduce your request rate.'},
                               'ResponseMetadata': {'HTTPStatusCode': 503}}, 'DeleteObjects')
        if self.crash_at is not None and self.mutations == self.crash_at:
            self.crash_at = None
            raise InjectedCrash('crash before mutation %d (%s %s)' % (self.mutations, op, key))
        apply()
        self.mutations += 1
        self.log.append((owner, op, bucket, key))
        if self.on_mutation is not None and not self._in_hook:
            self._in_hook = True
            try:
                self.on_mutation(owner, op, bucket, key)
            finally:
                self._in_hook = False

    def put(self, owner, bucket, key, body, extra):
        if isinstance(body, str):
            body = body.encode('utf-8')
        body = bytes(body)
        when = pytz.utc.localize(self.now)
        self._mutate(owner, 'put', bucket, key, lambda: self._b(bucket).__setitem__(key, (body, when, dict(extra))))

    def get(self, owner, bucket, key):
        self.reads.append((owner, 'get', bucket, key))
        fr = getattr(self, 'fail_reads', None)
        if fr:
            fr['seen'] = fr.get('seen', 0) + 1
            if fr['seen'] == fr['at']:
                raise fr.get('error', TransientS3Error)('injected: %s while reading %s' % (fr.get('error', TransientS3Error).__name__, key))
        if key not in self._b(bucket):
            raise NoSuchKey(key)
        return self._b(bucket)[key][0]

    def keys(self, owner, bucket, prefix):
        self.reads.append((owner, 'list', bucket, prefix))
        return sorted((k for k in self._b(bucket) if k.startswith(prefix or '')), key=lambda k: k.encode('utf-8'))

    def delete(self, owner, bucket, key):
        self._mutate(owner, 'delete', bucket, key, lambda: self._b(bucket).pop(key, None))

    def snapshot(self, bucket='bkt'):
        return {k: v[0] for k, v in self._b(bucket).items()}


class _FakeBoto3(object):
    def __init__(self, fake):
        self._fake = fake

    def resource(self, name, **kw):
        assert name == 's3'
        return _Resource(self._fake, self._fake._owner)

    def client(self, name, **kw):
        assert name == 's3'
        return _Client(self._fake, self._fake._owner)


class _Client(object):
    def __init__(self, fake, owner):
        self._fake, self._owner = fake, owner

    def put_object(self, Bucket, Key, Body, **kw):
        self._fake.put(self._owner, Bucket, Key, Body, kw)
        return {'ResponseMetadata': {'HTTPStatusCode': 200}}

    def get_object(self, Bucket, Key):
        return {'Body': io.BytesIO(self._fake.get(self._owner, Bucket, Key))}


class _Resource(object):
    def __init__(self, fake, owner):
        self._fake, self._owner = fake, owner

    def Bucket(self, name):
        return _Bucket(self._fake, self._owner, name)


class _Bucket(object):
    def __init__(self, fake, owner, name):
        self.objects = _Objects(fake, owner, name)


class _Objects(object):
    def __init__(self, fake, owner, bucket, prefix=None):
        self._fake, self._owner, self._bucket, self._prefix = fake, owner, bucket, prefix

    def filter(self, Prefix=None):
        return _Objects(self._fake, self._owner, self._bucket, Prefix)

    def __iter__(self):
        # like boto3: a lazily paginated listing; keys are resolved when iteration starts
        for k in self._fake.keys(self._owner, self._bucket, self._prefix):
            if k in self._fake._b(self._bucket):
                yield _Summary(self._fake, self._owner, self._bucket, k)

    def delete(self):
        for k in self._fake.keys(self._owner, self._bucket, self._prefix):
            self._fake.delete(self._owner, self._bucket, k)
        return []


class _Summary(object):
    def __init__(self, fake, owner, bucket, key):
        self._fake, self._owner, self._bucket, self.key = fake, owner, bucket, key

    @property
    def last_modified(self):
        return self._fake._b(self._bucket)[self.key][1]

    def get(self):
        return {'Body': io.BytesIO(self._fake.get(self._owner, self._bucket, self.key))}


class ClientError(Exception):
    """Shaped like botocore.exceptions.ClientError (which is what a real client raises for an error response)."""

    def __init__(self, error_response, operation_name):
        super(ClientError, self).__init__('An error occurred (%s) when calling the %s operation: %s' % (
            error_response['Error']['Code'], operation_name, error_response['Error']['Message']))
        self.response = error_response
        self.operation_name = operation_name


class TransientS3Error(Exception):
    """Throttling / read timeout / connection reset while an object is fetched."""


class ReadTimeoutError(Exception):
    pass


def make_fake_datetime(fake):
    class FakeDateTime(_dt.datetime):
        @classmethod
        def today(cls):
            # local wall-clock time of the process: fake.now is UTC, fake.tz_offset the zone the process runs in
            return fake.now + getattr(fake, 'tz_offset', _dt.timedelta(0))

        @classmethod
        def utcnow(cls):
            return fake.now

        @classmethod
        def now(cls, tz=None):
            if tz is not None:
                return pytz.utc.localize(fake.now).astimezone(tz)
            return fake.now + getattr(fake, 'tz_offset', _dt.timedelta(0))
    return FakeDateTime
