"""Value domain: hostile generator, type-aware equality, deep mutation, aliasing detection.

The domain is *calibrated*, not hard-coded: ``in_domain(v)`` asks the installed jsonpickle (third party,
trusted, called directly and not through playback code) whether ``decode(encode(v))`` is type-aware-equal to
``v``.  Values that fail are dropped by the generators and counted.
"""
import copy
import math

from jsonpickle import encode as _jp_encode, decode as _jp_decode


class Obj(object):
    """Plain importable object (jsonpickle revives it by module path vlib.values.Obj)."""

    def __init__(self, **kw):
        self.__dict__.update(kw)

    def __repr__(self):
        return 'Obj(%s)' % ', '.join('%s=%r' % kv for kv in sorted(self.__dict__.items()))


class Obj2(object):
    def __init__(self, **kw):
        self.__dict__.update(kw)

    def __repr__(self):
        return 'Obj2(%s)' % ', '.join('%s=%r' % kv for kv in sorted(self.__dict__.items()))


class CheapCopy(object):
    """A service object with its own copy protocol: copies made through the copy module share the (big) payload list, as a handle
    to an immutable-by-convention buffer would. The serializer rebuilds it from its state like any other object."""

    def __init__(self, **kw):
        self.__dict__.update(kw)

    def __copy__(self):
        c = CheapCopy()
        c.__dict__.update(self.__dict__)
        return c

    def __deepcopy__(self, memo):
        return self.__copy__()

    def __repr__(self):
        return 'CheapCopy(%s)' % ', '.join('%s=%r' % kv for kv in sorted(self.__dict__.items()))


class HostileEq(object):
    """A service value whose == is not a plain bool (array-like: element-wise comparison, ambiguous truth value)."""

    def __init__(self, **kw):
        self.__dict__.update(kw)

    def __eq__(self, other):
        raise ValueError('The truth value of a HostileEq is ambiguous')

    def __ne__(self, other):
        raise ValueError('The truth value of a HostileEq is ambiguous')

    __hash__ = object.__hash__

    def __repr__(self):
        return 'HostileEq(%s)' % ', '.join('%s=%r' % kv for kv in sorted(self.__dict__.items()))


class PriceTable(object):
    """A service class with its own jsonpickle handler (the documented way to teach jsonpickle about a class). Like many handlers in
    the wild it puts an attribute that already is json - a list of lists of numbers - into the flattened data as it is, and takes it
    back as it is."""

    def __init__(self, rows, name='prices'):
        self.rows = rows
        self.name = name

    def __repr__(self):
        return 'PriceTable(%r, %r)' % (self.rows, self.name)


def _register_price_table_handler():
    import jsonpickle.handlers

    @jsonpickle.handlers.register(PriceTable)
    class PriceTableHandler(jsonpickle.handlers.BaseHandler):
        def flatten(self, obj, data):
            data['rows'] = obj.rows
            data['name'] = obj.name
            return data

        def restore(self, data):
            table = PriceTable.__new__(PriceTable)
            table.rows = data['rows']
            table.name = data['name']
            return table
    return PriceTableHandler


_register_price_table_handler()


def owner_only_repr(self):
    """__repr__/__str__ of a service object that only its owner can print (a lazy proxy whose backend is gone, a row of a closed
    session): it raises for the framework and for the logging module, which have no business printing service values."""
    import sys
    fn = sys._getframe(1).f_code.co_filename.replace('\\', '/')
    if '/playback/' in fn or '/logging/' in fn:
        raise RuntimeError('this object cannot be printed: its session is closed')
    return '%s(%s)' % (type(self).__name__, ', '.join('%s=%r' % kv for kv in sorted(self.__dict__.items())))


class Unprintable(object):
    """Encodable like any plain object, but see owner_only_repr."""

    def __init__(self, **kw):
        self.__dict__.update(kw)

    __repr__ = owner_only_repr
    __str__ = owner_only_repr


class UserError(Exception):
    """Ordinary exception raised by generated service code."""


def sized_recording_class():
    """A recording class of a user-defined cassette that has a length (its number of data keys): an empty recording is falsy."""
    global SizedRecording
    if 'SizedRecording' not in globals():
        from playback.recordings.memory.memory_recording import MemoryRecording
        SizedRecording = type('SizedRecording', (MemoryRecording,), {'__module__': __name__, '__len__': lambda self: len(self.recording_data)})
    return SizedRecording


def service_side_error():
    """A service error class derived from the framework's base exception (the service wraps the framework in its storage layer)."""
    global ServiceSideError
    if 'ServiceSideError' not in globals():
        from playback.exceptions import TapeRecorderException
        ServiceSideError = type('ServiceSideError', (TapeRecorderException,), {'__module__': __name__})
    return ServiceSideError


class UserError2(Exception):
    pass


class EmptyBatchError(Exception):
    """A service exception that is FALSY (it has a length: the rejected rows it carries - none this time)."""

    def __init__(self, *a):
        super(EmptyBatchError, self).__init__(*a)
        self.rows = []

    def __len__(self):
        return len(self.rows)


class StatefulError(Exception):
    """A service exception that carries mutable state (survives the serializer as object state)."""

    def __init__(self, *a):
        super(StatefulError, self).__init__(*a)
        self.seen = []
        self.info = {'k': [1]}


class InterruptLike(BaseException):
    """Interrupt-style termination (like KeyboardInterrupt / SystemExit) that is safe to raise in a harness."""


# ------------------------------------------------------------------------------------------------------
# equality

def teq(a, b):
    """Type-aware deep equality: tuple != list, True != 1, bytes != str, 1 != 1.0, objects by class and
    __dict__, exceptions by type only, classes by identity."""
    if type(a) is not type(b):
        return False
    if isinstance(a, BaseException):
        return True
    if isinstance(a, float):
        if math.isnan(a) or math.isnan(b):
            return math.isnan(a) and math.isnan(b)
        return a == b and math.copysign(1, a) == math.copysign(1, b)
    if isinstance(a, (bool, int, str, bytes)) or a is None:
        return a == b
    if isinstance(a, (list, tuple)):
        return len(a) == len(b) and all(teq(x, y) for x, y in zip(a, b))
    if isinstance(a, dict):
        if len(a) != len(b):
            return False
        for k, v in a.items():
            if k not in b or not teq(v, b[k]):
                return False
            # key types must agree too (1 vs True as keys)
            kb = next(x for x in b if x == k)
            if type(kb) is not type(k):
                return False
        return True
    if isinstance(a, (set, frozenset)):
        if len(a) != len(b):
            return False
        lb = list(b)
        for x in a:
            for i, y in enumerate(lb):
                if teq(x, y):
                    del lb[i]
                    break
            else:
                return False
        return True
    if isinstance(a, type):
        return a is b
    if hasattr(a, '__dict__'):
        return teq(a.__dict__, b.__dict__)
    return a == b


def first_diff(a, b, path='$'):
    """Where two values stop being teq: (path, repr a, repr b) of the smallest differing subterm (diagnostics for witnesses)."""
    if teq(a, b):
        return None
    if type(a) is type(b):
        if isinstance(a, (list, tuple)) and len(a) == len(b):
            for i, (x, y) in enumerate(zip(a, b)):
                d = first_diff(x, y, '%s[%d]' % (path, i))
                if d:
                    return d
        elif isinstance(a, dict) and len(a) == len(b):
            for k in a:
                if k in b:
                    d = first_diff(a[k], b[k], '%s[%r]' % (path, k))
                    if d:
                        return d
        elif hasattr(a, '__dict__') and not isinstance(a, type):
            d = first_diff(a.__dict__, b.__dict__, path + '.__dict__')
            if d:
                return d
    return (path, '%s:%s' % (type(a).__name__, repr(a)[:200]), '%s:%s' % (type(b).__name__, repr(b)[:200]))


def in_domain(v):
    try:
        return teq(_jp_decode(_jp_encode(v, unpicklable=True)), v)
    except Exception:
        return False


def recording_in_domain(data, md):
    """Serializer-domain gate for a whole recording, asked of jsonpickle directly: the graph as the in-memory/file cassettes
    encode it, as the S3 cassette encodes it, and every value alone (get_data copies one value through the serializer)."""
    # two stages, as every cassette does it: the whole graph is decoded on fetch, then single values are copied through the
    # serializer again (get_data / the player's output comparison). The first stage can return a graph that is equal but
    # *shares differently* (a py/id resolved to another, equal, object), which only the second stage turns into a wrong value.
    try:
        for whole, pick, envelope in (({'recording_data': data, 'recording_metadata': md}, lambda d: d['recording_data'], None),
                                      (dict(data, _metadata=md), lambda d: d, '_metadata')):
            d1 = _jp_decode(_jp_encode(whole, unpicklable=True))
            if not teq(d1, whole):
                return False
            d1 = pick(d1)
            for k, v in data.items():
                if k == envelope:
                    continue      # the S3 layout's own envelope key (what happens to a datum of that name is the cassette's business, not the serializer's)
                if not teq(_jp_decode(_jp_encode(d1[k], unpicklable=True)), v):
                    return False
    except Exception:
        return False
    if not in_domain(md):
        return False
    return all(in_domain(v) for v in data.values())


def fresh(v):
    """Harness-side deep copy that does not go through playback or jsonpickle (and does not honour CheapCopy's own copy protocol)."""
    saved = CheapCopy.__deepcopy__
    try:
        del CheapCopy.__deepcopy__
        return copy.deepcopy(v)
    finally:
        CheapCopy.__deepcopy__ = saved


# ------------------------------------------------------------------------------------------------------
# generation

HOSTILE_STRINGS = [
    '', 'a', 'A', '1', 'True', 'None', ' ', 'x y', 'é', '日本', '"', "'", '\\', '\n', '\t', 'a"b', "a'b", 'a\\b',
    '{"py/tuple": [1]}', '[1, 2]', '{}', 'null', ' args=', ', kwargs=', 'input: x args=[], kwargs=[]', '#1', '.result',
    'a/b', 'a_b', '{x}', '{', '}', 'py/object', '\u2028', '\x00', 'a' * 300, '\U0001f600', '%s', '*', '?', '[a]', '\ud83d', 'caf\udce9.csv',
]
HOSTILE_INTS = [0, 1, -1, 2, 7, 10, 255, 2 ** 31, -2 ** 31, 2 ** 63, 10 ** 30, -10 ** 30]
HOSTILE_FLOATS = [0.0, -0.0, 1.0, -1.0, 0.5, 1e-320, 1e308, float('inf'), float('-inf'), 0.1, 2.5]
HOSTILE_BYTES = [b'', b'a', b'\x00', b'\xff', b'a\x00\xff', b'=00', b'\n\r', bytes(range(256))]


def gen_atom(rng):
    k = rng.randrange(8)
    if k == 0:
        return None
    if k == 1:
        return rng.choice([True, False])
    if k == 2:
        return rng.choice(HOSTILE_INTS) if rng.random() < 0.7 else rng.randrange(-1000, 1000)
    if k == 3:
        return rng.choice(HOSTILE_FLOATS) if rng.random() < 0.7 else rng.uniform(-1e6, 1e6)
    if k in (4, 5):
        if rng.random() < 0.6:
            return rng.choice(HOSTILE_STRINGS)
        return ''.join(rng.choice('abcXYZ019 _-/."\'\\{}[],:#é\n') for _ in range(rng.randrange(0, 12)))
    if k == 6:
        return rng.choice(HOSTILE_BYTES) if rng.random() < 0.7 else bytes(rng.randrange(256) for _ in range(rng.randrange(0, 10)))
    return rng.choice([0, 1, True, False, 1.0, '1', '', (), []])


def gen_hashable(rng, depth=1):
    if depth <= 0 or rng.random() < 0.7:
        a = gen_atom(rng)
        if isinstance(a, list):
            return ()
        return a
    return tuple(gen_hashable(rng, depth - 1) for _ in range(rng.randrange(0, 3)))


def _gen(rng, depth, shared, multi_sets=True):
    if depth <= 0 or rng.random() < 0.35:
        return gen_atom(rng)
    if shared and rng.random() < 0.12:
        return rng.choice(shared)
    k = rng.randrange(7)
    n = rng.randrange(0, 4)
    if k == 0:
        v = [_gen(rng, depth - 1, shared, multi_sets) for _ in range(n)]
    elif k == 1:
        return tuple(_gen(rng, depth - 1, shared, multi_sets) for _ in range(n))
    elif k == 2:
        v = {}
        for _ in range(n):
            key = rng.choice(HOSTILE_STRINGS) if rng.random() < 0.4 else 'k%d' % rng.randrange(6)
            if key.startswith('py/'):
                key = 'k' + key
            v[key] = _gen(rng, depth - 1, shared, multi_sets)
    elif k == 3:
        v = set()
        if not multi_sets:
            n = min(n, 1)
        # homogeneous-ish sets: avoid 1/True/1.0 collapsing which python itself merges
        for _ in range(n):
            try:
                v.add(gen_hashable(rng, 1))
            except TypeError:
                pass
    elif k == 4:
        # jsonpickle 0.9.3 on Python >= 3.11 mis-numbers py/id references after an object whose state holds a
        # list (object.__getstate__ exists there), so graphs WITH identity sharing only get objects with atom fields
        v = Obj(**{'f%d' % i: (gen_hashable(rng, 0) if shared is not None else _gen(rng, depth - 1, shared, multi_sets)) for i in range(n)})
    elif k == 5:
        if rng.random() < 0.25:
            v = HostileEq(a=gen_hashable(rng, 0), n=rng.randrange(5))
        else:
            v = Obj2(a=gen_hashable(rng, 1) if shared is not None else _gen(rng, depth - 1, shared, multi_sets))
    else:
        v = [_gen(rng, depth - 1, shared, multi_sets) for _ in range(n)]
    if shared is not None and rng.random() < 0.3:
        shared.append(v)
    return v


class Gen(object):
    """Value generator with the domain gate and counters."""

    def __init__(self, rng, ctx=None, multi_sets=True):
        self.rng = rng
        self.ctx = ctx
        # multi_sets=False: no set with >= 2 elements. Used for values that flow back into captured arguments after a trip
        # through the serializer: a decoded set may iterate in another order and the framework keys sets in iteration order
        # (known finding of C06), which must not leak into the verdicts of other properties.
        self.multi_sets = multi_sets

    def value(self, depth=3, sharing=None, tries=20):
        """sharing=True: sub-objects may be shared by identity (objects then only hold atoms);
        sharing=False: tree-shaped, objects may hold anything; None: coin flip."""
        if sharing is None:
            sharing = self.rng.random() < 0.4
        for _ in range(tries):
            v = _gen(self.rng, depth, [] if sharing else None, self.multi_sets)
            if in_domain(v):
                if self.ctx:
                    self.ctx.count('values_generated')
                return v
            if self.ctx:
                self.ctx.count('values_out_of_domain')
        return self.rng.choice(HOSTILE_INTS)

    def mutable_value(self, depth=3, sharing=None):
        for _ in range(50):
            v = self.value(depth, sharing)
            if mutable_ids(v):
                if self.rng.random() < 0.12:
                    # somewhere inside: an object with a copy protocol of its own (copy.copy / copy.deepcopy share its payload)
                    v = [v, CheapCopy(payload=[1, 2, 3], name='buffer')] if self.rng.random() < 0.5 else {'wrapped': CheapCopy(payload=[v], name='w')}
                    if not in_domain(v):
                        continue
                return v
        return [1, {'a': [2]}]

    def args(self, n):
        return [self.value(2) for _ in range(n)]


# ------------------------------------------------------------------------------------------------------
# mutation / aliasing

_MUTABLE = (list, dict, set, bytearray)


def _walk(v, seen, out):
    i = id(v)
    if i in seen:
        return
    if isinstance(v, (list, tuple, set, frozenset)):
        seen.add(i)
        if isinstance(v, (list, set)):
            out[i] = v
        for x in v:
            _walk(x, seen, out)
    elif isinstance(v, dict):
        seen.add(i)
        out[i] = v
        for k, x in v.items():
            _walk(k, seen, out)
            _walk(x, seen, out)
    elif isinstance(v, BaseException):
        seen.add(i)
        out[i] = v
        _walk(getattr(v, '__dict__', {}), seen, out)
    elif hasattr(v, '__dict__') and not isinstance(v, type) and not callable(v):
        seen.add(i)
        out[i] = v
        _walk(v.__dict__, seen, out)


def mutable_nodes(v):
    out = {}
    _walk(v, set(), out)
    return out


def mutable_ids(v):
    return set(mutable_nodes(v))


def shares_mutable(a, b):
    """True iff a mutable node is reachable from both a and b (the aliasing monitor)."""
    ia = mutable_ids(a)
    return bool(ia and (ia & mutable_ids(b)))


def mutate_deep(v, tag='MUT'):
    """Mutate every mutable node reachable from v in place. Returns number of nodes mutated."""
    nodes = mutable_nodes(v)
    n = 0
    for node in nodes.values():
        try:
            if isinstance(node, list):
                node.append(tag)
                if len(node) > 1:
                    node[0] = tag
            elif isinstance(node, dict):
                for k in list(node.keys()):
                    if not isinstance(node[k], (list, dict, set)) and not hasattr(node[k], '__dict__'):
                        node[k] = tag
                node[tag] = tag
            elif isinstance(node, set):
                node.add(tag)
            elif isinstance(node, BaseException):
                node.args = (tag,)
                node.__dict__[tag] = tag
            else:
                node.__dict__[tag] = tag
            n += 1
        except Exception:
            pass
    return n
