"""Equalizer under the non-fork start methods of multiprocessing (spawn: the default on macOS / Windows, forkserver: the default of newer
Pythons on Linux).  Everything handed to the Equalizer is a module level callable, as those start methods require; the behaviour script
travels inside the recording ids ('Op/<behaviour>/T<n>').  Run as a subprocess: python eqspawn.py '<json case>' -> one JSON line."""
import json
import os
import sys

_COUNTER = os.environ.get('VP_EQSPAWN_BOOTSTRAP_COUNTER')
if __name__ == '__mp_main__' and _COUNTER:
    # bootstrap of a spawned worker (the main module is imported as __mp_main__ there): the N-th bootstrap of the run is lost the hard
    # way, before the worker reaches its entry point (an import that is OOM-killed, a main module that cannot be imported in the child)
    import multiprocessing as _mp
    if _mp.current_process().name == 'Playback runner':
        with open(_COUNTER, 'r+') as _f:
            _n = int(_f.read() or 0) + 1
            _f.seek(0)
            _f.write(str(_n))
        if _n == int(os.environ.get('VP_EQSPAWN_BOOTSTRAP_DIES', '0')):
            os._exit(1)

sys.path.insert(0, os.path.dirname(os.path.dirname(os.path.abspath(__file__))))
from vlib import env   # noqa

env.bootstrap()

from playback.studio.equalizer import Equalizer, CompareExecutionConfig, EqualityStatus, ComparatorResult   # noqa
from playback.tape_recorder import Playback, Output   # noqa

OUTPUT_KEY = 'output: _tape_recorder_operation #1.output'
EXPECTED = {'equal': 'Equal', 'different': 'Different', 'player_raises': 'EqualizerFailure', 'extractor_raises': 'EqualizerFailure',
            'comparator_raises': 'EqualizerFailure', 'bare_status': 'Equal', 'with_data': 'Equal'}


class FakeRecording(object):
    def __init__(self, rid):
        self.id = rid

    def get_metadata(self):
        return {'rid': self.id}


def player(recording_id):
    _, behaviour, tok = recording_id.split('/')
    if behaviour == 'player_raises':
        raise RuntimeError('player fails for ' + tok)
    replayed = tok if behaviour != 'different' else tok + '-changed'
    return Playback(playback_outputs=[Output(OUTPUT_KEY, {'args': [[behaviour, replayed]], 'kwargs': {}})], playback_duration=0.0,
                    recorded_outputs=[Output(OUTPUT_KEY, {'args': [[behaviour, tok]], 'kwargs': {}})], recorded_duration=0.0,
                    original_recording=FakeRecording(recording_id))


def result_extractor(outputs):
    behaviour, tok = outputs[0].value['args'][0]
    if behaviour == 'extractor_raises':
        raise RuntimeError('extractor fails for ' + tok)
    return behaviour + ':' + tok


def comparison_data_extractor(recording):
    return {'rid': recording.id}


def comparator(expected, actual, rid=None):
    behaviour = expected.split(':')[0]
    if behaviour == 'comparator_raises':
        raise RuntimeError('comparator fails for ' + expected)
    status = EqualityStatus.Equal if expected == actual else EqualityStatus.Different
    if behaviour == 'bare_status':
        return status
    return ComparatorResult(status, 'compared %s (data: %s)' % (expected, rid))


def run(case, dedicated):
    ids = ['Op/%s/T%d' % (b, i) for i, b in enumerate(case['behaviours'])]
    kw = {}
    if case.get('with_data_extractor'):
        kw['comparison_data_extractor'] = comparison_data_extractor
    eq = Equalizer(ids if case.get('ids_as_list') else iter(ids), player, result_extractor, comparator,
                   compare_execution_config=CompareExecutionConfig(keep_results_in_comparison=case.get('keep', True), compare_in_dedicated_process=dedicated,
                                                                   compare_process_timeout=case.get('timeout', 120), compare_process_recycle_rate=case.get('recycle', 5)), **kw)
    out = []
    for c in eq.run_comparison():
        st = c.comparator_status
        out.append({'recording_id': c.recording_id, 'status': st.equality_status.name, 'message': (st.message or '')[:200],
                    'expected': c.expected, 'actual': c.actual})
    return ids, out


def main():
    import multiprocessing as mp
    case = json.loads(sys.argv[1])
    mp.set_start_method(case['start_method'])
    res = {'error': None}
    try:
        if case.get('only_dedicated'):
            res['ids'], res['dedicated'] = run(case, True)
            import time as _t
            _t.sleep(1.0)          # (an idle worker needs up to 50 ms to notice the end of the run)
        else:
            res['ids'], res['in_process'] = run(case, False)
            _, res['dedicated'] = run(case, True)
    except BaseException as ex:  # noqa
        res['error'] = '%s: %s' % (type(ex).__name__, str(ex)[:300])
    res['leftover_children'] = [p.name for p in mp.active_children() if p.name != 'SyncManager-1' and 'forkserver' not in p.name.lower()]
    print(json.dumps(res))


if __name__ == '__main__':
    main()
