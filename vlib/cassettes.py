"""Cassette factories used by all checks: memory, file (temp dir), S3-on-fake-bucket, async-over-X."""
import contextlib
import shutil
import tempfile

from vlib.fakes3 import FakeS3

KINDS = ('memory', 'file', 's3')


class Box(object):
    """A cassette plus what is needed to observe its store from outside and to open a second handle on it."""

    def __init__(self, kind, cassette, reader_factory, snapshot, cleanup, fake=None):
        self.kind = kind
        self.cassette = cassette
        self._reader_factory = reader_factory
        self.snapshot = snapshot          # () -> comparable snapshot of the stored bytes
        self._cleanup = cleanup
        self.fake = fake

    def reader(self):
        """A cassette to read back what ``cassette`` stored (the same object for memory)."""
        return self._reader_factory()

    def close(self):
        self._cleanup()


@contextlib.contextmanager
def open_box(kind, prefix='', fake=None, hostile_dir=False, s3_kwargs=None):
    if kind == 'memory':
        from playback.tape_cassettes.in_memory.in_memory_tape_cassette import InMemoryTapeCassette
        c = InMemoryTapeCassette()
        box = Box(kind, c, lambda: c, lambda: dict(c._recordings), lambda: None)
        yield box
    elif kind == 'file':
        import os
        from playback.tape_cassettes.file_based.file_based_tape_cassette import FileBasedTapeCassette
        d0 = tempfile.mkdtemp(prefix='vp-filecas-')
        # a directory name with shell-pattern metacharacters and a blank: perfectly legal, easy to mishandle
        d = os.path.join(d0, 'rec[2026] *a?') if hostile_dir else d0
        try:
            c = FileBasedTapeCassette(d)

            def snap():
                out = {}
                for n in sorted(os.listdir(d)):
                    with open(os.path.join(d, n), 'rb') as f:
                        out[n] = f.read()
                return out
            yield Box(kind, c, lambda: FileBasedTapeCassette(d), snap, lambda: None)
        finally:
            shutil.rmtree(d0, ignore_errors=True)
    elif kind == 's3':
        fk = fake or FakeS3()
        with fk.installed():
            c = fk.cassette('writer', key_prefix=prefix, read_only=False, **(s3_kwargs or {}))
            yield Box(kind, c, lambda: fk.cassette('reader', key_prefix=prefix, read_only=True),
                      lambda: fk.snapshot(), lambda: None, fake=fk)
    else:
        raise ValueError(kind)


def async_over(cassette, flush_interval=0.005):
    from playback.tape_cassettes.asynchronous.async_record_only_tape_cassette import AsyncRecordOnlyTapeCassette
    a = AsyncRecordOnlyTapeCassette(cassette, flush_interval=flush_interval, timeout_on_close=60)
    a.start()
    return a
