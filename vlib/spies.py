"""Spy / fault cassettes, draw-logging RNG, open() audit hook."""
import random
import sys
import threading

from playback.tape_cassette import TapeCassette


class InjectedSaveFailure(Exception):
    pass


class SpyCassette(TapeCassette):
    """Wraps a real cassette; logs create / save / abort / get / iter / close with the recording identity and a
    snapshot of the keys at save time; can be scripted to fail the n-th save."""

    def __init__(self, inner, fail_saves=()):
        self.inner = inner
        self.log = []
        self.fail_saves = set(fail_saves)   # 1-based indices of save calls that raise
        self._saves = 0
        self._lock = threading.Lock()
        self.recordings = {}                # id(recording) -> recording (keeps them alive so ids stay unique)

    def _add(self, *ev):
        with self._lock:
            self.log.append(ev)

    def create_new_recording(self, category):
        rec = self.inner.create_new_recording(category)
        self.recordings[id(rec)] = rec
        self._add('create', id(rec), rec.id, category)
        return rec

    def save_recording(self, recording):
        with self._lock:
            self._saves += 1
            n = self._saves
        keys = None
        try:
            keys = sorted(recording.get_all_keys())
        except Exception:
            pass
        md = None
        try:
            md = dict(recording.get_metadata())
        except Exception:
            pass
        self._add('save', id(recording), recording.id, keys, md)
        if n in self.fail_saves:
            self._add('save_failed', id(recording), recording.id)
            raise InjectedSaveFailure('injected: storage fails on save')
        try:
            return self.inner.save_recording(recording)
        except Exception as ex:
            self._add('save_failed', id(recording), recording.id, repr(ex)[:200])
            raise

    def _save_recording(self, recording):
        raise AssertionError('not used')

    def abort_recording(self, recording=None):
        self._add('abort', id(recording), getattr(recording, 'id', None))
        if getattr(self, 'fail_aborts', False):
            # a cassette that releases a per-recording resource on abort (a session, a lock) and cannot reach it right now
            raise InjectedSaveFailure('injected: storage fails on abort')
        return self.inner.abort_recording(recording)

    def get_recording(self, recording_id):
        self._add('get', recording_id)
        return self.inner.get_recording(recording_id)

    def get_recording_metadata(self, recording_id):
        self._add('get_metadata', recording_id)
        return self.inner.get_recording_metadata(recording_id)

    def iter_recording_ids(self, *a, **k):
        self._add('iter', a, k)
        return self.inner.iter_recording_ids(*a, **k)

    def extract_recording_category(self, recording_id):
        return self.inner.extract_recording_category(recording_id)

    def close(self):
        self._add('close')
        return self.inner.close()

    # ---- helpers for oracles -----------------------------------------------------------------------
    def writes(self, since=0):
        return [e for e in self.log[since:] if e[0] in ('create', 'save', 'abort')]

    def finalisation(self, since=0):
        """-> {recording object id: {'id':..., 'save': n, 'abort': n, 'save_failed': n}} for every created recording."""
        out = {}
        for e in self.log[since:]:
            if e[0] == 'create':
                out[e[1]] = {'id': e[2], 'save': 0, 'abort': 0, 'save_failed': 0}
            elif e[0] in ('save', 'abort', 'save_failed'):
                ent = out.setdefault(e[1], {'id': e[2], 'save': 0, 'abort': 0, 'save_failed': 0, 'never_created': True})
                ent[e[0]] += 1
        return out


class SpyRandom(random.Random):
    """random.Random that logs every draw of random(); ``script`` (list) overrides the next draws."""

    def __init__(self, seed=None):
        super(SpyRandom, self).__init__(seed)
        self.draws = []
        self.script = []

    def random(self):
        v = self.script.pop(0) if self.script else super(SpyRandom, self).random()
        self.draws.append(v)
        return v


class OpenAudit(object):
    """sys.addaudithook based log of open() events (path, mode). Hooks cannot be removed, so one global instance
    is installed once and switched on/off."""
    _installed = None

    def __init__(self):
        self.events = []
        self.active = False

    @classmethod
    def get(cls):
        if cls._installed is None:
            inst = cls()

            def hook(event, args):
                if inst.active and event == 'open':
                    try:
                        inst.events.append((str(args[0]), args[1]))
                    except Exception:
                        pass
            sys.addaudithook(hook)
            cls._installed = inst
        return cls._installed

    def start(self):
        self.events = []
        self.active = True

    def stop(self):
        self.active = False
        return list(self.events)
