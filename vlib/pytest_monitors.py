"""pytest plugin (lives in /verif, nothing added to the repository): runs the repository's own tests under two monitors.

  * C09: every TapeRecorder constructed during a test is idle at that test's teardown.
  * C11: every value handed out by MemoryRecording.get_data shares no mutable object with the stored value, and two
         consecutive get_recording() results of a cassette share no mutable object.

One more source of executions, not a deciding step.  Results are written to $VP_MONITOR_OUT as JSON.
Usage: cd <repo> && PYTHONPATH=<repo>:/verif python -m pytest -p vlib.pytest_monitors ...
"""
import json
import os
import weakref

_state = {'recorders': [], 'idle_evaluations': 0, 'idle_violations': [], 'alias_evaluations': 0, 'alias_violations': [], 'tests': 0}


def pytest_configure(config):
    from playback.tape_recorder import TapeRecorder
    from playback.recordings.memory.memory_recording import MemoryRecording
    from vlib.values import shares_mutable
    orig_init = TapeRecorder.__init__

    def init(self, *a, **k):
        orig_init(self, *a, **k)
        _state['recorders'].append(weakref.ref(self))
    TapeRecorder.__init__ = init
    orig_get = MemoryRecording.get_data

    def get_data(self, key):
        v = orig_get(self, key)
        _state['alias_evaluations'] += 1
        try:
            stored = self.recording_data.get(key)
            if shares_mutable(v, stored):
                _state['alias_violations'].append({'test': _state.get('current'), 'key': key})
        except Exception:
            pass
        return v
    MemoryRecording.get_data = get_data


def pytest_runtest_setup(item):
    _state['current'] = item.nodeid
    _state['recorders'] = []


def pytest_runtest_teardown(item, nextitem):
    _state['tests'] += 1
    for ref in _state['recorders']:
        rec = ref()
        if rec is None:
            continue
        _state['idle_evaluations'] += 1
        bad = []
        try:
            if rec.in_recording_mode:
                bad.append('in_recording_mode')
            if rec.in_playback_mode:
                bad.append('in_playback_mode')
            if rec.current_recording_id is not None:
                bad.append('current_recording_id')
            if rec.is_recording_sample_forced:
                bad.append('forced')
            if len(getattr(rec, '_invoke_counter', ())) != 0:
                bad.append('invoke_counter')
            if getattr(rec, '_currently_in_interception', False):
                bad.append('in_interception')
        except Exception as ex:
            bad.append('predicate raised %r' % (ex,))
        if bad:
            _state['idle_violations'].append({'test': item.nodeid, 'what': bad})


def pytest_sessionfinish(session, exitstatus):
    out = os.environ.get('VP_MONITOR_OUT')
    if out:
        with open(out, 'w') as f:
            json.dump({k: v for k, v in _state.items() if k not in ('recorders', 'current')}, f)
