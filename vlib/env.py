"""Bootstrap, verdict discipline and evidence writer shared by all checks.

Every check module in /verif/checks exposes

    PROPERTY = 'Cxx'; LEVEL = 'exploration' | 'fault_enumeration'
    RULE     = text: how cases are generated and what makes one distinct / non-trivial
    ASSUMPTIONS = [...]
    def run(ctx): ...                 # drives workloads, calls ctx.case / ctx.violation / ...
    def replay(ctx, witness): ...     # optional: re-runs one witness written by ctx.violation

The driver (``/verif/check``) creates the Ctx, runs (optionally sharded over subprocesses), merges,
writes evidence/<id>.json (validated against the schema) and turns the result into the exit code:

    0  held on everything explored (KNOWN-FINDING lines may be printed)
    1  VIOLATION property=<id> replay=<path>
    2  INCONCLUSIVE (deciding monitor never ran, anchor missing, watchdog fired)
"""
from __future__ import annotations

import faulthandler
import hashlib
import json
import logging
import os
import random
import sys
import threading
import time
import traceback

VERIF = os.path.dirname(os.path.dirname(os.path.abspath(__file__)))
REPO = os.path.abspath(os.environ.get('VERIF_REPO', '/repo'))
GUARD = 'OPTIBUS_PLAYBACK_VERIF'


def bootstrap():
    """Make sure ``import playback`` resolves to the working tree under REPO and silence its logging."""
    os.environ.setdefault(GUARD, '1')
    for p in (VERIF, REPO):
        if p in sys.path:
            sys.path.remove(p)
    sys.path.insert(0, VERIF)
    sys.path.insert(0, REPO)
    logging.disable(logging.CRITICAL)
    import playback  # noqa
    pf = os.path.abspath(playback.__file__)
    if not pf.startswith(REPO + os.sep):
        raise SystemExit('INCONCLUSIVE: playback imported from %s, not from %s' % (pf, REPO))
    return playback


def stable_hash(obj):
    """Process-independent short hash of a JSON-able description (used for distinct counting)."""
    try:
        s = json.dumps(obj, sort_keys=True, default=repr)
    except Exception:
        s = repr(obj)
    return hashlib.sha256(s.encode('utf-8', 'backslashreplace')).hexdigest()[:16]


def jsonable(obj, depth=0):
    """Best-effort conversion of arbitrary values to something json.dump accepts (for samples/witnesses)."""
    if depth > 12:
        return repr(obj)
    if obj is None or isinstance(obj, (bool, int, str)):
        return obj
    if isinstance(obj, float):
        if obj != obj or obj in (float('inf'), float('-inf')):
            return repr(obj)
        return obj
    if isinstance(obj, bytes):
        return {'__bytes__': obj.hex() if len(obj) <= 64 else obj[:64].hex() + '...(%d bytes)' % len(obj)}
    if isinstance(obj, dict):
        return {(k if isinstance(k, str) else repr(k)): jsonable(v, depth + 1) for k, v in obj.items()}
    if isinstance(obj, (list, tuple)):
        r = [jsonable(v, depth + 1) for v in obj]
        return r if isinstance(obj, list) else {'__tuple__': r}
    if isinstance(obj, (set, frozenset)):
        return {'__set__': sorted((jsonable(v, depth + 1) for v in obj), key=repr)}
    return repr(obj)


class Inconclusive(Exception):
    pass


class EnoughViolations(BaseException):
    """Raised by Ctx.violation once a run has seen so many violations that exploring further adds nothing (the tree is broken);
    the driver ends the run normally and reports what was found."""


class AnchorMissing(Inconclusive):
    pass


def anchor(obj, name):
    """getattr that turns a refactored-away anchor into INCONCLUSIVE instead of a false alarm."""
    try:
        return getattr(obj, name)
    except AttributeError:
        raise AnchorMissing('anchor %r missing on %r' % (name, obj))


class Ctx(object):
    MAX_SAMPLES = 6
    MAX_VIOLATIONS = 25
    ENOUGH = 300

    def __init__(self, prop, level, tier, seed, shard=0, nshards=1):
        self.prop = prop
        self.level = level
        self.tier = tier
        self.seed = seed
        self.shard = shard
        self.nshards = nshards
        self.rng = random.Random((seed * 1000003 + shard * 7919 + 17) & 0xffffffff)
        self.counters = {}
        self.maxima = {}
        self.evaluations = 0
        self.distinct = set()
        self.samples = []
        self.violations = []      # list of dict(what=..., witness=...)
        self.known_seen = {}      # key -> [what, count]
        self.inconclusive_reasons = []
        self.notes = {}
        self.exhaustive = None
        self._lock = threading.Lock()
        self._per_mech = {}
        self._auto_samples = []
        self.t0 = time.time()
        self._known_keys = load_known_keys(prop)

    # ---- tier helpers -------------------------------------------------------------------------
    @property
    def quick(self):
        return self.tier == 'quick'

    def budget(self, quick, thorough):
        """Number of cases for this shard given per-tier totals."""
        total = quick if self.quick else thorough
        per = total // self.nshards
        if self.shard < total % self.nshards:
            per += 1
        return per

    def mine(self, index):
        """Deterministic partition of an enumerated space over shards."""
        return index % self.nshards == self.shard

    # ---- recording what was observed ----------------------------------------------------------
    def count(self, name, n=1):
        with self._lock:
            self.counters[name] = self.counters.get(name, 0) + n

    def maximum(self, name, value):
        with self._lock:
            if name not in self.maxima or value > self.maxima[name]:
                self.maxima[name] = value

    def case(self, desc, nontrivial=True):
        """One executed case. ``desc`` identifies it (hashed for distinct counting)."""
        with self._lock:
            self.evaluations += 1
            if len(self._auto_samples) < 2:
                self._auto_samples.append(jsonable(desc))
            if nontrivial:
                self.distinct.add(stable_hash(desc) if not isinstance(desc, str) or len(desc) != 16 else desc)

    def sample(self, obj, force=False):
        with self._lock:
            if len(self.samples) < self.MAX_SAMPLES or force:
                self.samples.append(jsonable(obj))

    def note(self, key, value):
        with self._lock:
            self.notes[key] = value

    def violation(self, what, witness):
        with self._lock:
            mech = ''.join(c for c in what[:70] if not c.isdigit())
            self._per_mech[mech] = self._per_mech.get(mech, 0) + 1
            if len(self.violations) < self.MAX_VIOLATIONS and self._per_mech[mech] <= 2:
                self.violations.append({'what': what, 'witness': jsonable(witness)})
            self.counters['violations_total'] = self.counters.get('violations_total', 0) + 1
            enough = self.counters['violations_total'] >= self.ENOUGH
        if enough:
            raise EnoughViolations()

    def finding(self, key, what, witness):
        """A violation whose mechanism was classified as ``key``. Listed in KNOWN_FINDINGS.txt -> known
        finding, otherwise an ordinary violation."""
        if key in self._known_keys:
            with self._lock:
                ent = self.known_seen.setdefault(key, [what, 0])
                ent[1] += 1
        else:
            self.violation('[%s] %s' % (key, what), witness)

    def inconclusive(self, why):
        with self._lock:
            if len(self.inconclusive_reasons) < 20:
                self.inconclusive_reasons.append(why)

    # ---- serialisation for shards -------------------------------------------------------------
    def dump(self):
        return {
            'counters': self.counters, 'maxima': self.maxima, 'evaluations': self.evaluations,
            'distinct': sorted(self.distinct), 'samples': self.samples or [{'case': c} for c in self._auto_samples], 'violations': self.violations,
            'known_seen': self.known_seen, 'inconclusive': self.inconclusive_reasons, 'notes': self.notes,
            'exhaustive': self.exhaustive,
        }

    def merge(self, d):
        for k, v in d['counters'].items():
            self.counters[k] = self.counters.get(k, 0) + v
        for k, v in d['maxima'].items():
            if k not in self.maxima or v > self.maxima[k]:
                self.maxima[k] = v
        self.evaluations += d['evaluations']
        self.distinct.update(d['distinct'])
        for s in d['samples']:
            if len(self.samples) < self.MAX_SAMPLES:
                self.samples.append(s)
        for v in d['violations']:
            if len(self.violations) < self.MAX_VIOLATIONS:
                self.violations.append(v)
        for k, (what, n) in d['known_seen'].items():
            ent = self.known_seen.setdefault(k, [what, 0])
            ent[1] += n
        self.inconclusive_reasons.extend(d['inconclusive'])
        for k, v in d['notes'].items():
            self.notes.setdefault(k, v)
        if d.get('exhaustive') is not None:
            self.exhaustive = d['exhaustive'] if self.exhaustive is None else (self.exhaustive and d['exhaustive'])


def load_known_keys(prop):
    keys = set()
    path = os.path.join(VERIF, 'KNOWN_FINDINGS.txt')
    if not os.path.exists(path):
        return keys
    with open(path) as f:
        for line in f:
            line = line.strip()
            if not line.startswith('known:'):
                continue
            head = line.split('::')[0].split()
            fields = dict(x.split('=', 1) for x in head[1:] if '=' in x)
            if fields.get('property') == prop and 'key' in fields:
                keys.add(fields['key'])
    return keys


_SCHEMA = None


def validate_evidence(ev):
    global _SCHEMA
    try:
        import jsonschema
    except ImportError:
        return
    if _SCHEMA is None:
        for p in ('/root/.vp/EVIDENCE.schema.json', os.path.join(VERIF, 'vlib', 'EVIDENCE.schema.json')):
            if os.path.exists(p):
                with open(p) as f:
                    _SCHEMA = json.load(f)
                break
    if _SCHEMA is not None:
        jsonschema.validate(ev, _SCHEMA)


def finish(ctx, mod):
    """Write evidence, print verdict lines, return the exit code."""
    wall = time.time() - ctx.t0
    coverage = {
        'evaluations': ctx.evaluations,
        'distinct_nontrivial': len(ctx.distinct),
        'rule': getattr(mod, 'RULE', ''),
        'samples': ctx.samples or [{'case': c} for c in ctx._auto_samples],
        'monitor_counters': dict(sorted(ctx.counters.items())),
        'monitor_maxima': dict(sorted(ctx.maxima.items())),
        'known_findings_seen': {k: {'what': v[0], 'times': v[1]} for k, v in ctx.known_seen.items()},
        'shards': ctx.nshards,
    }
    coverage.update(ctx.notes)
    if ctx.exhaustive is not None:
        coverage['exhaustive'] = bool(ctx.exhaustive)
    if ctx.inconclusive_reasons:
        coverage['inconclusive'] = ctx.inconclusive_reasons[:10]
    ev = {
        'property_id': ctx.prop, 'tier': ctx.tier, 'seed': ctx.seed, 'level': ctx.level,
        'coverage': coverage, 'assumptions': list(getattr(mod, 'ASSUMPTIONS', [])),
        'wall_s': round(wall, 3), 'violations': len(ctx.violations),
    }
    rc = 0
    lines = []
    replay_dir = os.path.join(VERIF, 'replays', ctx.prop)
    for key, (what, n) in sorted(ctx.known_seen.items()):
        lines.append('KNOWN-FINDING: property=%s key=%s %s (seen %d times)' % (ctx.prop, key, what, n))
    if os.path.isdir(replay_dir):      # replay files of an earlier run are stale
        for n in os.listdir(replay_dir):
            try:
                os.unlink(os.path.join(replay_dir, n))
            except OSError:
                pass
    if ctx.violations:
        rc = 1
        os.makedirs(replay_dir, exist_ok=True)
        for v in ctx.violations:
            h = stable_hash(v)
            path = os.path.join('replays', ctx.prop, h + '.json')
            with open(os.path.join(VERIF, path), 'w') as f:
                json.dump({'property': ctx.prop, 'seed': ctx.seed, 'tier': ctx.tier, 'what': v['what'],
                           'witness': v['witness']}, f, indent=1, default=repr)
            lines.append('VIOLATION property=%s replay=%s :: %s' % (ctx.prop, path, v['what'][:300]))
    elif ctx.inconclusive_reasons or ctx.evaluations == 0 or len(ctx.distinct) < 2:
        rc = 2
        why = ctx.inconclusive_reasons[:3] or ['the deciding monitor observed fewer than 2 distinct cases']
        lines.append('INCONCLUSIVE property=%s :: %s' % (ctx.prop, ' | '.join(why)))
    # never write an evidence file that claims coverage the schema would reject
    os.makedirs(os.path.join(VERIF, 'evidence'), exist_ok=True)
    evpath = os.path.join(VERIF, 'evidence', ctx.prop + '.json')
    try:
        if rc != 2:
            validate_evidence(ev)
        with open(evpath, 'w') as f:
            json.dump(ev, f, indent=1, default=repr)
            f.write('\n')
    except Exception as ex:  # schema failure is a harness bug -> inconclusive, not silent
        lines.append('INCONCLUSIVE property=%s :: evidence does not validate: %s' % (ctx.prop, str(ex)[:300]))
        rc = rc or 2
    for line in lines:
        print(line)
    verdict = {0: 'HELD', 1: 'VIOLATED', 2: 'INCONCLUSIVE'}[rc]
    print('%s property=%s tier=%s seed=%d evaluations=%d distinct=%d wall=%.1fs counters=%s' % (
        verdict, ctx.prop, ctx.tier, ctx.seed, ctx.evaluations, len(ctx.distinct), wall,
        json.dumps(dict(sorted(ctx.counters.items())))))
    sys.stdout.flush()
    return rc


def install_watchdog(seconds):
    """A generous wall-clock watchdog whose firing is INCONCLUSIVE (exit 2), never a violation."""
    faulthandler.enable()

    def fire():
        sys.stderr.write('WATCHDOG: %ds elapsed, dumping stacks, exiting inconclusive\n' % seconds)
        faulthandler.dump_traceback(all_threads=True)
        print('INCONCLUSIVE watchdog fired after %ds' % seconds)
        sys.stdout.flush()
        os._exit(2)

    t = threading.Timer(seconds, fire)
    t.daemon = True
    t.start()
    return t


def fmt_exc():
    return traceback.format_exc()[-1500:]


import contextlib


@contextlib.contextmanager
def debug_logging():
    """The host application runs with verbose logging switched on for the framework (its loggers at DEBUG, records discarded)."""
    root = logging.getLogger('playback')
    old_level, old_propagate, null = root.level, root.propagate, logging.NullHandler()
    root.addHandler(null)
    root.setLevel(logging.DEBUG)
    root.propagate = False
    logging.disable(logging.NOTSET)           # (the harness silences logging globally otherwise)
    try:
        yield
    finally:
        logging.disable(logging.CRITICAL)
        root.setLevel(old_level)
        root.propagate = old_propagate
        root.removeHandler(null)
