"""Classes that carry the same NAMES as those in vlib.values but live in another module (a second package with its own Filter /
Order / Obj class is common): they are different classes, and values of them are different values."""


class Obj(object):
    def __init__(self, **kw):
        self.__dict__.update(kw)

    def __repr__(self):
        return 'values2.Obj(%s)' % ', '.join('%s=%r' % kv for kv in sorted(self.__dict__.items()))


class Obj2(object):
    def __init__(self, **kw):
        self.__dict__.update(kw)

    def __repr__(self):
        return 'values2.Obj2(%s)' % ', '.join('%s=%r' % kv for kv in sorted(self.__dict__.items()))
