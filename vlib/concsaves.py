"""Several threads of one process record through ONE cassette object (in-memory / file based): each saves its own recordings.
Explored with the deterministic scheduler at source-line granularity of the cassette module. Used by C07 (every saved recording is
fetchable with its content) and C10 (a listing after the saves returns exactly the saved ids).

Beyond the quantifiers of C07 / C10 (they range over sequential histories), so only interleavings the unchanged code supports are
driven: concurrent SAVES of different recordings; listings happen after the savers were joined (the file cassette writes its
files in place, a listing DURING a save may see a half-written file on the unchanged tree as well - not judged)."""
import shutil
import tempfile

from vlib import sched as S


def explore(ctx, kind, nthreads, per_thread, judge, quick):
    import playback.tape_cassette as base
    if kind == 'memory':
        import playback.tape_cassettes.in_memory.in_memory_tape_cassette as mod
    else:
        import playback.tape_cassettes.file_based.file_based_tape_cassette as mod
    tg = [mod.__file__, base.__file__]
    holder = {}

    def make(sched):
        if kind == 'memory':
            c = mod.InMemoryTapeCassette()
            d = None
        else:
            d = tempfile.mkdtemp(prefix='vp-concsave-')
            c = mod.FileBasedTapeCassette(d)
        ids = {}
        holder.update(cassette=c, ids=ids, dir=d)

        def worker(i):
            def fn():
                for k in range(per_thread):
                    rec = c.create_new_recording('Op')
                    rec.set_data('who', 'thread-%d-%d' % (i, k))
                    rec.add_metadata({'who': i, 'k': k})
                    ids[(i, k)] = rec.id
                    c.save_recording(rec)
            return fn

        def main():
            ths = [sched.Thread(target=worker(i), name='saver%d' % i) for i in range(nthreads)]
            for t in ths:
                t.start()
            for t in ths:
                t.join()
        return main

    def on_run(rec, desc):
        w = {'concurrent_saves': kind, 'threads': nthreads, 'schedule': desc if isinstance(desc, tuple) else list(desc)}
        try:
            ctx.case(('concsave', kind, rec.trace), nontrivial=len(rec.points) > 0)
            ctx.count('concurrent_save_schedules')
            if rec.aborted or rec.error is not None:
                if rec.error is not None:
                    ctx.violation('a save racing with another thread\'s save on one %s cassette raised %s' % (kind, type(rec.error).__name__),
                                  dict(w, error=repr(rec.error)[:200]))
                elif 'deadlock' in (rec.aborted or ''):
                    ctx.violation('concurrent saves deadlocked', w)
                return
            judge(ctx, holder['cassette'], holder['ids'], kind, w)
        finally:
            if holder.get('dir'):
                shutil.rmtree(holder['dir'], ignore_errors=True)
    S.explore_dfs(make, tg, 1, on_run, max_runs=120 if quick else 4000)
    S.explore_random(make, tg, 30 if quick else 1500, ctx.rng, on_run)


def explore_resave_fetch(ctx, quick):
    """In-memory cassette shared by threads: one thread saves an already stored recording AGAIN under its id (fetched, completed, saved)
    while another fetches that id. The id was saved before the threads started: every fetch must find it, with the old or the new
    content. (The file cassette rewrites its file in place and is not driven this way.)"""
    import playback.tape_cassette as base
    import playback.tape_cassettes.in_memory.in_memory_tape_cassette as mod
    from playback.exceptions import NoSuchRecording
    tg = [mod.__file__, base.__file__]
    holder = {}

    def make(sched):
        c = mod.InMemoryTapeCassette()
        first = c.create_new_recording('Op')
        first.set_data('k', 'v1')
        first.add_metadata({'rev': 1})
        c.save_recording(first)
        other = c.create_new_recording('Op')
        c.save_recording(other)
        rid = first.id
        seen = []
        holder.update(seen=seen)

        def resaver():
            r = c.get_recording(rid)
            r.add_metadata({'rev': 2})
            c.save_recording(r)

        def fetcher():
            for _ in range(2):
                try:
                    seen.append(('data', c.get_recording(rid).get_metadata().get('rev')))
                    seen.append(('meta', c.get_recording_metadata(rid).get('rev')))
                except NoSuchRecording:
                    seen.append(('missing', None))

        def main():
            ths = [sched.Thread(target=resaver, name='resaver'), sched.Thread(target=fetcher, name='fetcher')]
            for t in ths:
                t.start()
            for t in ths:
                t.join()
        return main

    def on_run(rec, desc):
        w = {'concurrent_saves': 'memory', 'resave_while_fetching': True, 'schedule': desc if isinstance(desc, tuple) else list(desc)}
        ctx.case(('resave_fetch', rec.trace), nontrivial=len(rec.points) > 0)
        ctx.count('resave_while_fetching_schedules')
        if rec.aborted or rec.error is not None:
            if rec.error is not None:
                ctx.violation('re-saving a stored recording while another thread fetches it raised %s' % type(rec.error).__name__, dict(w, error=repr(rec.error)[:200]))
            return
        for what, rev in holder['seen']:
            if what == 'missing' or rev not in (1, 2):
                ctx.violation('a stored recording was not fetchable (or held neither its old nor its new content) while another thread saved it again under its id',
                              dict(w, seen=holder['seen']))
                return
    S.explore_dfs(make, tg, 1, on_run, max_runs=150 if quick else 4000)
    S.explore_random(make, tg, 40 if quick else 1500, ctx.rng, on_run)
