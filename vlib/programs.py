"""Program DSL, generator, interpreter and client-side journal.

A *program* describes one service operation: declarations of intercepted inputs/outputs (with every decorator
option the framework offers) and a body of steps.  ``Built`` turns a program into a fresh class whose methods are
decorated with the REAL decorators of a given TapeRecorder (or with nothing: the undecorated twin) and runs it.

The journal is written by the interpreter at the client boundary (before invoking a decorated attribute / after it
returned or raised) and from inside every wrapped body.  It never reads playback's internal state.
"""
import hashlib
import itertools
import random
import sys as _sys
import threading
import time as _time

from vlib import genclasses
from vlib.values import Gen, Obj, UserError, UserError2, InterruptLike, teq, in_domain

_uid = itertools.count()


# ------------------------------------------------------------------------------------------------------
# canonical, hash-seed independent text of a value (used to key the world function)

def canon(v):
    if isinstance(v, Unencodable):
        return 'UNENC'
    if isinstance(v, (list, tuple)):
        return ('L[' if isinstance(v, list) else 'T[') + ','.join(canon(x) for x in v) + ']'
    if isinstance(v, dict):
        return 'D{' + ','.join(sorted(canon(k) + ':' + canon(x) for k, x in v.items())) + '}'
    if isinstance(v, (set, frozenset)):
        return 'S{' + ','.join(sorted(canon(x) for x in v)) + '}'
    if isinstance(v, BaseException):
        return 'E<' + type(v).__name__ + '>'
    if isinstance(v, type):
        return 'C<' + v.__name__ + '>'
    if hasattr(v, '__dict__') and not callable(v):
        return 'O<' + type(v).__module__ + '.' + type(v).__name__ + canon(v.__dict__) + '>'       # classes of the same name in two modules differ
    return type(v).__name__ + ':' + repr(v)


def as_collection(kind, items):
    """The same items, in order, as another kind of (re-)iterable collection."""
    if kind == 'tuple':
        return tuple(items)
    if kind == 'frozenset':
        return frozenset(items)
    if kind == 'dict':
        return dict((a, i) for i, a in enumerate(items))
    if kind == 'dict_keys':
        return dict((a, i) for i, a in enumerate(items)).keys()
    if kind == 'dict_values':
        return dict((i, a) for i, a in enumerate(items)).values()
    if kind == 'iterable':
        class Registry(object):
            def __iter__(self):
                return iter(list(items))
        return Registry()
    if kind == 'getitem':
        class OldStyleSequence(object):
            def __getitem__(self, i):
                return list(items)[i]
        return OldStyleSequence()
    raise ValueError(kind)


class Unencodable(object):
    """An object the serializer cannot encode (its state cannot be obtained)."""

    def __getstate__(self):
        raise ValueError('this object cannot be serialized')

    def __reduce_ex__(self, protocol):
        raise ValueError('this object cannot be serialized')

    def __repr__(self):
        return 'Unencodable()'


# ------------------------------------------------------------------------------------------------------
# world: inputs are pure functions of (resolved alias, captured arguments)

BUILTIN_EXCEPTIONS = [KeyError, ValueError, LookupError, AttributeError, TypeError, AssertionError, RuntimeError, IndexError, OSError,
                      ZeroDivisionError, StopIteration, NotImplementedError]


class World(object):
    UNPRINTABLE_RATE = 0.0       # share of input values that only their owner can print (set by unprintable_values())

    def __init__(self, seed, poison=False, raise_rate=0.1, raw_rate=0.3, sharing=False, force_raise=None, hostile_rate=0.08):
        self.hostile_rate = hostile_rate    # share of values whose == is not a plain bool
        self.force_raise = force_raise      # every input raises this exception type (for exhaustive tables)
        self.seed = seed
        self.poison = poison
        self.raise_rate = raise_rate
        self.raw_rate = raw_rate
        self.sharing = sharing

    def outcome(self, kind, name, ralias, captured):
        """-> ('value', v) | ('raise', exc_type). Fresh objects on every call (no identity shared between calls)."""
        if self.poison:
            return ('value', {'POISON': name})
        if self.force_raise is not None and kind == 'in':
            return ('raise', self.force_raise)
        text = '%s|%s|%s|%s' % (self.seed, kind, ralias, canon(captured))
        h = int(hashlib.sha256(text.encode('utf-8', 'backslashreplace')).hexdigest()[:12], 16)
        rng = random.Random(h)
        if rng.random() < self.raise_rate:
            # mostly service-defined exceptions, sometimes builtin ones a framework might catch too broadly itself
            r = rng.random()
            if r < 0.45:
                return ('raise', UserError)
            if r < 0.55:
                from vlib.values import EmptyBatchError
                return ('raise', EmptyBatchError)
            if r < 0.65:
                return ('raise', UserError2)
            return ('raise', rng.choice(BUILTIN_EXCEPTIONS))
        g = Gen(rng, multi_sets=False)
        payload = g.value(2, sharing=self.sharing)
        if World.UNPRINTABLE_RATE and random.Random(h ^ 0x5bd1e995).random() < World.UNPRINTABLE_RATE:
            from vlib.values import Unprintable
            return ('value', Unprintable(tok='%s#%06x' % (name, h & 0xffffff), rows=[1, 2]))     # only its owner can print it
        if rng.random() < self.hostile_rate:
            from vlib.values import HostileEq
            return ('value', HostileEq(tok='%s#%06x' % (name, h & 0xffffff), n=rng.randrange(5)))     # array-like value: == is not a bool
        if rng.random() < self.raw_rate:
            if rng.random() < 0.4:
                payload = rng.choice([0, '', [], {}, False, None, (), 0.0, b'', set()])
            return ('value', payload)
        return ('value', {'tok': '%s#%06x' % (name, h & 0xffffff), 'v': payload})


import contextlib


@contextlib.contextmanager
def unprintable_values(rate=0.3):
    old = World.UNPRINTABLE_RATE
    World.UNPRINTABLE_RATE = rate
    try:
        yield
    finally:
        World.UNPRINTABLE_RATE = old


# ------------------------------------------------------------------------------------------------------
# journal

class Journal(object):
    def __init__(self):
        self.events = []
        self._lock = threading.Lock()
        self._tl = threading.local()

    # logical thread names ('main', 'w0', ...) are set by the interpreter
    def set_thread(self, name):
        self._tl.name = name

    def thread(self):
        return getattr(self._tl, 'name', 'main')

    def add(self, ev):
        with self._lock:
            ev['n'] = len(self.events)
            ev['t'] = _time.time()
            ev['thread'] = ev.get('thread') or self.thread()
            self.events.append(ev)
            return ev

    def calls(self, nested=False):
        return [e for e in self.events if e['ev'] == 'call' and (nested or not e['nested'])]

    def bodies(self):
        return [e for e in self.events if e['ev'] == 'body']

    def by_thread(self, events=None):
        out = {}
        for e in (events if events is not None else self.events):
            out.setdefault(e['thread'], []).append(e)
        return out


# ------------------------------------------------------------------------------------------------------
# data handlers

class DescriptorProperty(property):
    """A user's subclass of property whose __get__ does something of its own with the getter's result (freezing / converting it)."""

    def __get__(self, obj, objtype=None):
        if obj is None:
            return self
        return {'by_descriptor': property.__get__(self, obj, objtype)}


def make_handlers():
    from playback.interception.input_interception import InputInterceptionDataHandler
    from playback.interception.output_interception import OutputInterceptionDataHandler

    class WrapIn(InputInterceptionDataHandler):
        def __init__(self, built, decl):
            self.built, self.decl = built, decl

        def prepare_input_for_recording(self, interception_key, result, args, kwargs):
            self.built.journal.add({'ev': 'handler', 'what': 'prepare_input', 'decl': self.decl['name']})
            if self.built.consume('handler_raises'):
                raise RuntimeError('injected: input data handler fails')
            return {'wrapped': result, 'by': 'in-handler'}

        def restore_input_from_recording(self, recorded_data, args, kwargs):
            return recorded_data['wrapped']

    class WrapOut(OutputInterceptionDataHandler):
        def __init__(self, built, decl):
            self.built, self.decl = built, decl

        def prepare_output_for_recording(self, interception_key, args, kwargs):
            self.built.journal.add({'ev': 'handler', 'what': 'prepare_output', 'decl': self.decl['name']})
            if self.built.consume('handler_raises'):
                raise RuntimeError('injected: output data handler fails')
            return {'hargs': list(args), 'hkw': dict(kwargs), 'by': 'out-handler'}

        def restore_output_from_recording(self, recorded_data):
            return recorded_data

    return WrapIn, WrapOut


def _falsy(cls):
    """The same handler, but its truth value is False (it doubles as a registry of codecs and none is registered: __len__ == 0)."""
    return type('Empty' + cls.__name__, (cls,), {'__len__': lambda self: 0})


# ------------------------------------------------------------------------------------------------------
# program generation

DEFAULT_OPTS = dict(
    max_in_decls=4, max_out_decls=3, max_steps=10, threads=True, nested=True, handlers=True, resolvers=True,
    statics=True, properties=True, class_level=True, capture=True, policies=False, extractor=True, params=False,
    try_steps=True, record_data=True, hostile_aliases=True, raise_rate=0.1, explicit_raise=0.15,
)

# ('alias', 'capture_args', 'static_function', 'alias_params_resolver' are left out on purpose: an intercepted input called with
#  a keyword argument of that name collides with the framework's key builder, the key cannot be built and the recording is
#  discarded - transparent for the service and consistent with C05, so not a violation of a listed property; see DESIGN 8.7)
HOSTILE_KWARG_NAMES = ['extra', 'extra', 'func', 'args', 'kwargs', 'key', 'interception_key', 'data_handler', 'recording', 'metadata', 'category',
                       'possible_keys', 'result', 'value']
ALIAS_POOL = ['in.a', 'in.a.b', 'in.a ', 'svc.read', 'svc.read2', 'x', 'x args=', 'a, kwargs=[]', 'é', 'db/get', 'in.{p}', 'q#1']
OUT_ALIAS_POOL = ['out.a', 'out.a.b', 'store', 'store.result', 'sink #1', 'out', 'é/out', 'my_tape_recorder_operation_log', 'z.output']


def gen_program(rng, **over):
    o = dict(DEFAULT_OPTS)
    o.update(over)
    uid = next(_uid)
    prog = {'seed_world': rng.randrange(1 << 30), 'class_level': o['class_level'] and rng.random() < 0.15,
            'extractor': None, 'params': None, 'inputs': [], 'outputs': [], 'opts': {'raise_rate': o['raise_rate']}}
    if o['extractor'] and rng.random() < 0.3:
        prog['extractor'] = 'ok'
    if o['params']:
        prog['params'] = {'copy': rng.random() < 0.5}
    elif rng.random() < 0.3:
        prog['params'] = {'copy': True}
    used = set()
    nin = rng.randrange(0, o['max_in_decls'] + 1)
    nout = rng.randrange(0, o['max_out_decls'] + 1)
    if nin + nout == 0:
        nin = 1
    for i in range(nin):
        d = {'name': 'in%d' % i, 'io': 'in', 'kind': 'instance', 'nparams': rng.randrange(0, 4), 'resolver': None,
             'capture': 'all', 'handler': None, 'fallback': None, 'run_original': False, 'substitute': ('none',), 'nested': []}
        alias = rng.choice(ALIAS_POOL) if o['hostile_aliases'] else 'in.%d' % i
        if '{p}' in alias:
            if o['resolvers'] and d['nparams'] > 0:
                d['resolver'] = 0
            else:
                alias = alias.replace('{p}', 'p')
        # aliases must be unique (the framework requires it); a resolver template must not be able to format into another alias
        if '{p}' in alias:
            alias = 'tpl%d.%s' % (i, alias)           # its formatted values can then never equal another alias
        while alias in used:
            alias = alias + str(i)
        used.add(alias)
        d['alias'] = alias
        r = rng.random()
        if o['statics'] and r < 0.25:
            d['kind'] = 'static'
        elif o['properties'] and r < 0.4 and d['resolver'] is None:
            d['kind'] = rng.choice(['property_outer', 'property_inner', 'property_inner_sub'])
            d['nparams'] = 0
        if o['capture'] and d['nparams'] > 0 and d['kind'] in ('instance', 'static') and rng.random() < 0.5:
            c = rng.random()
            if c < 0.3:
                d['capture'] = 'none'
            else:
                d['capture'] = sorted(rng.sample(range(d['nparams']), rng.randrange(1, d['nparams'] + 1)))
        if o['handlers'] and rng.random() < 0.2:
            d['handler'] = 'wrap'
        prog['inputs'].append(d)
    for j in range(nout):
        d = {'name': 'out%d' % j, 'io': 'out', 'kind': 'static' if (o['statics'] and rng.random() < 0.25) else 'instance',
             'nparams': rng.randrange(0, 4), 'handler': 'wrap' if (o['handlers'] and rng.random() < 0.2) else None,
             'fail_on_no_result': True, 'default': None, 'nested': []}
        alias = rng.choice(OUT_ALIAS_POOL) if o['hostile_aliases'] else 'out.%d' % j
        while alias in used:
            alias = alias + str(j)
        used.add(alias)
        d['alias'] = alias
        prog['outputs'].append(d)
    decls = prog['inputs'] + prog['outputs']
    if o['nested']:
        for d in decls:
            if rng.random() < 0.2:
                inner = rng.choice(decls)
                if inner is not d and not inner['nested'] and not inner['kind'].startswith('property') and inner.get('resolver') is None:
                    d['nested'] = [_gen_call(rng, prog, inner, [], nested=True)]
    # body
    vars_ = []
    body = _gen_steps(rng, prog, o, vars_, rng.randrange(1, o['max_steps'] + 1), top=True)
    prog['body'] = body
    prog['uid'] = uid
    if rng.random() < 0.2:
        # the service's operation takes keyword arguments whose names the framework might use internally
        prog['op_kwargs'] = {k: i for i, k in enumerate(rng.sample(['func', 'args', 'kwargs', 'metadata', 'category', 'cls', 'recording', 'class_function'],
                                                                     rng.randrange(1, 4)))}
    return prog


def _gen_arg(rng, vars_):
    if vars_ and rng.random() < 0.35:
        return {'var': rng.choice(vars_)}
    g = Gen(rng)
    return {'lit': g.value(2, sharing=False)}


def _gen_call(rng, prog, d, vars_, nested=False, prefix='v'):
    n = d['nparams']
    args = [_gen_arg(rng, vars_) for _ in range(n)]
    kwargs = {}
    # pass a random suffix of the parameters by keyword
    nkw = rng.randrange(0, n + 1) if rng.random() < 0.3 else 0
    for i in range(n - nkw, n):
        kwargs['p%d' % i] = args[i]
    args = args[:n - nkw]
    if rng.random() < 0.15 and not nested and not d['kind'].startswith('property'):
        # keyword names a framework might use for its own parameters must still reach the wrapped function
        kwargs[rng.choice(HOSTILE_KWARG_NAMES)] = _gen_arg(rng, vars_)
    step = {'op': d['io'], 'decl': d['name'], 'args': args, 'kwargs': kwargs}
    if not nested:
        step['var'] = '%s%d' % (prefix, next(_uid))
    return step


def _gen_steps(rng, prog, o, vars_, n, top=False, prefix='v', decls=None):
    steps = []
    decls = decls if decls is not None else (prog['inputs'] + prog['outputs'])
    for _ in range(n):
        r = rng.random()
        if top and o['threads'] and r < 0.08 and len(prog['outputs']) + len(prog['inputs']) >= 1:
            nthreads = rng.randrange(2, 4)
            outs = list(prog['outputs'])
            rng.shuffle(outs)
            bodies = []
            for t in range(nthreads):
                # worker threads use disjoint output aliases; inputs are shared
                mine = [d for i, d in enumerate(outs) if i % nthreads == t]
                avail = prog['inputs'] + mine
                if not avail:
                    bodies.append([])
                    continue
                bodies.append(_gen_steps(rng, prog, dict(o, threads=False, explicit_raise=0, try_steps=False, record_data=False),
                                         [], rng.randrange(1, 4), prefix='t%d_' % t, decls=avail))
            steps.append({'op': 'threads', 'bodies': bodies})
            # outputs used by workers must not be used by main any more (per-alias order must stay deterministic)
            decls = [d for d in decls if d['io'] == 'in']
            if not decls:
                break
            continue
        if o['try_steps'] and top and r < 0.14 and decls:
            inner = _gen_steps(rng, prog, dict(o, threads=False, try_steps=False), vars_, rng.randrange(1, 3), prefix=prefix, decls=decls)
            steps.append({'op': 'try', 'body': inner})
            continue
        if o['record_data'] and top and r < 0.18:
            steps.append({'op': 'record_data', 'key': 'data.%d' % rng.randrange(3), 'value': _gen_arg(rng, vars_)})
            continue
        if not decls:
            break
        d = rng.choice(decls)
        # outputs are called repeatedly (per-alias ordinals); inputs are sometimes fetched again with the very same arguments
        reps = rng.choice([1, 1, 1, 1, 2, 3, 11]) if d['io'] == 'out' else rng.choice([1, 1, 1, 1, 1, 2])
        first = None
        for _ in range(reps):
            c = _gen_call(rng, prog, d, vars_, prefix=prefix)
            if d['io'] == 'in' and first is not None:
                c = dict(first, var='%s%d' % (prefix, next(_uid)))      # the same call again
            first = first or c
            steps.append(c)
            vars_.append(c['var'])
    if top:
        r = rng.random()
        if r < o['explicit_raise']:
            steps.append({'op': 'raise', 'kind': 'user'})
        elif r < 0.5:
            steps.append({'op': 'return', 'expr': _gen_arg(rng, vars_)})
    return steps


def describe(prog):
    def s_arg(a):
        return a['var'] if 'var' in a else repr(a['lit'])[:40]

    def s_steps(steps):
        out = []
        for s in steps:
            if s['op'] in ('in', 'out'):
                out.append('%s=%s(%s%s)' % (s.get('var', '_'), s['decl'], ','.join(s_arg(a) for a in s['args']),
                                             ''.join(',%s=%s' % (k, s_arg(v)) for k, v in s['kwargs'].items())))
            elif s['op'] == 'threads':
                out.append('threads(%s)' % ' || '.join('[' + '; '.join(s_steps(b)) + ']' for b in s['bodies']))
            elif s['op'] == 'try':
                out.append('try[%s]' % '; '.join(s_steps(s['body'])))
            elif s['op'] == 'return':
                out.append('return ' + s_arg(s['expr']))
            elif s['op'] == 'raise':
                out.append('raise ' + s['kind'])
            else:
                out.append(s['op'] + (':' + str(s.get('key')) if 'key' in s else ''))
        return out
    decls = []
    for d in prog['inputs'] + prog['outputs']:
        dflt = {'capture': 'all', 'handler': None, 'resolver': None, 'fallback': None, 'run_original': False, 'substitute': ('none',),
                'fail_on_no_result': True, 'default': None}
        extra = {k: d[k] for k in dflt if k in d and not (type(d[k]) is type(dflt[k]) and d[k] == dflt[k])}
        decls.append('%s:%s alias=%r n=%d %s%s' % (d['name'], d['kind'], d['alias'], d['nparams'], extra or '',
                                                   ' nested=' + ';'.join(s_steps(d['nested'])) if d['nested'] else ''))
    return {'class_level': prog['class_level'], 'extractor': prog['extractor'], 'params': prog['params'],
            'decls': decls, 'body': s_steps(prog['body'])}


def count_features(prog, ctx):
    """Feature counters for the evidence file."""
    for d in prog['inputs'] + prog['outputs']:
        ctx.count('decl_' + d['io'] + '_' + d['kind'])
        if d.get('handler'):
            ctx.count('decl_with_handler')
        if d.get('resolver') is not None:
            ctx.count('decl_with_resolver')
        if d.get('capture', 'all') != 'all':
            ctx.count('decl_with_capture_subset')
        if d['nested']:
            ctx.count('decl_with_nested_interception')
    if prog['class_level']:
        ctx.count('class_level_operations')

    def walk(steps):
        for s in steps:
            if s['op'] == 'threads':
                ctx.count('programs_with_threads')
                for b in s['bodies']:
                    walk(b)
            elif s['op'] == 'try':
                walk(s['body'])
    walk(prog['body'])


# ------------------------------------------------------------------------------------------------------
# interpreter

class Outcome(object):
    def __init__(self, kind, value):
        self.kind = kind        # 'ret' | 'exc'
        self.value = value

    def __repr__(self):
        return 'Outcome(%s, %r)' % (self.kind, self.value if self.kind == 'ret' else type(self.value).__name__)


def outcome_teq(a, b):
    if a.kind != b.kind:
        return False
    if a.kind == 'exc':
        return type(a.value) is type(b.value)
    return teq(a.value, b.value)


class Built(object):
    """A program bound to a recorder (or None for the undecorated twin), a world and a journal."""

    def __init__(self, prog, recorder, world, journal=None, faults=None, cls_name=None, extractor_behaviour=None,
                 thread_factory=None):
        self.prog = prog
        self.thread_factory = thread_factory or (lambda target, args, name: threading.Thread(target=target, args=args, name=name))
        self.recorder = recorder
        self.world = world
        self.journal = journal or Journal()
        self.faults = faults or {}
        self.extractor_behaviour = extractor_behaviour or prog.get('extractor')
        self._armed = {}
        self._steps = {}
        self._lock = threading.Lock()
        self.decls = {d['name']: d for d in prog['inputs'] + prog['outputs']}
        self.cls = self._build_class(cls_name or 'GenOp%d' % prog['uid'])
        self.vars = {}
        self.fault_log = []
        self.trace = []
        self._tl = threading.local()
        self._sticky_raise = set()
        self._answered = set()
        self.snapshot = False      # keep harness-side deep copies of returned values (for runs that mutate what they obtain)

    # ---- fault plumbing -------------------------------------------------------------------------
    def arm(self, kind):
        self._armed[self.journal.thread()] = kind

    def consume(self, kind):
        t = self.journal.thread()
        if self._armed.get(t) == kind:
            del self._armed[t]
            self.fault_log.append((t, kind))
            return True
        return False

    def _next_step(self):
        t = self.journal.thread()
        with self._lock:
            k = self._steps.get(t, 0)
            self._steps[t] = k + 1
        return (t, k)

    # ---- class construction -------------------------------------------------------------------
    def _deco_input(self, d):
        rec = self.recorder
        if rec is None:
            return lambda f: f
        from playback.tape_recorder import CapturedArg
        kw = {}
        if d.get('resolver') is not None:
            kw['alias_params_resolver'] = self._make_resolver(d)
        if d.get('handler'):
            WrapIn, _ = make_handlers()
            kw['data_handler'] = WrapIn(self, d)
            if d['handler'] == 'wrap_falsy':
                kw['data_handler'] = _falsy(WrapIn)(self, d)
        if d.get('capture', 'all') != 'all':
            kw['capture_args'] = self._capture_arg_list(d)
        if d.get('fallback') is not None:
            fb = d['fallback']
            if fb == 'fn' or (isinstance(fb, tuple) and fb[0] == 'fn'):
                lst = list(fb[1]) if isinstance(fb, tuple) else []
                kw['fallback_aliases'] = lambda *a, **k: list(lst)
            elif isinstance(fb, tuple) and fb[0] == 'as':
                kw['fallback_aliases'] = as_collection(fb[1], list(fb[2]))      # the aliases in some other iterable than a list
            else:
                kw['fallback_aliases'] = list(fb)
        if d.get('run_original'):
            kw['run_intercepted_when_missing'] = True
        sub = d.get('substitute', ('none',))
        if sub[0] == 'lit':
            kw['value_when_missing'] = sub[1]
        elif sub[0] == 'fn':
            journal = self.journal
            name = d['name']

            def substitute_fn(*a, **k):
                journal.add({'ev': 'substitute_fn', 'decl': name, 'args': a, 'kwargs': k})
                return ('SUBST-FN', name)
            kw['value_when_missing'] = substitute_fn
        f = rec.static_intercept_input if d['kind'] == 'static' else rec.intercept_input
        return f(d['alias'], **kw)

    @staticmethod
    def _capture_arg_list(d):
        """capture_args as handed to the decorator: None = all, [] = none, else CapturedArg(position in the full argument
        list as the function receives it (instance included), parameter name)."""
        from playback.tape_recorder import CapturedArg
        cap = d.get('capture', 'all')
        if cap == 'all':
            return None
        if cap == 'none':
            return []
        off = 0 if d['kind'] == 'static' else 1
        return [CapturedArg(i + off, 'p%d' % i) for i in cap]

    def _deco_output(self, d):
        rec = self.recorder
        if rec is None:
            return lambda f: f
        kw = {}
        if d.get('handler'):
            _, WrapOut = make_handlers()
            kw['data_handler'] = WrapOut(self, d)
            if d['handler'] == 'wrap_falsy':
                kw['data_handler'] = _falsy(WrapOut)(self, d)
        if not d.get('fail_on_no_result', True):
            kw['fail_on_no_recorded_result'] = False
            kw['default_result_when_not_recorded'] = d.get('default')
        f = rec.static_intercept_output if d['kind'] == 'static' else rec.intercept_output
        return f(d['alias'], **kw)

    def _make_resolver(self, d):
        built = self
        idx = d['resolver']
        static = d['kind'] == 'static'

        def resolver(*args, **kwargs):
            if built.consume('resolver_raises'):
                raise RuntimeError('injected: alias resolver fails')
            a = args if static else args[1:]
            v = a[idx] if idx < len(a) else kwargs.get('p%d' % idx)
            return {'p': canon(v)[:40]}
        return resolver

    def resolved_alias(self, d, args, kwargs):
        if d.get('resolver') is None:
            return d['alias']
        idx = d['resolver']
        v = args[idx] if idx < len(args) else kwargs.get('p%d' % idx)
        return d['alias'].format(p=canon(v)[:40])

    def captured(self, d, args, kwargs):
        """Reference notion of the captured argument values of a call: {param name -> value}."""
        named = {}
        for i, a in enumerate(args):
            named['p%d' % i] = a
        named.update(kwargs)
        cap = d.get('capture', 'all')
        if cap == 'all':
            return named
        if cap == 'none':
            return {}
        return {'p%d' % i: named['p%d' % i] for i in cap if 'p%d' % i in named}

    def key_identity(self, d, args, kwargs):
        """Reference identity of an input call for lookup purposes: resolved alias + captured values, where a captured
        parameter passed positionally and the same parameter passed by keyword are different identities (documented)."""
        cap = d.get('capture', 'all')
        if cap == 'all':
            pos, kw = list(args), dict(kwargs)
        elif cap == 'none':
            pos, kw = [], {}
        else:
            pos, kw = [], {}
            for i in cap:
                if 'p%d' % i in kwargs:
                    kw['p%d' % i] = kwargs['p%d' % i]
                elif i < len(args):
                    pos.append(args[i])
        return (self.resolved_alias(d, args, kwargs), canon(pos), canon(kw))

    def _make_body(self, d):
        built = self
        static = d['kind'] == 'static'

        def body(*args, **kwargs):
            a = args if static else args[1:]
            j = built.journal
            stack = getattr(built._tl, 'stack', None) or [None]
            ev = j.add({'ev': 'body', 'decl': d['name'], 'args': a, 'kwargs': dict(kwargs),
                        'call_n': stack[-1]['n'] if stack[-1] is not None else None,
                        # what service code sees when it asks for "the exception currently being handled" (error reports, bare raise)
                        'ambient': type(_sys.exc_info()[1]).__name__ if _sys.exc_info()[1] is not None else None})
            if built.consume('body_keep_context'):
                # the wrapped function schedules follow-up work: it keeps a copy of the current execution context (as call_soon /
                # create_task / to_thread do) in which that work will run later
                import contextvars
                built.kept_context = contextvars.copy_context()
            if built.consume('body_discard') and built.recorder is not None:
                built.recorder.discard_recording()
            if built.consume('body_force') and built.recorder is not None:
                built.recorder.force_sample_recording()
            # an injected failure of an input is sticky for that call identity: inputs are pure functions of (alias, captured
            # arguments), so the same call must fail again later in the run
            ident = (d['name'], canon(built.captured(d, a, kwargs))) if d['io'] == 'in' else None
            if ident is not None and ident in built._answered and built._armed.get(j.thread()) in ('body_raise_user', 'body_raise_unencodable', 'value_unencodable'):
                # ... and for the same reason an input that already answered this very call cannot start failing later in the run
                del built._armed[j.thread()]
                built.fault_log.append((j.thread(), 'fault_skipped_input_already_answered'))
            if built.consume('body_raise_user') or (ident is not None and ident in built._sticky_raise):
                if ident is not None:
                    built._sticky_raise.add(ident)
                ex = UserError('injected in body of ' + d['name'])
                ev['raised'] = ex
                raise ex
            if built.consume('body_raise_unencodable') or (ident is not None and ('unenc', ident) in built._sticky_raise):
                # an ordinary service exception that carries a live resource the serializer cannot handle (sticky like the above)
                if ident is not None:
                    built._sticky_raise.add(('unenc', ident))
                ex = UserError('injected in body of ' + d['name'])
                ex.resource = Unencodable()
                ev['raised'] = ex
                raise ex
            if built.consume('body_raise_interrupt'):
                ex = InterruptLike('injected in body of ' + d['name'])
                ev['raised'] = ex
                raise ex
            for s in d['nested']:
                try:
                    built._exec_step(s, nested=True)
                except Exception:
                    pass
            if d['io'] == 'in':
                kind, v = built.world.outcome('in', d['name'], built.resolved_alias(d, a, kwargs), built.captured(d, a, kwargs))
                if d.get('consumes_args'):
                    # an input that consumes its argument (pops from the queue it is handed, fills the buffer it is given ...):
                    # the call is identified by the arguments AS PASSED
                    for x in list(a) + list(kwargs.values()):
                        if isinstance(x, list):
                            if x:
                                x.pop(0)
                            else:
                                x.append('filled-by-the-input')
                        elif isinstance(x, dict):
                            x['filled-by-the-input'] = True
            else:
                kind, v = built.world.outcome('out', d['name'], d['alias'], {'args': list(a), 'kwargs': kwargs})
            if built.consume('value_unencodable') or (ident is not None and ('unenc_value', ident) in built._sticky_raise):
                kind, v = 'value', {'bad': Unencodable()}
                if ident is not None:
                    built._sticky_raise.add(('unenc_value', ident))      # sticky: the same call answers the same way again
            elif ident is not None and kind != 'raise':
                built._answered.add(ident)
            if kind == 'raise':
                ex = v('world raises for ' + d['name'])
                ev['raised'] = ex
                raise ex
            ev['returned'] = v
            if built.snapshot:
                from vlib.values import fresh
                ev['returned_snap'] = fresh(v)
            return v
        body.__name__ = d['name']
        return body

    def _build_class(self, name):
        prog, rec = self.prog, self.recorder
        ns = {}
        for d in prog['inputs']:
            f = self._make_body(d)
            deco = self._deco_input(d)
            if d['kind'] == 'static':
                ns[d['name']] = staticmethod(deco(f))
            elif d['kind'] == 'property_outer':
                ns[d['name']] = property(deco(f))
            elif d['kind'] == 'property_inner':
                ns[d['name']] = deco(property(f)) if rec is not None else property(f)
            elif d['kind'] == 'property_inner_sub':
                ns[d['name']] = deco(DescriptorProperty(f)) if rec is not None else DescriptorProperty(f)
            else:
                ns[d['name']] = deco(f)
        for d in prog['outputs']:
            f = self._make_body(d)
            deco = self._deco_output(d)
            ns[d['name']] = staticmethod(deco(f)) if d['kind'] == 'static' else deco(f)
        built = self

        def execute(target, tag, **op_kwargs):
            return built._run_body(target)

        def extractor(target, tag, **op_kwargs):
            return built._extract(target, tag)

        if rec is None:
            ns['execute'] = classmethod(execute) if prog['class_level'] else execute
        else:
            ext = extractor if self.extractor_behaviour else None
            if prog['class_level']:
                ns['execute'] = classmethod(rec.class_operation(metadata_extractor=ext)(execute))
            else:
                ns['execute'] = rec.operation(metadata_extractor=ext)(execute)
        if prog.get('unprintable_self'):
            from vlib.values import owner_only_repr
            ns['__repr__'] = ns['__str__'] = owner_only_repr       # the service object itself cannot be printed by the framework
        bases = (object,)
        if rec is not None and prog.get('base_params') is not None:
            # the operation class extends a base class that has recording parameters of its own (registered first, as imports do)
            from playback.tape_recorder import RecordingParameters
            bp = prog['base_params']
            base = genclasses.register(type(str(name) + 'Base', (object,), {}))
            rec.recording_params(RecordingParameters(sampling_rate=bp.get('rate', 1.0), ignore_enforced_sampling=bp.get('ignore_forced', False),
                                                     skipped=bp.get('skipped', False), copy_data_on_intercepion=bp.get('copy', False)))(base)
            bases = (base,)
        cls = genclasses.register(type(str(name), bases, ns))
        if rec is not None and prog.get('params'):
            from playback.tape_recorder import RecordingParameters
            p = prog['params']
            rp = RecordingParameters(sampling_rate=p.get('rate', 1.0), ignore_enforced_sampling=p.get('ignore_forced', False),
                                     skipped=p.get('skipped', False), copy_data_on_intercepion=p.get('copy', False) and not p.get('copy_set_later'))
            if p.get('with_keyword'):
                # the settings object AND the same rate once more as a keyword (a call site that grew over time): whichever way the two are
                # combined, the class copies on interception and is sampled at that rate
                rec.recording_params(rp, sampling_rate=p.get('rate', 1.0))(cls)
            else:
                rec.recording_params(rp)(cls)
            if p.get('copy') and p.get('copy_set_later'):
                # one settings object registered for the class, the flag is switched on later through its documented attribute
                rp.copy_data_on_intercepion = True
        return cls

    def _extract(self, target, tag):
        b = self.extractor_behaviour
        self.journal.add({'ev': 'extractor', 'behaviour': b})
        if b == 'ok':
            return {'u_tag': tag, 'u_n': 3}
        if b == 'ok_live_mapping':
            # the extractor hands back a mapping the SERVICE owns and goes on using (e.g. its statistics), not a fresh dict
            self.live_stats = getattr(self, 'live_stats', None) or {}
            self.live_stats.update({'u_tag': tag, 'u_n': 3})
            return self.live_stats
        if b == 'ok_shares_with_data':
            # the extractor returns a list the operation also recorded as a datum: ONE object, stored under the data and the metadata
            rows = getattr(self, 'shared_rows', None) or ['row', 1, 'of the run']
            return {'u_tag': tag, 'u_n': 3, 'u_rows': rows}
        if b == 'ok_calls_output':
            # the extractor (user code that runs after the operation has ended) uses an intercepted output itself, e.g. a metrics sink
            outs = self.prog['outputs']
            if outs:
                d = outs[0]
                try:
                    self._call(d, ['from-the-extractor'] * d['nparams'], {}, nested=True)
                except Exception:
                    pass
            return {'u_tag': tag, 'u_n': 3}
        if b == 'raises':
            raise UserError('injected: metadata extractor fails')
        if b == 'ok_then_unencodable':
            # several entries; one that is not the first cannot be encoded (it holds a live resource)
            from collections import OrderedDict
            return OrderedDict([('u_tag', tag), ('u_n', 3), ('u_conn', Unencodable()), ('u_last', 'x')])
        if b == 'discards':
            # an extractor that decides, after the fact, that this run must not be kept
            if self.recorder is not None:
                self.recorder.discard_recording()
            return {'u_tag': tag, 'u_n': 3}
        if b == 'interrupts':
            raise InterruptLike('injected: the process is interrupted while the metadata extractor runs')
        if b == 'junk_none':
            return None
        if b == 'junk_int':
            return 5
        if b == 'junk_str':
            return 'xy'
        if b == 'junk_pairs':
            return [('u_a', 1), 5]
        if b == 'junk_badkeys':
            return {'u_a': 1, 'u_bad': Unencodable()}
        return {}

    # ---- running ------------------------------------------------------------------------------------
    def rearm(self, faults=None, journal=None, extractor_behaviour=None):
        """Prepare another run of the SAME class (a service invokes one class many times) with other faults."""
        self.faults = faults or {}
        self.journal = journal or Journal()
        self.fault_log = []
        self.trace = []
        self._sticky_raise = set()
        self._answered = set()
        if extractor_behaviour is not None:
            self.extractor_behaviour = extractor_behaviour
        return self

    def run(self, tag='t'):
        """Calls the (decorated) operation at the client boundary, journals and returns its outcome."""
        self.journal.set_thread('main')
        self._steps = {}
        self._armed = {}
        self.vars = {}
        self.inst = self.cls()
        target = self.cls if self.prog['class_level'] else self.inst
        self.journal.add({'ev': 'op_call'})
        try:
            r = target.execute(tag, **self.prog.get('op_kwargs', {}))
        except BaseException as ex:  # noqa - the harness must see interrupt-style terminations too
            self.journal.add({'ev': 'op_exc', 'exc': ex})
            return Outcome('exc', ex)
        self.journal.add({'ev': 'op_ret', 'value': r})
        return Outcome('ret', r)

    def _run_body(self, target):
        ev = self.journal.add({'ev': 'op_body'})
        if self.extractor_behaviour == 'ok_shares_with_data' and self.recorder is not None:
            # the operation records a list as a datum that its metadata extractor will hand back later: ONE object in data and metadata
            self.shared_rows = ['row', 1, 'of the run']
            self.recorder.record_data('shared.rows', self.shared_rows)
        try:
            r = self._exec_steps(self.prog['body'])
        except BaseException as ex:  # noqa
            ev['raised'] = ex
            ev['t_end'] = _time.time()
            raise
        ev['returned'] = r
        ev['t_end'] = _time.time()
        return r

    def _exec_steps(self, steps):
        for s in steps:
            r = self._exec_step(s)
            if isinstance(r, _Return):
                return r.value
        # transcript: everything obtained so far, in a deterministic order
        return tuple((k, self.vars[k]) for k in sorted(self.vars))

    def _eval(self, e):
        if 'var' in e:
            return self.vars.get(e['var'])
        if e.get('copy_per_call'):
            from vlib.values import fresh
            return fresh(e['lit'])
        return e['lit']

    def _exec_step(self, s, nested=False):
        # steps nested inside an intercepted body do not consume positions: bodies do not run during replay, and fault
        # positions must mean the same step in the live run, the twin and the replay
        pos = self._next_step() if not nested else None
        fault = None if nested else self.faults.get(pos)
        if not nested:
            self.trace.append((pos, s['op'], s.get('decl')))
        rec = self.recorder
        if fault == 'raise_user':
            self.fault_log.append((pos, fault))
            raise UserError('injected at step %r' % (pos,))
        if fault == 'raise_user_unencodable':
            # the operation fails with an ordinary service exception that carries a live resource (connection, lock) the serializer refuses
            self.fault_log.append((pos, fault))
            ex = UserError('injected at step %r' % (pos,))
            ex.resource = Unencodable()
            raise ex
        if fault == 'raise_user_unencodable_noargs':
            # ... and that was raised without any argument (raise PoolExhausted())
            self.fault_log.append((pos, fault))
            ex = UserError()
            ex.resource = Unencodable()
            raise ex
        if fault == 'raise_framework_error':
            # an exception of the framework's own family escapes from the operation (a lookup of another recording inside it found nothing)
            from playback.exceptions import NoSuchRecording
            self.fault_log.append((pos, fault))
            raise NoSuchRecording('reference-recording-that-does-not-exist')
        if fault == 'raise_interrupt':
            self.fault_log.append((pos, fault))
            raise InterruptLike('injected at step %r' % (pos,))
        if fault == 'discard':
            self.fault_log.append((pos, fault))
            if rec is not None:
                rec.discard_recording()
        if fault == 'force':
            self.fault_log.append((pos, fault))
            if rec is not None:
                rec.force_sample_recording()
        if fault == 'disable':
            # a kill switch: recording is switched off while the operation is in flight
            self.fault_log.append((pos, fault))
            if rec is not None:
                rec.disable_recording()
                self.journal.add({'ev': 'recording_disabled'})
        if fault == 'reenable':
            # a configuration sync that becomes due mid-request switches recording ON again although it already is on (idempotent)
            self.fault_log.append((pos, fault))
            if rec is not None:
                rec.enable_recording()
        op = s['op']
        if op in ('in', 'out'):
            d = self.decls[s['decl']]
            args = [self._eval(a) for a in s['args']]
            kwargs = {k: self._eval(v) for k, v in s['kwargs'].items()}
            if fault == 'badkey' and not d['kind'].startswith('property'):
                cap = d.get('capture', 'all')
                if args:
                    args[0] = Unencodable()
                    key_fails = d['io'] == 'in' and (cap == 'all' or (cap != 'none' and 0 in cap))
                else:
                    kwargs['extra'] = Unencodable()
                    key_fails = d['io'] == 'in' and cap == 'all'
                # 'badkey_key': the unencodable argument is part of an input's key, so the key cannot be built
                self.fault_log.append((pos, 'badkey_key' if key_fails else 'badkey'))
            elif fault in ('handler_raises', 'resolver_raises', 'body_discard', 'body_force', 'body_raise_user', 'body_keep_context',
                           'body_raise_interrupt', 'value_unencodable', 'body_raise_unencodable'):
                self.arm(fault)
            try:
                v = self._call(d, args, kwargs, nested)
            finally:
                self._armed.pop(self.journal.thread(), None)
            if 'var' in s:
                self.vars[s['var']] = v
            return v
        if op == 'threads':
            ths = []
            for i, b in enumerate(s['bodies']):
                th = self.thread_factory(self._thread_main, ('w%d' % i, b), 'w%d' % i)
                ths.append(th)
            for th in ths:
                th.start()
            for th in ths:
                th.join()
            return None
        if op == 'try':
            try:
                for x in s['body']:
                    self._exec_step(x)
            except Exception as ex:
                self.journal.add({'ev': 'caught', 'exc': ex})
                if s.get('mutate_caught'):
                    # the service annotates the exception it caught (retry bookkeeping and the like)
                    from vlib.values import mutate_deep
                    mutate_deep(ex)
            return None
        if op == 'return':
            return _Return(self._eval(s['expr']))
        if op == 'raise':
            raise (UserError('explicit raise') if s['kind'] == 'user' else InterruptLike('explicit interrupt'))
        if op == 'discard':
            if rec is not None:
                rec.discard_recording()
            return None
        if op == 'force':
            if rec is not None:
                rec.force_sample_recording()
            return None
        if op == 'record_data':
            if rec is not None:
                v = self._eval(s['value'])
                rec.record_data(s['key'], v)
                got = rec.play_data(s['key'])
                self.journal.add({'ev': 'play_data', 'key': s['key'], 'recorded': v, 'played': got})
            return None
        if op == 'py':
            # harness-supplied service code (e.g. "replay a stored recording from inside this operation")
            s['fn'](self)
            return None
        if op == 'inner_op':
            # the service calls another decorated operation from inside this one (legal when that class is skipped for recording)
            inner = self.prog.get('_inner_built')
            if inner is None and self.prog.get('inner_prog') is not None:
                # built lazily, once per Built, on this Built's own recorder (so a replay uses the replaying recorder)
                inner = self.__dict__.get('_inner_of_prog')
                if inner is None:
                    inner = self._inner_of_prog = Built(self.prog['inner_prog'], self.recorder, World(7, raise_rate=0.0))
            if inner is not None:
                out = inner.run('inner')
                self.journal.add({'ev': 'inner_op', 'outcome': out.kind})
                if out.kind == 'exc' and not isinstance(out.value, Exception):
                    raise out.value
            return None
        if op == 'sleep':
            _time.sleep(s['s'])
            return None
        if op == 'mutate':
            from vlib.values import mutate_deep
            mutate_deep(self.vars.get(s['var']))
            return None
        raise ValueError(op)

    def _thread_main(self, name, body):
        self.journal.set_thread(name)
        try:
            for s in body:
                self._exec_step(s)
        except BaseException as ex:  # noqa
            self.journal.add({'ev': 'thread_exc', 'exc': ex})

    def _call(self, d, args, kwargs, nested):
        j = self.journal
        if d.get('consumes_args'):
            from vlib.values import fresh
            ev = j.add({'ev': 'call', 'io': d['io'], 'decl': d['name'], 'args': fresh(list(args)), 'kwargs': fresh(dict(kwargs)), 'nested': nested})
        else:
            ev = j.add({'ev': 'call', 'io': d['io'], 'decl': d['name'], 'args': list(args), 'kwargs': dict(kwargs), 'nested': nested})
        if not hasattr(self._tl, 'stack'):
            self._tl.stack = [None]
        self._tl.stack.append(ev)
        try:
            return self._call2(d, args, kwargs, ev)
        finally:
            self._tl.stack.pop()

    def _call2(self, d, args, kwargs, ev):
        try:
            if d['kind'].startswith('property'):
                v = getattr(self.inst, d['name'])
            elif d['kind'] == 'static':
                v = getattr(self.cls, d['name'])(*args, **kwargs)
            else:
                v = getattr(self.inst, d['name'])(*args, **kwargs)
        except BaseException as ex:  # noqa
            ev['exc'] = ex
            # where the exception comes from, as the caller's error reporting would show it: the innermost frame of its traceback
            tb = ex.__traceback__
            while tb is not None and tb.tb_next is not None:
                tb = tb.tb_next
            ev['exc_origin'] = None if tb is None else (tb.tb_frame.f_code.co_filename.rsplit('/', 1)[-1], tb.tb_frame.f_code.co_name)
            try:
                ev['exc_state'] = (repr(getattr(ex, 'args', None)), repr(sorted((k, repr(v)) for k, v in vars(ex).items())))
            except Exception:
                ev['exc_state'] = None
            raise
        ev['ret'] = v
        ev['has_ret'] = True
        if self.snapshot:
            from vlib.values import fresh
            ev['ret_snap'] = fresh(v)
        return v


class _Return(object):
    def __init__(self, value):
        self.value = value


def call_outcome(ev):
    if 'exc' in ev:
        return Outcome('exc', ev['exc'])
    return Outcome('ret', ev.get('ret'))


def playback_function_for(built):
    """The playback function handed to TapeRecorder.play: re-runs the operation of ``built``."""
    def playback_function(recording):
        built.last_outcome = built.run('replay')
        if built.last_outcome.kind == 'exc':
            raise built.last_outcome.value
        return built.last_outcome.value
    return playback_function


# ------------------------------------------------------------------------------------------------------
# behavioural edit operators (P -> P')

import copy as _copy


def _clone(x):
    # program structure (dicts / lists) is copied; literal values and tuples are shared by reference: programs never
    # mutate literals, and copying a set changes its iteration order (which the framework's keys depend on, see C06)
    if isinstance(x, dict):
        if 'lit' in x and len(x) == 1:
            return {'lit': x['lit']}
        return {k: _clone(v) for k, v in x.items()}
    if isinstance(x, list):
        return [_clone(v) for v in x]
    return x


def clone(prog):
    p = _clone(prog)
    p['uid'] = next(_uid)
    return p


def _top_steps(prog, io):
    return [i for i, s in enumerate(prog['body']) if s['op'] == io]


def edit_program(prog, rng, kinds=None):
    """Returns (P', list of edits applied). Output-side and result-side edits only."""
    p = clone(prog)
    kinds = kinds or ['chg_arg', 'drop', 'add', 'swap', 'dup', 'chg_result', 'raise']
    applied = []
    for _ in range(rng.choice([1, 1, 2])):
        k = rng.choice(kinds)
        outs = _top_steps(p, 'out')
        if k == 'chg_arg' and outs:
            i = rng.choice(outs)
            s = p['body'][i]
            if s['args']:
                s['args'][rng.randrange(len(s['args']))] = {'lit': ('EDITED', rng.randrange(1000))}
            elif s['kwargs']:
                s['kwargs'][sorted(s['kwargs'])[0]] = {'lit': ('EDITED', rng.randrange(1000))}
            else:
                s['kwargs']['extra'] = {'lit': 'EDITED'}
            applied.append((k, i))
        elif k == 'drop' and outs:
            i = rng.choice(outs)
            del p['body'][i]
            applied.append((k, i))
        elif k == 'add' and p['outputs']:
            d = rng.choice(p['outputs'])
            if _alias_used_in_threads(p, d['name']):
                continue
            c = _gen_call(rng, p, d, [])
            pos = rng.randrange(len(p['body']) + 1)
            if p['body'] and p['body'][-1]['op'] in ('return', 'raise'):
                pos = min(pos, len(p['body']) - 1)
            p['body'].insert(pos, c)
            applied.append((k, pos))
        elif k == 'swap' and len(outs) >= 2:
            i, j = rng.sample(outs, 2)
            p['body'][i], p['body'][j] = p['body'][j], p['body'][i]
            applied.append((k, i, j))
        elif k == 'dup' and outs:
            i = rng.choice(outs)
            c = _clone(p['body'][i])
            c['var'] = 'v%d' % next(_uid)
            p['body'].insert(i + 1, c)
            applied.append((k, i))
        elif k == 'chg_result':
            if p['body'] and p['body'][-1]['op'] in ('return', 'raise'):
                p['body'].pop()
            p['body'].append({'op': 'return', 'expr': {'lit': ('EDITED-RESULT', rng.randrange(1000))}})
            applied.append((k,))
        elif k == 'raise':
            if p['body'] and p['body'][-1]['op'] in ('return', 'raise'):
                p['body'].pop()
            p['body'].append({'op': 'raise', 'kind': 'user'})
            applied.append((k,))
    return p, applied


def _alias_used_in_threads(prog, name):
    for s in prog['body']:
        if s['op'] == 'threads':
            for b in s['bodies']:
                for x in b:
                    if x.get('decl') == name:
                        return True
    return False


def expected_outputs(built, journal, include_operation=True):
    """The output map the property promises, computed from the client-side journal alone:
    {key(alias, k-th call of that alias): {'args': positional args without the instance, 'kwargs': kwargs}} plus the
    operation entry.  Returns (map, operation_entry) where operation_entry is ('ret', value) | ('exc', exc) | None."""
    from playback.tape_recorder import TapeRecorder
    keyf = TapeRecorder._output_interception_key
    counters = {}
    out = {}
    for e in journal.events:
        if e['ev'] == 'call' and e['io'] == 'out' and not e['nested']:
            d = built.decls[e['decl']]
            n = counters.get(d['alias'], 0) + 1
            counters[d['alias']] = n
            if d.get('handler'):
                v = {'hargs': list(e['args']), 'hkw': dict(e['kwargs']), 'by': 'out-handler'}
            else:
                v = {'args': list(e['args']), 'kwargs': dict(e['kwargs'])}
            out[keyf(d['alias'], n) + '.output'] = v
    op = None
    for e in journal.events:
        if e['ev'] == 'op_body':
            if 'returned' in e:
                op = ('ret', e['returned'])
            elif 'raised' in e and isinstance(e['raised'], Exception):
                op = ('exc', e['raised'])
    return out, op
