"""Importable home of classes generated at run time, so that jsonpickle can encode/decode references to them
(the recorder stores the operation class in the recording metadata as py/type vlib.genclasses.<name>)."""
import sys

_mod = sys.modules[__name__]


def register(cls):
    cls.__module__ = __name__
    setattr(_mod, cls.__name__, cls)
    return cls
