"""Driver for equalizer cases: each case in a fresh subprocess (never multiprocessing.Pool), several in parallel."""
import json
import os
import subprocess
import sys
from concurrent.futures import ThreadPoolExecutor

from vlib import env

EQCASE = os.path.join(env.VERIF, 'vlib', 'eqcase.py')

NONFATAL = ['equal', 'different', 'player_raises', 'extractor_raises', 'comparator_raises', 'bare_status', 'spawn_child', 'dict_diff']
FATAL = ['exit', 'hang', 'late', 'hang_sigterm_ignored']
IDLE_DEATH = 'die_idle'     # answers normally, then the idle worker is killed; the verdict of the NEXT recording is unspecified
EXPECTED = {'equal': 'Equal', 'different': 'Different', 'player_raises': 'EqualizerFailure', 'extractor_raises': 'EqualizerFailure',
            'comparator_raises': 'EqualizerFailure', 'bare_status': 'Equal', 'spawn_child': 'Equal', 'exit': 'EqualizerFailure', 'hang': 'EqualizerFailure',
            'late': 'EqualizerFailure', 'hang_sigterm_ignored': 'EqualizerFailure', 'die_idle': 'Equal', 'dict_diff': 'Different',
            'start_async_cassette': 'Equal', 'unpicklable_answer': 'EqualizerFailure', 'error_result': 'Different', 'leaves_timer': 'Equal', 'exit0': 'EqualizerFailure', 'die_holding_event_lock': 'Equal'}


def expected_duration(case):
    t = case.get('timeout', 1.0)
    if case.get('tighten_after'):
        t = case['tighten_after']['timeout']
    n_slow = sum(1 for b in case['behaviours'] if b in ('hang', 'late', 'hang_sigterm_ignored'))
    n_exit = sum(1 for b in case['behaviours'] if b in ('exit', 'die_idle', 'exit0', 'die_holding_event_lock')) + 2 * sum(1 for b in case['behaviours'] if b == 'leaves_timer')
    if case.get('slow_start'):
        t += case['slow_start'] * 2
    return 3.0 + len(case['behaviours']) * case.get('slow_start', 0) + n_slow * (t + 2.5) + n_exit * 1.5 + 0.2 * len(case['behaviours'])


def run_one(case):
    """-> (result dict | None, status) status in ok | watchdog | crashed"""
    budget = expected_duration(case) * 6 + 40
    # own session: on a watchdog the whole group (the case and the workers it forked) is removed, nothing is left sleeping
    p = subprocess.Popen([sys.executable, EQCASE, json.dumps(case)], stdout=subprocess.PIPE, stderr=subprocess.PIPE, text=True,
                         env=dict(os.environ, VERIF_REPO=env.REPO), start_new_session=True)
    try:
        so, se = p.communicate(timeout=budget)
    except subprocess.TimeoutExpired:
        import signal
        try:
            os.killpg(p.pid, signal.SIGKILL)
        except OSError:
            pass
        p.kill()
        try:
            so, se = p.communicate(timeout=10)
        except Exception:
            so, se = '', ''
        return {'stderr': (se or '')[-2000:]}, 'watchdog'
    lines = [l for l in so.splitlines() if l.startswith('{')]
    if p.returncode != 0 or not lines:
        return {'stderr': se[-2000:], 'returncode': p.returncode}, 'crashed'
    return json.loads(lines[-1]), 'ok'


def run_cases(cases, parallel=8):
    with ThreadPoolExecutor(max_workers=parallel) as ex:
        return list(ex.map(run_one, cases))
