"""Runs the repository's own test suite under the monitors of vlib.pytest_monitors (auxiliary workload, DESIGN 2.7)."""
import json
import os
import subprocess
import sys
import tempfile

from vlib import env


def run_under_monitors(timeout=900):
    fd, out = tempfile.mkstemp(prefix='vp-mon-', suffix='.json')
    os.close(fd)
    try:
        e = dict(os.environ, VP_MONITOR_OUT=out, PYTHONPATH=env.REPO + os.pathsep + env.VERIF)
        p = subprocess.run([sys.executable, '-m', 'pytest', '-q', '-p', 'no:cacheprovider', '-p', 'vlib.pytest_monitors', '--timeout=900',
                            '--continue-on-collection-errors', 'tests'], cwd=env.REPO, env=e, capture_output=True, text=True, timeout=timeout)
        try:
            with open(out) as f:
                res = json.load(f)
        except Exception:
            return None, p.stdout[-500:] + p.stderr[-500:]
        return res, p.stdout.strip().splitlines()[-1] if p.stdout.strip() else ''
    finally:
        try:
            os.unlink(out)
        except OSError:
            pass
