"""Scripted verdicts of vlib/eqspawn.py (kept apart: importing eqspawn itself imports the library under test)."""
EXPECTED = {'equal': 'Equal', 'different': 'Different', 'player_raises': 'EqualizerFailure', 'extractor_raises': 'EqualizerFailure',
            'comparator_raises': 'EqualizerFailure', 'bare_status': 'Equal'}
