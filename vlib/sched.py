"""Deterministic thread scheduler on sys.monitoring LINE events - the race detector of this design.

Registered threads pass a baton: at every LINE event in a *target file* and at every operation on a scheduler-aware
Lock / Event / Thread, the running thread asks the scheduler who runs next and blocks on its private raw lock if it
is not itself.  Exactly one registered thread runs at a time, so a *schedule* (list of choices) replays exactly.

Exploration: stateless DFS with a preemption bound (CHESS-style: switching away from a thread that could continue
costs one preemption; switches at blocking operations are free), then seeded random schedules.  Timed waits
(Event.wait(timeout), Thread.join(timeout)) are choice points "timer fires"; at most ``max_fires`` unforced firings.
"""
import _thread
import hashlib
import sys
import threading
import zlib

HUGE_TIMEOUT = 1000   # timeouts at least this long are treated as 'never expires'
TOOL_ID = 3  # a free tool id (0 debugger, 1 coverage, 2 profiler, 5 optimizer)


_ACTIVE = None
_TARGETS_SEEN = set()
_TARGETS_SEEN_G = set()
_ALL_TARGETS = set()
_CODE_IDS = {}


def _dispatch(code, line):
    if code.co_filename not in _TARGETS_SEEN:
        return sys.monitoring.DISABLE
    s = _ACTIVE
    if s is None or code.co_filename not in s.targets:
        return None
    return s._on_line(code, line)


class SchedAbort(BaseException):
    """Raised inside controlled threads to unwind an execution that deadlocked or exceeded its budget."""


class _T(object):
    __slots__ = ('id', 'name', 'baton', 'state', 'wake', 'blocked_on', 'ident', 'real')

    def __init__(self, tid, name):
        self.id, self.name = tid, name
        self.baton = _thread.allocate_lock()
        self.baton.acquire()
        self.state = 'runnable'     # runnable | blocked | timed | done
        self.wake = None
        self.blocked_on = None
        self.ident = None
        self.real = None


class PrefixStrategy(object):
    """Follows a list of choice indices, afterwards: keep running the current thread, else lowest option."""

    def __init__(self, prefix=()):
        self.prefix = list(prefix)

    def choose(self, i, opts, cur_idx):
        if i < len(self.prefix) and self.prefix[i] < len(opts):
            return self.prefix[i]
        return cur_idx if cur_idx is not None else 0


class RandomStrategy(object):
    def __init__(self, rng, p_switch=0.15):
        self.rng, self.p = rng, p_switch

    def choose(self, i, opts, cur_idx):
        if cur_idx is not None and self.rng.random() >= self.p:
            return cur_idx
        return self.rng.randrange(len(opts))


class PCTStrategy(object):
    """Probabilistic concurrency testing (Burckhardt et al.): random thread priorities, the highest-priority enabled thread
    runs; at d-1 random change points the running thread's priority drops below all others.  Finds a bug of depth d with
    probability >= 1/(n * k^(d-1))."""

    def __init__(self, rng, depth=2, expected_points=300):
        self.rng = rng
        self.prio = {}
        self.low = 0
        self.change_points = set(rng.randrange(expected_points) for _ in range(max(0, depth - 1)))

    def _p(self, opt):
        key = (opt[0], opt[1].id)
        if key not in self.prio:
            self.prio[key] = self.rng.random() + (0.0 if opt[0] == 'run' else -0.5)   # timer firings are less eager
        return self.prio[key]

    def choose(self, i, opts, cur_idx):
        if i in self.change_points and cur_idx is not None:
            self.low -= 1
            self.prio[(opts[cur_idx][0], opts[cur_idx][1].id)] = self.low
        best = max(range(len(opts)), key=lambda j: self._p(opts[j]))
        return best


class Scheduler(object):
    def __init__(self, targets, strategy, max_fires=2, step_budget=20000, granularity='line'):
        self.granularity = granularity      # 'line' | 'instruction' (every bytecode of the target files is a preemption point)
        self.targets = set(targets)
        self.strategy = strategy
        self.max_fires = max_fires
        self.fires = 0
        self.step_budget = step_budget
        self.threads = []
        self.by_ident = {}
        self.current = None
        self.points = []        # (number of options, chosen index, index of "continue current" or None, costs per option)
        self.trace = hashlib.sha256()
        self.steps = 0
        self.switches = 0
        self.aborting = None    # reason
        self.preemptions = 0
        self.events = []        # optional coarse log for witnesses
        self.monitoring = False

    # ---- thread registry ------------------------------------------------------------------------------
    def _register(self, name):
        t = _T(len(self.threads), name)
        self.threads.append(t)
        return t

    def me(self):
        return self.by_ident.get(_thread.get_ident())

    # ---- monitoring -------------------------------------------------------------------------------------
    def _start_monitoring(self):
        # the tool stays registered for the life of the process: locations of non-target files that were DISABLEd in
        # earlier executions stay disabled, so only target files cost anything
        global _ACTIVE, _TARGETS_SEEN
        mon = sys.monitoring
        if mon.get_tool(TOOL_ID) is None:
            mon.use_tool_id(TOOL_ID, 'vp-sched')
            mon.register_callback(TOOL_ID, mon.events.LINE, _dispatch)
            mon.register_callback(TOOL_ID, mon.events.INSTRUCTION, _dispatch)
        key = set((t, self.granularity) for t in self.targets)
        if not key <= _TARGETS_SEEN_G:
            _TARGETS_SEEN_G.update(key)
            _TARGETS_SEEN |= self.targets
            mon.restart_events()
        _ACTIVE = self
        mon.set_events(TOOL_ID, mon.events.INSTRUCTION if self.granularity == 'instruction' else mon.events.LINE)
        self.monitoring = True

    def _stop_monitoring(self):
        global _ACTIVE
        sys.monitoring.set_events(TOOL_ID, 0)
        _ACTIVE = None
        self.monitoring = False

    def _on_line(self, code, line):
        t = self.by_ident.get(_thread.get_ident())
        if t is None or t is not self.current:
            return None
        if self.aborting:
            raise SchedAbort(self.aborting)
        cid = _CODE_IDS.get(code)
        if cid is None:
            cid = _CODE_IDS[code] = zlib.crc32((code.co_filename.rsplit('/', 1)[-1] + ':' + code.co_name).encode()) & 0xffff
        self.trace.update(b'%d:%d:%d;' % (t.id, cid, line))
        self.steps += 1
        if self.steps > self.step_budget:
            self._abort('step budget exceeded')
        self.yield_point(t)
        return None

    # ---- core -------------------------------------------------------------------------------------------
    def _options(self, cur):
        opts = []
        for t in self.threads:
            if t.state == 'runnable':
                opts.append(('run', t))
            elif t.state == 'timed' and self.fires < self.max_fires:
                opts.append(('fire', t))
        return opts

    def _abort(self, reason):
        self.aborting = reason
        for t in self.threads:
            if t.state != 'done' and t is not self.me():
                try:
                    t.baton.release()
                except RuntimeError:
                    pass
        raise SchedAbort(reason)

    def _transfer(self, cur, target):
        """Hand the baton from cur to target (cur may be done / blocked). Returns when cur is scheduled again."""
        if target is cur:
            return
        self.switches += 1
        self.current = target
        target.baton.release()
        if cur.state != 'done':
            cur.baton.acquire()
            if self.aborting:
                raise SchedAbort(self.aborting)

    def yield_point(self, cur=None, tag=None):
        """cur is runnable and could continue; maybe switch."""
        cur = cur or self.me()
        if cur is None or self.aborting:
            return
        opts = self._options(cur)
        if len(opts) <= 1:
            return
        cur_idx = next(i for i, (k, t) in enumerate(opts) if k == 'run' and t is cur)
        costs = [0 if i == cur_idx else 1 for i in range(len(opts))]
        idx = self.strategy.choose(len(self.points), opts, cur_idx)
        self.points.append((len(opts), idx, cur_idx, costs))
        kind, target = opts[idx]
        if idx != cur_idx:
            self.preemptions += 1
        if kind == 'fire':
            self.fires += 1
            target.state = 'runnable'
            target.wake = False
        self._transfer(cur, target)

    def block(self, cur):
        """cur cannot continue (blocked / timed / done): somebody else must run."""
        opts = self._options(cur)
        forced_fire = False
        if not opts:
            timed = [t for t in self.threads if t.state == 'timed']
            if timed:
                opts = [('fire', timed[0])]       # forced firing: needed for progress, not counted against max_fires
                forced_fire = True
            elif all(t.state == 'done' for t in self.threads):
                return
            else:
                self._abort('deadlock: ' + ', '.join('%s:%s on %s' % (t.name, t.state, t.blocked_on) for t in self.threads if t.state != 'done'))
        if len(opts) == 1:
            idx = 0
        else:
            idx = self.strategy.choose(len(self.points), opts, None)
            self.points.append((len(opts), idx, None, [0] * len(opts)))
        kind, target = opts[idx]
        if kind == 'fire':
            if not forced_fire:
                self.fires += 1
            target.state = 'runnable'
            target.wake = False
        self._transfer(cur, target)

    # ---- running ----------------------------------------------------------------------------------------
    def run(self, fn):
        """Runs fn() in the calling thread as controlled thread 0; returns its result after all threads finished."""
        t0 = self._register('main')
        t0.ident = _thread.get_ident()
        self.by_ident[t0.ident] = t0
        self.current = t0
        self._start_monitoring()
        result = exc = None
        try:
            try:
                result = fn()
            except SchedAbort:
                pass
            except BaseException as ex:  # noqa
                exc = ex
            # let the remaining threads finish
            if not self.aborting:
                t0.state = 'done'
                try:
                    while any(t.state != 'done' for t in self.threads[1:]):
                        t0.state = 'blocked'
                        t0.blocked_on = 'end-of-run'
                        self.block(t0)
                    t0.state = 'done'
                except SchedAbort:
                    pass
        finally:
            self._stop_monitoring()
            if self.aborting:
                for t in self.threads[1:]:
                    try:
                        t.baton.release()
                    except RuntimeError:
                        pass
            for t in self.threads[1:]:
                if t.real is not None:
                    t.real.join(5)
            del self.by_ident[t0.ident]
        if exc is not None:
            raise exc
        return result

    def _thread_done(self, t):
        t.state = 'done'
        # wake joiners
        for o in self.threads:
            if o.state in ('blocked', 'timed') and o.blocked_on is t:
                o.state = 'runnable'
                o.wake = True
        # main waiting for the end of the run
        t0 = self.threads[0]
        if t0.state == 'blocked' and t0.blocked_on == 'end-of-run':
            t0.state = 'runnable'
        if not self.aborting:
            try:
                self.block(t)
            except SchedAbort:
                pass

    def trace_hash(self):
        return self.trace.hexdigest()[:16]

    # ---- primitives -------------------------------------------------------------------------------------
    def Lock(self):
        return SLock(self)

    def Event(self):
        return SEvent(self)

    def Thread(self, target=None, name=None, args=(), kwargs=None, daemon=None):
        return SThread(self, target, name, args, kwargs or {})


class SLock(object):
    def __init__(self, sched):
        self.s = sched
        self.owner = None
        self.on_acquire_attempt = None   # hook(thread, lock) evaluated at every acquisition attempt
        self.on_release = None           # hook(thread, lock) evaluated while the lock is still held

    def acquire(self, blocking=True, timeout=-1):
        s = self.s
        cur = s.me()
        if cur is None:
            raise RuntimeError('SLock used by an uncontrolled thread')
        s.yield_point(cur)
        if self.on_acquire_attempt:
            self.on_acquire_attempt(cur, self)
        while self.owner is not None:
            if not blocking:
                return False
            cur.state = 'blocked'
            cur.blocked_on = self
            s.block(cur)
        self.owner = cur
        return True

    def release(self):
        s = self.s
        if self.on_release:
            self.on_release(self.owner, self)
        self.owner = None
        for t in s.threads:
            if t.state == 'blocked' and t.blocked_on is self:
                t.state = 'runnable'
        s.yield_point()

    def locked(self):
        return self.owner is not None

    __enter__ = acquire

    def __exit__(self, *a):
        self.release()


class SEvent(object):
    def __init__(self, sched):
        self.s = sched
        self.flag = False

    def is_set(self):
        self.s.yield_point()
        return self.flag

    isSet = is_set

    def set(self):
        self.s.yield_point()
        self.flag = True
        for t in self.s.threads:
            if t.state in ('blocked', 'timed') and t.blocked_on is self:
                t.state = 'runnable'
                t.wake = True
        self.s.yield_point()

    def clear(self):
        self.s.yield_point()
        self.flag = False

    def wait(self, timeout=None):
        s = self.s
        cur = s.me()
        s.yield_point(cur)
        if self.flag:
            return True
        cur.state = 'timed' if (timeout is not None and timeout < HUGE_TIMEOUT) else 'blocked'
        cur.blocked_on = self
        cur.wake = None
        s.block(cur)
        return bool(cur.wake) or self.flag


class SThread(object):
    def __init__(self, sched, target, name, args, kwargs):
        self.s = sched
        self.target, self.name, self.args, self.kwargs = target, name or 'thread', args, kwargs
        self.t = None
        self.daemon = True
        self.exc = None

    def setDaemon(self, v):
        self.daemon = v

    def start(self):
        s = self.s
        if self.t is not None:
            raise RuntimeError('threads can only be started once')
        t = self.t = s._register(self.name)
        real = threading.Thread(target=self._main, name='sched-' + self.name)
        real.daemon = True
        t.real = real
        real.start()
        s.yield_point()

    def _main(self):
        s, t = self.s, self.t
        t.ident = _thread.get_ident()
        s.by_ident[t.ident] = t
        t.baton.acquire()
        try:
            if not s.aborting:
                self.target(*self.args, **self.kwargs)
        except SchedAbort:
            pass
        except BaseException as ex:  # noqa
            self.exc = ex
        finally:
            s._thread_done(t)

    def join(self, timeout=None):
        s = self.s
        if self.t is None:
            raise RuntimeError('cannot join thread before it is started')
        cur = s.me()
        s.yield_point(cur)
        if self.t.state == 'done':
            return
        cur.state = 'timed' if (timeout is not None and timeout < HUGE_TIMEOUT) else 'blocked'
        cur.blocked_on = self.t
        s.block(cur)

    def is_alive(self):
        return self.t is not None and self.t.state != 'done'

    isAlive = is_alive


# ------------------------------------------------------------------------------------------------------
# exploration drivers

class RunRecord(object):
    def __init__(self, sched, result, error):
        self.points = sched.points
        self.choices = [p[1] for p in sched.points]
        self.trace = sched.trace_hash()
        self.preemptions = sched.preemptions
        self.aborted = sched.aborting
        self.steps = sched.steps
        self.result, self.error = result, error


def run_once(make, strategy, targets, max_fires=2, step_budget=20000, granularity='line'):
    """make(sched) -> callable executed as thread 0. Returns RunRecord."""
    sched = Scheduler(targets, strategy, max_fires=max_fires, step_budget=step_budget, granularity=granularity)
    fn = make(sched)
    result = error = None
    try:
        result = sched.run(fn)
    except BaseException as ex:  # noqa
        error = ex
    return RunRecord(sched, result, error)


def explore_dfs(make, targets, K, on_run, max_runs=None, max_fires=2, step_budget=20000, shard=None, granularity='line'):
    """Stateless DFS over all schedules with at most K preemptions. on_run(record, prefix) judges each execution.
    shard=(i, n): only subtrees whose first deviating choice hashes to i are explored (root run is done by all)."""
    stack = [([], 0)]
    runs = 0
    complete = True
    while stack:
        if max_runs is not None and runs >= max_runs:
            complete = False
            break
        prefix, used = stack.pop()
        rec = run_once(make, PrefixStrategy(prefix), targets, max_fires=max_fires, step_budget=step_budget, granularity=granularity)
        runs += 1
        on_run(rec, prefix)
        # children: deviate at a later point
        cost = used
        for i in range(len(prefix), len(rec.points)):
            n, chosen, cur_idx, costs = rec.points[i]
            for alt in range(n):
                if alt == chosen:
                    continue
                c = cost + costs[alt]
                if c <= K:
                    child = rec.choices[:i] + [alt]
                    if shard is not None and len(prefix) == 0:
                        if (i * 31 + alt) % shard[1] != shard[0]:
                            continue
                    stack.append((child, c))
            cost += costs[chosen]
    return runs, complete


def strategy_from(desc):
    import random as _r
    desc = list(desc) if desc else []
    if not desc or not isinstance(desc[0], str):
        return PrefixStrategy(desc)
    if desc[0] == 'random':
        return RandomStrategy(_r.Random(desc[1]), desc[2])
    if desc[0] == 'pct':
        return PCTStrategy(_r.Random(desc[1]), desc[2], desc[3])
    return PrefixStrategy(desc)


def explore_random(make, targets, n, rng, on_run, p_switch=0.15, max_fires=2, step_budget=20000, granularity='line'):
    """Half uniform-random switching, half PCT with depth 2-3."""
    for k in range(n):
        seed = rng.randrange(1 << 30)
        if k % 2 == 0:
            desc = ('random', seed, rng.choice([0.05, p_switch, 0.4]))
        else:
            desc = ('pct', seed, rng.choice([2, 2, 3]), rng.choice([60, 200, 500]))
        rec = run_once(make, strategy_from(desc), targets, max_fires=max_fires, step_budget=step_budget, granularity=granularity)
        on_run(rec, desc)
