"""One equalizer case, executed in its own process:  python eqcase.py '<json case>'  -> one JSON line on stdout.

case = {behaviours: [...], dedicated: bool, recycle: int, keep: bool, timeout: float,
        consume: 'full' | ['close', k] | ['raise', k] | ['drop', k]}

Per-recording behaviour is carried inside the recording (the recorded input holds a unique token and a behaviour tag),
so attribution can be checked from the data alone.  The real Equalizer forks its real workers; this process logs
worker pids, the worker each task was handed to, monotonic timestamps of every yielded comparison and takes a
process census from /proc.
"""
import gc
import json
import os
import sys
import time

HERE = os.path.dirname(os.path.dirname(os.path.abspath(__file__)))
sys.path.insert(0, HERE)
from vlib import env  # noqa: E402
env.bootstrap()


class RejectedError(Exception):
    """A service exception with two mandatory constructor arguments (botocore ClientError style): it can be pickled, but the
    receiving process cannot rebuild it from its args."""

    def __init__(self, code, reason):
        super(RejectedError, self).__init__('rejected %s: %s' % (code, reason))
        self.code, self.reason = code, reason


def proc_state(pid):
    try:
        with open('/proc/%d/stat' % pid) as f:
            s = f.read()
        return s.rsplit(')', 1)[1].split()[0]
    except (IOError, OSError):
        return None


def alive(pid):
    st = proc_state(pid)
    return st is not None and st != 'Z'


def main():
    case = json.loads(sys.argv[1])
    import signal as _signal
    if case.get('host') == 'sigchld_ignored':
        # a host process that lets the kernel reap its children (daemons, some web servers): exit statuses are never delivered
        _signal.signal(_signal.SIGCHLD, _signal.SIG_IGN)
    hang_flag = None
    if case.get('consume', 'full') != 'full' and case['consume'][0] == 'sigint':
        import tempfile
        try:
            os.setpgrp()                  # this case and the workers it forks form their own process group (like a terminal job)
        except OSError:
            pass                          # already a session / group leader (the harness starts each case in its own session)
        hang_flag = tempfile.mktemp(prefix='vp-eq-hang-')
        # a check started as a background job of a non-interactive shell inherits SIGINT = ignored: restore the terminal default
        _signal.signal(_signal.SIGINT, _signal.default_int_handler)
    from playback.tape_recorder import TapeRecorder
    from playback.tape_cassettes.in_memory.in_memory_tape_cassette import InMemoryTapeCassette
    from playback.studio.equalizer import Equalizer, EqualityStatus, ComparatorResult, CompareExecutionConfig
    t_calib = time.monotonic()
    time.sleep(0.3)
    calib = time.monotonic() - t_calib

    cassette = InMemoryTapeCassette()
    rec = TapeRecorder(cassette)
    rec.enable_recording()
    current = {}
    timeout = case.get('timeout', 1.0)

    class EqOp(object):
        @rec.operation()
        def execute(self):
            v = self.read()
            b = v['behaviour']
            if rec.in_playback_mode:
                if b == 'player_raises':
                    raise_in_player[0] = True
                if b == 'exit':
                    os._exit(3)
                if b == 'exit0':
                    os._exit(0)           # replayed code ends the process "successfully" (sys.exit() in a CLI-style operation)
                if b == 'die_holding_event_lock':
                    # this worker will be lost (OOM kill) exactly while it holds the lock of the terminate event it polls when idle
                    open(event_lock_flag, 'w').close()
                if b == 'hang':
                    if hang_flag:
                        open(hang_flag, 'w').close()
                    time.sleep(3600)
                if b == 'hang_sigterm_ignored':
                    # replayed code that installed a graceful-shutdown hook: the worker survives a polite termination request
                    import signal
                    signal.signal(signal.SIGTERM, signal.SIG_IGN)
                    time.sleep(3600)
                if b == 'late':
                    time.sleep(timeout + 0.35)
                if b == 'unpicklable_answer':
                    # the replayed operation ends with an exception the consumer process cannot unpickle: the worker is healthy and stays alive
                    raise RejectedError(409, 'duplicate')
                if b == 'leaves_timer':
                    # replayed code schedules a clean-up for later (a non-daemon threading.Timer): the worker cannot exit before it fired
                    import threading
                    threading.Timer(case.get('timer_s', 2.2), lambda: None).start()
                if b == 'spawn_child':
                    # replayed code that hands work to a helper process of its own
                    import multiprocessing
                    child = multiprocessing.Process(target=time.sleep, args=(0.01,))
                    child.start()
                    child.join()
                if b == 'start_async_cassette':
                    # replayed service code that initialises its own recording context: an asynchronous cassette is created and
                    # started inside the worker and never closed (as a request handler's init_recording_mode() would do)
                    from playback.tape_cassettes.asynchronous.async_record_only_tape_cassette import AsyncRecordOnlyTapeCassette
                    leaked_cassettes.append(AsyncRecordOnlyTapeCassette(InMemoryTapeCassette(), flush_interval=0.05))
                    leaked_cassettes[-1].start()
                if b == 'die_idle':
                    # the worker answers this replay normally and is killed a moment later while it sits idle between replays
                    import signal
                    import threading

                    def _kill_later():
                        time.sleep(0.3)
                        os.kill(os.getpid(), signal.SIGKILL)
                    threading.Thread(target=_kill_later, daemon=True).start()
            tok = v['token']
            self.write(tok + ('-CHANGED' if (b in ('different', 'dict_diff', 'error_result') and rec.in_playback_mode) else ''))
            return tok

        @rec.intercept_input('eq.read')
        def read(self):
            return dict(current)

        @rec.intercept_output('eq.write')
        def write(self, x):
            return 'ok'

    raise_in_player = [False]
    leaked_cassettes = []
    import tempfile as _tempfile
    event_lock_flag = _tempfile.mktemp(prefix='vp-eq-evlock-')
    if 'die_holding_event_lock' in case['behaviours']:
        import multiprocessing.synchronize as _mps
        import signal as _sig
        _parent_pid = os.getpid()
        _orig_is_set = _mps.Event.is_set

        def _is_set(self):
            if os.getpid() != _parent_pid and os.path.exists(event_lock_flag):
                self._cond.acquire()                 # (what is_set() itself takes for an instant)
                try:
                    os.remove(event_lock_flag)
                except OSError:
                    pass
                os.kill(os.getpid(), _sig.SIGKILL)
            return _orig_is_set(self)
        _mps.Event.is_set = _is_set
    ids = []
    for i, b in enumerate(case['behaviours']):
        current.clear()
        current.update({'token': 'T%d' % i, 'behaviour': b})
        EqOp().execute()
        ids.append(cassette.get_last_recording_id())
    rec.disable_recording()

    def playback_function(recording):
        raise_in_player[0] = False
        r = EqOp().execute()
        if raise_in_player[0]:
            raise RuntimeError('player fails for ' + r)
        return r

    def player(recording_id):
        return rec.play(recording_id, playback_function)

    def behaviour_of(token):
        return case['behaviours'][int(token.split('-')[0][1:])]

    def result_extractor(outputs):
        out = next(o for o in outputs if 'eq.write' in o.key)
        tok = out.value['args'][0]
        if behaviour_of(tok) == 'extractor_raises':
            raise RuntimeError('extractor fails for ' + tok)
        if behaviour_of(tok) == 'error_result' and tok.endswith('-CHANGED'):
            return ValueError(tok)           # the extractor reports the replayed operation's failure as an exception OBJECT (the result is an error)
        return tok

    # a comparator that hands out the same message-less result objects again and again (module-level constants)
    shared_equal, shared_different = ComparatorResult(EqualityStatus.Equal), ComparatorResult(EqualityStatus.Different)

    def comparator(recorded, played, **kw):
        if case.get('shared_results'):
            same = not isinstance(played, Exception) and recorded == played
            return shared_equal if same else shared_different
        if behaviour_of(recorded) == 'comparator_raises':
            raise RuntimeError('comparator fails for ' + recorded)
        if behaviour_of(recorded) == 'bare_status':
            return EqualityStatus.Equal
        if behaviour_of(recorded) == 'dict_diff':
            # a structured diff object instead of a text (the field is free-form)
            return ComparatorResult(EqualityStatus.Different, '%s != %s' % (recorded, played), diff={'expected': recorded, 'actual': played, 'rows': [1, 2]})
        if recorded == played:
            return ComparatorResult(EqualityStatus.Equal, 'equal ' + recorded)
        return ComparatorResult(EqualityStatus.Different, '%s != %s' % (recorded, played))

    if case.get('fork_fails_at'):
        # resource fault: starting a worker process fails with EAGAIN at the given fork calls (1-based)
        import errno
        _real_fork = os.fork
        fork_calls = [0]

        def _fork():
            fork_calls[0] += 1
            if fork_calls[0] in case['fork_fails_at']:
                raise OSError(errno.EAGAIN, 'Resource temporarily unavailable (injected)')
            return _real_fork()
        os.fork = _fork
    if case.get('slow_start'):
        # injected delay at an existing suspension point: the parent is descheduled right after a worker process was forked
        import multiprocessing.process as _mpp
        _orig_start = _mpp.BaseProcess.start

        def _slow_start(self):
            _orig_start(self)
            time.sleep(case['slow_start'])
        _mpp.BaseProcess.start = _slow_start
    configured_timeout = timeout
    if case.get('timeout_type') == 'decimal':
        import decimal
        configured_timeout = decimal.Decimal(str(timeout))          # settings read from a config file as decimals
    elif case.get('timeout_type') == 'fraction':
        import fractions
        configured_timeout = fractions.Fraction(str(timeout))
    elif case.get('timeout_type') == 'int':
        configured_timeout = int(timeout)
    if case.get('frozen_clock'):
        # the host runs its regression under a frozen clock (freezegun style): time() of the equalizer module does not advance
        import playback.studio.equalizer as _eqmod
        import time as _t
        _frozen = _t.time()
        if callable(getattr(_eqmod, 'time', None)) and getattr(_eqmod, 'time') is _t.time:
            _eqmod.time = lambda: _frozen
        _t.time = lambda: _frozen
    cfg = CompareExecutionConfig(keep_results_in_comparison=case.get('keep', False),
                                 compare_in_dedicated_process=case['dedicated'] and not case.get('flip_mode'),
                                 compare_process_recycle_rate=case.get('recycle', 5), compare_process_timeout=configured_timeout)
    # ---- observation wrappers (harness side, nothing in the repository; class level so that an Equalizer built by the studio is seen too)
    pids = []
    task_pid = []
    orig_create = Equalizer._create_new_player_process

    def create(self):
        orig_create(self)
        pids.append(self._compare_process.pid)
    Equalizer._create_new_player_process = create
    orig_recycle = Equalizer._create_or_recycle_player_process_if_needed

    def recycle(self):
        orig_recycle(self)
        task_pid.append(self._compare_process.pid)
    Equalizer._create_or_recycle_player_process_if_needed = recycle
    orig_kill = Equalizer._kill_compare_process
    late_waits = []
    doomed = []
    idx_offset = [0]

    def kill(self):
        # injected delay at an existing suspension point: when the current recording is scripted "late", the kill lands only
        # after the worker's answer is in the pipe (an OS scheduling delay the parent cannot exclude)
        idx = len(results) + idx_offset[0]
        if idx < len(case['behaviours']) and case['behaviours'][idx] == 'late':
            t0 = time.monotonic()
            q = self._compare_results
            while time.monotonic() - t0 < 5:
                try:
                    if q._reader.poll(0.02):
                        break
                except Exception:
                    break
            late_waits.append(time.monotonic() - t0)
        if case.get('kill_fails'):
            # the kill is refused by the operating system (EPERM: the replayed code changed the worker's uid); the worker lives on
            doomed.append(self._compare_process.pid)
            raise PermissionError(1, 'Operation not permitted (injected)')
        orig_kill(self)
    Equalizer._kill_compare_process = kill

    studio = None
    if case.get('via_studio'):
        # the run is started through a long-lived PlaybackStudio (which outlives an abandoned run), not through the Equalizer directly
        from playback.studio.studio import PlaybackStudio
        from playback.studio.equalizer_tuning import EqualizerTuner, EqualizerTuning

        class Tuner(EqualizerTuner):
            def create_category_tuning(self, category):
                return EqualizerTuning(playback_function, result_extractor, comparator)
        studio = PlaybackStudio(['EqOp'], Tuner(), rec, recording_ids=list(ids), compare_execution_config=cfg)
        run_comparison = lambda: studio.play()['EqOp']     # noqa: E731
    elif case.get('ids_iterator'):
        # the ids come from a generator of the caller (a listing with its own clean-up) that does not take being closed kindly
        def listing():
            if case['ids_iterator'] == 'close_raises':
                try:
                    for i in ids:
                        yield i
                finally:
                    if case.get('consume', 'full') != 'full':
                        raise RuntimeError('clean-up of the caller\'s listing failed')
            else:
                for i in ids:
                    try:
                        yield i
                    except BaseException:  # noqa - a bare except around the yield: GeneratorExit is swallowed, the generator goes on
                        pass
        class PagedListing(object):
            """An iterator OBJECT (not a generator): once its store is gone every further next() fails again."""
            def __init__(self, upto):
                self._it = iter(list(ids)[:upto])

            def __iter__(self):
                return self

            def __next__(self):
                for i in self._it:
                    return i
                raise RuntimeError('listing failed: the store of the caller\'s lookup is gone')
            next = __next__
        source = PagedListing(case['listing_fails_after']) if case['ids_iterator'] == 'next_keeps_raising' else listing()
        eq = Equalizer(source, player, result_extractor, comparator, compare_execution_config=cfg)
        run_comparison = eq.run_comparison
    elif case.get('default_config'):
        # the judged equalizer is built WITHOUT a configuration (documented default: in this process, results not kept); another
        # equalizer of the process, also built without one, had its own settings changed after construction
        neighbour = Equalizer(iter([]), player, result_extractor, comparator)
        neighbour.compare_execution_config.keep_results_in_comparison = True
        neighbour.compare_execution_config.compare_in_dedicated_process = True
        neighbour.compare_execution_config.compare_process_timeout = 0.5
        neighbour.compare_execution_config.compare_process_recycle_rate = 1
        eq = Equalizer(iter(ids), player, result_extractor, comparator)
        run_comparison = eq.run_comparison
    elif case.get('int_ids'):
        # the caller identifies its recordings by position (0, 1, 2 ...) and maps them to stored recordings in its own player
        eq = Equalizer(iter(range(len(ids))), (lambda i: player(ids[i])), result_extractor, comparator, compare_execution_config=cfg)
        run_comparison = eq.run_comparison
    else:
        eq = Equalizer(iter(ids), player, result_extractor, comparator, compare_execution_config=cfg)
        run_comparison = eq.run_comparison

    results = []
    stamps = []
    error = None
    consume = case.get('consume', 'full')
    companion, companion_got, companion_error, companion_expected = None, [], None, []
    if case.get('companion'):
        # a second comparison run of the same process (another category consumed in lock step): it is started first, its worker sits
        # idle while the judged run goes through all its stages, and it is consumed to the end afterwards
        healthy = [(i, b) for i, b in zip(ids, case['behaviours']) if b in ('equal', 'different')]
        companion_expected = [{'equal': 'Equal', 'different': 'Different'}[b] for _, b in healthy]
        eq2 = Equalizer(iter([i for i, _ in healthy]), player, result_extractor, comparator, compare_execution_config=cfg)
        companion = eq2.run_comparison()
        try:
            companion_got.append(next(companion).comparator_status.equality_status.name)
        except BaseException as ex:  # noqa
            companion_error = 'first:' + repr(ex)
    gen = run_comparison()
    suspended_first_run = None
    if case.get('second_run_while_first_suspended'):
        # one comparison is taken from a first run of this equalizer; while that run is suspended a second run of the SAME equalizer is
        # started (it goes on with the remaining ids) and is the one that is consumed and judged; the first one is closed at the end
        suspended_first_run = gen
        first = next(suspended_first_run)
        ids = ids[1:]
        idx_offset[0] = 1
        gen = run_comparison()
    if case.get('consume_in_fork'):
        # the comparison is prepared in one process and consumed in a process forked from it (one forked consumer per category)
        sys.stdout.flush()
        child = os.fork()
        if child != 0:
            os.waitpid(child, 0)
            os._exit(0)
    if case.get('tighten_after'):
        # timeout and recycle rate are live settings of the caller's configuration object: tightened after the equalizer(s) were built
        cfg.compare_process_timeout = case['tighten_after']['timeout']
        cfg.compare_process_recycle_rate = case['tighten_after']['recycle']
    if case.get('flip_mode'):
        # the execution mode is a live setting of the (shared) configuration object: it is switched to the dedicated process after the
        # equalizer(s) were built and before the comparison is consumed
        cfg.compare_in_dedicated_process = True
    if hang_flag:
        import threading

        def _ctrl_c():
            # Ctrl-C in the terminal: SIGINT goes to the whole foreground process group while a replay hangs
            t0 = time.monotonic()
            while not os.path.exists(hang_flag) and time.monotonic() - t0 < 60:
                time.sleep(0.02)
            time.sleep(0.1)
            os.killpg(os.getpgrp(), _signal.SIGINT)
        threading.Thread(target=_ctrl_c, daemon=True).start()
    t_start = time.monotonic()
    finished = False
    try:
        k = 0
        for comp in gen:
            if k >= len(case['behaviours']):
                raise RuntimeError('more comparisons than recording ids were delivered (%d so far)' % (k + 1))
            stamps.append(time.monotonic() - t_start)
            pb = comp.playback
            results.append({
                'recording_id': comp.recording_id,
                'status': comp.comparator_status.equality_status.name if hasattr(comp.comparator_status, 'equality_status') else repr(comp.comparator_status),
                'message': getattr(comp.comparator_status, 'message', None),
                'is_comparator_result': isinstance(comp.comparator_status, ComparatorResult),
                'playback_recording_id': pb.original_recording.id if pb is not None else None,
                'expected': comp.expected, 'actual': comp.actual,
                'playback_token': (next((o.value['args'][0] for o in pb.recorded_outputs if 'eq.write' in o.key), None) if pb is not None else None),
            })
            k += 1
            if case['behaviours'][k - 1 + idx_offset[0]] == 'die_idle' and case['dedicated']:
                time.sleep(0.9)          # the consumer is busy while the idle worker dies
            if consume != 'full' and k >= consume[1]:
                if consume[0] == 'close':
                    gen.close()
                    break
                if consume[0] == 'raise':
                    raise KeyError('consumer fails')
                if consume[0] == 'drop':
                    break
        else:
            finished = True
    except KeyError as ex:
        error = 'consumer:' + repr(ex)
    except BaseException as ex:  # noqa
        error = 'run:' + repr(ex)
    t_end = time.monotonic() - t_start
    if suspended_first_run is not None:
        try:
            suspended_first_run.close()
        except BaseException as ex:  # noqa
            error = (error or '') + ' closing the first run:' + repr(ex)
        suspended_first_run = first = None
    if companion is not None and companion_error is None:
        try:
            for comp2 in companion:
                companion_got.append(comp2.comparator_status.equality_status.name)
        except BaseException as ex:  # noqa
            companion_error = 'rest:' + repr(ex)
        comp2 = None
    if hang_flag and os.path.exists(hang_flag):
        os.remove(hang_flag)
    if consume != 'full' and consume[0] in ('drop', 'raise', 'sigint'):
        del gen
        comp = None
        gc.collect()
    # ---- census ------------------------------------------------------------------------------------------
    grace = case.get('grace', 10.0)
    t0 = time.monotonic()
    gone_after = None
    while time.monotonic() - t0 < grace:
        if not any(alive(p) for p in pids):
            gone_after = time.monotonic() - t0
            break
        time.sleep(0.02)
    survivors = [p for p in pids if alive(p) and p not in doomed]
    for p in doomed:
        try:
            os.kill(p, 9)
        except OSError:
            pass
    for p in survivors:
        try:
            os.kill(p, 9)
        except OSError:
            pass
    if case.get('int_ids'):
        for r in results:
            if r['playback_recording_id'] in ids:
                r['playback_recording_id'] = ids.index(r['playback_recording_id'])
        ids = list(range(len(ids)))
    print(json.dumps({'ids': ids, 'results': results, 'stamps': stamps, 'error': error, 'finished': finished, 'total_s': t_end,
                      'pids': pids, 'task_pid': task_pid, 'survivors': survivors, 'gone_after': gone_after, 'calib_s': calib,
                      'late_waits': late_waits, 'companion': {'expected': companion_expected, 'got': companion_got, 'error': companion_error}}, default=str))
    sys.stdout.flush()
    os._exit(0)


if __name__ == '__main__':
    main()
