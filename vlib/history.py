"""Gives a recorder a past: the properties quantify over every run, whenever it happens in the life of a recorder.

``give_past(rec, spy, seed)`` performs 1-3 random earlier events on the recorder (same thread): a recorded and replayed
operation, a replay that fails out of play() after it made output calls, an operation interrupted inside an intercepted
body, a discarded operation.  Afterwards the spy log is cleared."""
import random

from vlib.programs import gen_program, Built, World, playback_function_for, clone
from vlib.values import InterruptLike

EVENTS = ['record_and_replay', 'failed_replay', 'interrupted_in_body', 'discarded', 'raises', 'replay_imported', 'raises_unencodable']


def give_past(rec, spy, seed, ctx=None, like=None):
    """like: a program; half of the past events then run (a copy of) it, so that the past used the very same aliases."""
    rng = random.Random(seed)
    was_enabled = rec.recording_enabled
    rec.enable_recording()
    for k in range(rng.randrange(1, 4)):
        ev = rng.choice(EVENTS)
        q = gen_program(random.Random(seed * 13 + k), threads=False, nested=False, max_steps=5, max_in_decls=2, max_out_decls=2, explicit_raise=0,
                        raise_rate=0.0, try_steps=False, record_data=False, properties=False, resolvers=False, capture=False, handlers=False)
        if like is not None and rng.random() < 0.6:
            q = clone(like)
            q['body'] = [st for st in q['body'] if st['op'] != 'threads']
            q['opts'] = dict(q.get('opts', {}), raise_rate=0.0)
        if ev == 'replay_imported':
            replay_imported(rec)
            if ctx is not None:
                ctx.count('past_' + ev)
            continue
        n0 = len(spy.log)
        faults = {}
        if ev == 'interrupted_in_body':
            faults = {('main', 0): 'body_raise_interrupt'}
        elif ev == 'discarded':
            faults = {('main', 1): 'discard'}
        elif ev == 'raises':
            faults = {('main', 1): 'raise_user'}
        elif ev == 'raises_unencodable':
            faults = {('main', rng.choice([0, 1])): 'raise_user_unencodable'}     # an exception of a service class that cannot be encoded THIS time
        qb = Built(q, rec, World(q['seed_world'] + 1, raise_rate=0.0), faults=faults)
        qb.run('past')
        saves = [e for e in spy.log[n0:] if e[0] == 'save']
        if ev in ('record_and_replay', 'failed_replay') and len(saves) == 1 and not any(e[0] == 'save_failed' for e in spy.log[n0:]):
            q2 = q
            if ev == 'failed_replay' and q['inputs']:
                q2 = clone(q)
                d = q2['inputs'][0]
                q2['body'] = list(q2['body']) + [{'op': 'in', 'decl': d['name'], 'args': [{'lit': ('NEVER', k)}] * d['nparams'],
                                                  'kwargs': {'extra': {'lit': 'never-recorded'}}, 'var': 'zz'}]
            try:
                pb = rec.play(saves[0][2], playback_function_for(Built(q2, rec, World(1, poison=True), cls_name=qb.cls.__name__)))
                if rng.random() < 0.6:
                    # the caller post-processes what the replay handed out IN PLACE (fills defaults, normalises values)
                    from vlib.values import mutate_deep
                    for o in list(pb.playback_outputs) + list(pb.recorded_outputs):
                        mutate_deep(o.value, 'PAST')
                    if ctx is not None:
                        ctx.count('past_outputs_post_processed_in_place')
            except BaseException:  # noqa - the past is allowed to fail
                pass
        if ctx is not None:
            ctx.count('past_' + ev)
    del spy.log[:]
    spy._saves = 0
    if not was_enabled:
        rec.disable_recording()


def replay_imported(rec):
    """A recording that was stored through the cassette API (imported / hand-built fixture: no recorder metadata such as the
    duration) is replayed; play() fails on it, which must leave the recorder as idle as any other failed replay."""
    cas = rec.tape_cassette
    try:
        r = cas.create_new_recording('Imported')
        r.set_data('k', 1)
        r.add_metadata({'imported': True})
        cas.save_recording(r)
        rec.play(r.id, lambda recording: None)
    except BaseException:  # noqa - the past is allowed to fail
        pass
