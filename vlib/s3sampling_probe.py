"""Run in a fresh interpreter (any PYTHONHASHSEED): the storage-level sampling decisions of S3 cassettes with several key prefixes for one
fixed save history. Prints 'SAMPLING {prefix: "0101..."}'."""
import json
import os
import sys

sys.path.insert(0, os.path.dirname(os.path.dirname(os.path.abspath(__file__))))
from vlib import env   # noqa

env.bootstrap()
from vlib.fakes3 import FakeS3   # noqa

out = {}
for prefix in ('', 'svc-a', 'team/env'):
    fake = FakeS3()
    with fake.installed():
        c = fake.cassette('w', key_prefix=prefix, read_only=False, sampling_calculator=lambda category, size, recording: 0.5)
        seq = ''
        for i in range(60):
            n0 = len(fake.log)
            rec = c.create_new_recording('Cat')
            rec.set_data('k', i)
            c.save_recording(rec)
            seq += '1' if len(fake.log) > n0 else '0'
        out[prefix] = seq
print('SAMPLING ' + json.dumps(out))
