"""Shared engine for C04 / C05 / C18 (and C09, C17): base programs, enumeration of fault placements, execution of a
program under a fault placement next to its undecorated twin, with a spy cassette in between."""
import itertools
import random

from vlib.cassettes import open_box
from vlib.programs import gen_program, Built, World, Journal, describe, playback_function_for
from vlib.spies import SpyCassette, SpyRandom

PRE = ['raise_user', 'raise_interrupt', 'discard', 'force']
PRE_TRANSPARENCY_ONLY = ['disable']    # used by C04 / C18; not a capture fault of C05's quantifier
ON_IN = ['badkey', 'body_discard', 'body_force', 'body_raise_user', 'body_raise_interrupt', 'value_unencodable', 'body_raise_unencodable']
ON_OUT = ['badkey', 'body_discard', 'body_force', 'body_raise_user', 'body_raise_interrupt', 'value_unencodable', 'body_raise_unencodable']
# faults that are behaviour of the service itself (they happen in the twin and in a replay as well)
SERVICE_LEVEL = {'raise_user', 'raise_user_unencodable', 'raise_user_unencodable_noargs', 'raise_framework_error', 'raise_interrupt', 'body_raise_user', 'body_raise_interrupt', 'value_unencodable', 'badkey', 'body_raise_unencodable'}
# faults after which the framework must not save the recording
CAPTURE_FAILURES = {'badkey_key', 'handler_raises', 'resolver_raises', 'discard', 'body_discard'}

EXTRACTORS = [None, 'ok', 'raises', 'junk_none', 'junk_int', 'junk_str', 'junk_pairs', 'ok_calls_output', 'ok_live_mapping']


def base_programs(seed, n, **opts):
    """Small single-threaded programs with every decorator feature represented."""
    out = []
    i = 0
    o = dict(threads=False, max_steps=5, max_in_decls=3, max_out_decls=2, explicit_raise=0.1, raise_rate=0.1)
    o.update(opts)
    while len(out) < n:
        rng = random.Random(seed * 7919 + i)
        i += 1
        p = gen_program(rng, **o)
        p['gen_seed'] = seed * 7919 + i - 1
        returns_error_object(p, rng)
        out.append(p)
    return out


def returns_error_object(p, rng, rate=0.12):
    """Some operations RETURN an exception instance (a validator handing back its error object): that is a result, not a failure."""
    from vlib.values import UserError
    if rng.random() < rate:
        body = [st for st in p['body'] if st['op'] not in ('return', 'raise')]
        p['body'] = body + [{'op': 'return', 'expr': {'lit': UserError('returned, not raised')}}]
        p['returns_error_object'] = True


def dry_trace(prog):
    """Fault-free run of the undecorated twin: executed steps in order."""
    t = Built(prog, None, World(prog['seed_world'], raise_rate=prog['opts']['raise_rate']))
    t.run('dry')
    return list(t.trace)


def placements_for(prog, trace):
    decls = {d['name']: d for d in prog['inputs'] + prog['outputs']}
    single = []
    for pos, op, dn in trace:
        if pos[0] != 'main':
            continue
        for f in PRE:
            single.append((pos, f))
        if op in ('in', 'out'):
            d = decls[dn]
            for f in (ON_IN if op == 'in' else ON_OUT):
                if f == 'badkey' and d['nparams'] == 0:
                    continue
                single.append((pos, f))
            if d.get('handler'):
                single.append((pos, 'handler_raises'))
            if d.get('resolver') is not None:
                single.append((pos, 'resolver_raises'))
    return single


def all_placements(prog, pairs=True, max_pairs=None, rng=None):
    trace = dry_trace(prog)
    single = placements_for(prog, trace)
    out = [dict([s]) for s in single]
    if pairs:
        pp = [dict([a, b]) for a, b in itertools.combinations(single, 2) if a[0] != b[0]]
        if max_pairs is not None and len(pp) > max_pairs:
            pp = (rng or random).sample(pp, max_pairs)
        out.extend(pp)
    return [{}] + out


class RunResult(object):
    pass


def execute(prog, faults, extractor=None, fail_save=False, rate=None, enabled=True, kind='memory', ignore_forced=False,
            skipped=False, copy=None, rng_seed=5, scripted_draws=None, recorder=None, spy=None, box=None, with_twin=True, built=None,
            cls_name=None, caller_context='plain', verbose=False):
    """Runs the decorated program under ``faults`` (and its twin). The caller closes res.box_cm if it is not None."""
    from playback.tape_recorder import TapeRecorder
    res = RunResult()
    res.prog, res.faults = prog, faults
    p = dict(prog)
    import contextlib
    stack = contextlib.ExitStack()
    if verbose:
        # the host runs with DEBUG logging, and neither the service object nor some of its values can be printed by anybody but the
        # service (their __repr__ raises for the framework and for the logging module)
        from vlib import env
        from vlib.programs import unprintable_values
        p['unprintable_self'] = True
        stack.enter_context(env.debug_logging())
        stack.enter_context(unprintable_values(0.4))
    with stack:
        return _execute(res, prog, p, faults, extractor, fail_save, rate, enabled, kind, ignore_forced, skipped, copy, rng_seed, scripted_draws,
                        recorder, spy, box, with_twin, built, cls_name, caller_context)


def _execute(res, prog, p, faults, extractor, fail_save, rate, enabled, kind, ignore_forced, skipped, copy, rng_seed, scripted_draws,
             recorder, spy, box, with_twin, built, cls_name, caller_context):
    from playback.tape_recorder import TapeRecorder
    params = dict(prog.get('params') or {})
    if rate is not None:
        params['rate'] = rate
    if ignore_forced:
        params['ignore_forced'] = True
    if skipped:
        params['skipped'] = True
    if copy is not None:
        params['copy'] = copy
    p['params'] = params or None
    res.box_cm = None
    if recorder is None:
        if kind == 's3calc':
            # S3 cassette with storage-level sampling by a size-based calculator
            res.box_cm = open_box('s3', s3_kwargs={'sampling_calculator': lambda category, size, recording: 0.5})
        else:
            res.box_cm = open_box('memory' if kind == 'async' else kind)
        res.box = res.box_cm.__enter__()
        inner = res.box.cassette
        if kind == 'async':
            from vlib.cassettes import async_over
            inner = async_over(inner)
            res.async_cassette = inner
        res.spy = SpyCassette(inner, fail_saves=[1] if fail_save else [])
        res.recorder = TapeRecorder(res.spy)
        res.recorder._random = SpyRandom(rng_seed)
        if enabled:
            res.recorder.enable_recording()
    else:
        res.recorder, res.spy, res.box = recorder, spy, box
        if fail_save:
            spy.fail_saves = {spy._saves + 1}
    if scripted_draws:
        res.recorder._random.script = list(scripted_draws)
    res.log_start = len(res.spy.log)
    res.draws_start = len(getattr(res.recorder._random, 'draws', []))
    if built is not None:
        # the same class is invoked again (its recording parameters were registered by the first run)
        res.live = built.rearm(faults=faults, extractor_behaviour=extractor)
    else:
        res.live = Built(p, res.recorder, World(prog['seed_world'], raise_rate=prog['opts']['raise_rate']), faults=faults,
                         extractor_behaviour=extractor, cls_name=cls_name)
    import time as _t
    res.utc_before = _now_utc()
    res.t_before = _t.time()
    import random as _random
    import sys as _sys
    _random.seed(20240917)                     # the process-wide generator belongs to the service: the framework must not draw from it
    # other process-wide settings belong to the service / its host too: this service raised the recursion limit after start-up
    limit0 = _sys.getrecursionlimit()
    _sys.setrecursionlimit(limit0 + 137)
    try:
        res.process_state_before = process_state()
        reg = {}
        once_per_location_warning(reg)            # the service has emitted this warning before: shown once, suppressed from then on
        res.outcome = in_caller_context(caller_context, lambda: res.live.run('live'))
        res.process_state_after = process_state()
        res.process_state_before['once-per-location warnings stay suppressed'] = True
        res.process_state_after['once-per-location warnings stay suppressed'] = not once_per_location_warning(reg)
    finally:
        _sys.setrecursionlimit(limit0)
    res.global_random_after = _random.random()
    if enabled and not res.recorder.recording_enabled:
        res.recorder.enable_recording()       # a 'disable' kill switch fired during the run; later runs record again
    res.t_after = _t.time()
    res.utc_after = _now_utc()
    res.spy_events = res.spy.log[res.log_start:]
    res.draws = list(getattr(res.recorder._random, 'draws', []))[res.draws_start:]
    if with_twin:
        res.twin = Built(p, None, World(prog['seed_world'], raise_rate=prog['opts']['raise_rate']), faults=faults)
        _random.seed(20240917)
        res.twin_outcome = in_caller_context(caller_context, lambda: res.twin.run('live'))
        res.twin_global_random_after = _random.random()      # the twin is called from the same context
    return res


def once_per_location_warning(registry):
    """Emits the service's 'shown once per location' warning with its own registry; -> True when it was delivered (not suppressed).
    (Whoever modifies the process's warning filters invalidates every registry: suppressed warnings are delivered again.)"""
    import warnings
    shown = []
    old = warnings.showwarning
    warnings.showwarning = lambda *a, **k: shown.append(1)
    try:
        warnings.warn_explicit('the service warns here once per location', UserWarning, 'service_module.py', 12, module='service_module', registry=registry)
    except UserWarning:
        shown.append(1)            # (warnings configured as errors: counts as delivered)
    finally:
        warnings.showwarning = old
    return bool(shown)


def process_state():
    """Process-wide interpreter / host settings a library has no business changing as a side effect of recording."""
    import decimal
    import gc
    import locale
    import logging
    import os
    import signal
    import socket
    import sys
    import threading
    import warnings
    st = {'recursion limit': sys.getrecursionlimit(), 'switch interval': sys.getswitchinterval(), 'working directory': os.getcwd(),
          'environment': dict(os.environ), 'excepthook': sys.excepthook, 'threading excepthook': threading.excepthook,
          'garbage collector enabled': gc.isenabled(), 'gc thresholds': gc.get_threshold(), 'decimal precision': decimal.getcontext().prec,
          'default socket timeout': socket.getdefaulttimeout(), 'warning filters': len(warnings.filters), 'locale': locale.setlocale(locale.LC_ALL),
          'root logger level': logging.getLogger().level, 'root logger handlers': len(logging.getLogger().handlers), 'logging disabled below': logging.root.manager.disable,
          'trace function': sys.gettrace(), 'profile function': sys.getprofile(), 'stdout': sys.stdout, 'stderr': sys.stderr, 'sys.path length': len(sys.path)}
    if threading.current_thread() is threading.main_thread():
        for name in ('SIGINT', 'SIGTERM', 'SIGCHLD', 'SIGALRM', 'SIGUSR1', 'SIGHUP', 'SIGPIPE'):
            st['handler of ' + name] = signal.getsignal(getattr(signal, name))
    return st


CALLER_CONTEXTS = ('plain', 'except', 'except_interrupt', 'finally')


def in_caller_context(kind, fn):
    """Calls fn() the way service code calls an operation from a compensating / clean-up path: while the caller is handling an
    ordinary exception, an interrupt-style one, or inside a finally block an exception is passing through."""
    from vlib.values import UserError2, InterruptLike
    if kind == 'plain':
        return fn()
    if kind == 'except':
        try:
            raise UserError2('caller is handling this')
        except UserError2:
            return fn()
    if kind == 'except_interrupt':
        try:
            raise InterruptLike('caller is handling this')
        except InterruptLike:
            return fn()
    if kind == 'finally':
        box = []
        try:
            try:
                raise UserError2('passing through the caller')
            finally:
                box.append(fn())
        except UserError2:
            pass
        return box[0]
    raise ValueError(kind)


def _now_utc():
    import datetime
    return datetime.datetime.utcnow()


def close(res):
    if getattr(res, 'async_cassette', None) is not None:
        try:
            res.async_cassette.close()
        except Exception:
            pass
        res.async_cassette = None
    if res.box_cm is not None:
        res.box_cm.__exit__(None, None, None)
        res.box_cm = None


def service_faults(faults):
    return {k: v for k, v in faults.items() if v in SERVICE_LEVEL}


def fault_summary(res):
    """What actually happened, from the interpreter's fault log and the journal (not from playback state)."""
    kinds = [k for _, k in res.live.fault_log]
    return kinds


def faults_json(faults):
    return [[list(k), v] for k, v in sorted(faults.items())]
