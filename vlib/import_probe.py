"""Run in a fresh interpreter: process-wide state before and after importing every module of the library. Prints one 'IMPORT {...}' line."""
import json
import os
import sys

sys.path.insert(0, os.path.dirname(os.path.dirname(os.path.abspath(__file__))))
from vlib import env   # noqa

env.bootstrap()
import logging   # noqa

logging.disable(logging.NOTSET)
import importlib   # noqa
import pkgutil   # noqa

import jsonpickle   # noqa
import jsonpickle.backend   # noqa
import jsonpickle.handlers   # noqa

from vlib.faultruns import process_state   # noqa


def snap():
    return dict((k, repr(v)) for k, v in process_state().items() if k not in ('sys.path length', 'warning filters'))      # (third-party packages register warning filters when they are first imported)


def serializer():
    b = jsonpickle.json
    return repr((b._encoder_options, b._decoder_options, b._backend_names, jsonpickle.encode({'b': [1, {'a': 2}]}), len(jsonpickle.handlers.registry._handlers)))


a, sa = snap(), serializer()
import playback   # noqa

imported, failed = 0, []
for m in pkgutil.walk_packages(playback.__path__, 'playback.'):
    try:
        importlib.import_module(m.name)
        imported += 1
    except Exception:
        failed.append(m.name)
b, sb = snap(), serializer()
print('IMPORT ' + json.dumps({'changed': sorted(k for k in a if a[k] != b.get(k)), 'serializer_changed': sa != sb, 'before': sa[:300], 'after': sb[:300],
                              'imported': imported, 'failed': failed}))
