"""C01 Replay on unchanged code reproduces the recorded run.

Differential monitor: the client-side journal of the live (recorded) run is the specification.  The same program
is replayed against a *poison world* (every body returns a poison value and journals its execution), so every
value the replayed operation sees must come from the recording.
"""
import random

from vlib import env
from vlib.cassettes import open_box, async_over
from vlib.programs import (gen_program, Built, World, Journal, describe, count_features, call_outcome, outcome_teq,
                           playback_function_for)
from vlib.spies import SpyCassette
from vlib.values import recording_in_domain, teq, in_domain, first_diff

PROPERTY = 'C01'
LEVEL = 'exploration'
RULE = ('seeded random programs (0-4 input decls, 0-3 output decls, 1-10 steps incl. >9 calls of one alias, same alias with '
        'different args, instance/static/property(both orders)/class-level, resolver aliases, capture subsets, wrapping data handlers, '
        'nested interceptions, 2-3 worker threads with disjoint output aliases, inputs/outputs that raise, try/catch, explicit raise/return, '
        'record_data/play_data) x cassette in memory/file/S3-on-fake/async-over-memory, copy-on-interception on/off, replay on the same '
        'or a fresh recorder. A case = one program recorded once and replayed once; distinct = hash of the program description + cassette; '
        'non-trivial = at least one intercepted call was made and the recording was saved.')
ASSUMPTIONS = ['values in the calibrated faithful domain (per value and per whole recording, asked of jsonpickle directly)',
               'inputs are pure functions of (resolved alias, captured argument values)', 'exceptions compared by type (serializer drops arguments)',
               'worker threads use disjoint output aliases (per-alias order must be deterministic, as documented)']

KINDS = ['memory', 'file', 's3', 'async']


def reuse_sent_objects(prog):
    """The service keeps working on an object after it has sent it to an output (a reused page / send buffer): a 'mutate' step
    follows every top level output call that was given a variable."""
    body = []
    for st in prog['body']:
        body.append(st)
        if st['op'] == 'out':
            for a in list(st['args']) + list(st['kwargs'].values()):
                if 'var' in a:
                    body.append({'op': 'mutate', 'var': a['var']})
                    break
    prog['body'] = body


class BufferWorld(World):
    """in0 hands out a mutable page buffer (a list / dict / object, by the seed)."""
    def outcome(self, io, name, ralias, captured):
        from vlib.values import Obj
        if self.poison or io != 'in':
            return World.outcome(self, io, name, ralias, captured)
        return ('value', [{'page': 0, 'rows': [1, 2]}, [0, [1, 2]], Obj(page=0, rows=[1, 2])][self.seed % 3])


def reused_buffer_program(seed):
    from checks.C04_sched import _in, _out
    send = lambda var: {'op': 'out', 'decl': 'out0', 'args': [{'var': 'a'}], 'kwargs': {}, 'var': var}
    return {'seed_world': seed, 'class_level': False, 'extractor': None, 'params': {'copy': True}, 'opts': {'raise_rate': 0.0},
            'uid': 975000 + seed % 1000, 'inputs': [_in('in0', 'export.load_page')], 'outputs': [_out('out0', 'export.send_page')],
            'body': [{'op': 'in', 'decl': 'in0', 'args': [{'lit': 1}], 'kwargs': {}, 'var': 'a'}, send('b'), {'op': 'mutate', 'var': 'a'}, send('c'),
                     {'op': 'mutate', 'var': 'a'}, {'op': 'out', 'decl': 'out0', 'args': [{'lit': 'tail'}], 'kwargs': {}, 'var': 'd'}], 'gen_seed': seed}


def run_case(ctx, case_seed, kind=None, prog=None, world_cls=World):
    from playback.tape_recorder import TapeRecorder
    rng = random.Random(case_seed)
    kind = kind or KINDS[case_seed % len(KINDS)]
    directed = prog is not None
    prog = prog or gen_program(rng)
    if prog['outputs'] and case_seed % 4 == 1 and not directed:
        prog['extractor'] = 'ok_calls_output'    # user code that runs after the operation ended (the metadata extractor) uses an intercepted output too
    if case_seed % 6 == 4 and not directed:
        # data handler OBJECTS whose truth value is False (a handler that is also an - empty - registry of codecs)
        for d in prog['inputs'] + prog['outputs']:
            if d.get('handler') == 'wrap':
                d['handler'] = 'wrap_falsy'
        for d in prog['inputs'][:1]:
            if d['kind'] in ('instance', 'static'):
                d['handler'] = 'wrap_falsy'
        ctx.count('programs_with_falsy_data_handler_objects')
    if case_seed % 5 == 2 and not directed:
        reuse_sent_objects(prog)
        # (without copy-on-interception the recording holds the very objects the service goes on modifying - that is what the flag is for)
        prog['params'] = dict(prog.get('params') or {}, copy=True)
        ctx.count('programs_that_keep_working_on_sent_objects')
    desc = describe(prog)
    w = {'case_seed': case_seed, 'cassette': kind, 'program': desc}
    if directed:
        w['reused_buffer'] = True
    with open_box('memory' if kind == 'async' else kind, prefix=rng.choice(['', 'p'])) as box:
        inner = box.cassette
        spy = SpyCassette(async_over(inner) if kind == 'async' else inner)
        rec = TapeRecorder(spy)
        rec.enable_recording()
        pre = kind != 'async' and rng.random() < 0.3
        if pre:
            # the recorder has a past (recorded / replayed / failed replay / interrupted / discarded operations): the property
            # quantifies over every complete recording, whenever it was made
            from vlib.history import give_past
            give_past(rec, spy, case_seed + 5000, ctx, like=prog)
            ctx.count('cases_with_recorder_history')
        live = Built(prog, rec, world_cls(prog['seed_world'], raise_rate=prog['opts']['raise_rate']))
        out_live = live.run('live')
        if kind == 'async':
            spy.inner.close()
        saves = [e for e in spy.log if e[0] == 'save']
        ncalls = len(live.journal.calls())
        if len(saves) != 1 or any(e[0] == 'save_failed' for e in spy.log):
            ctx.case(dict(desc, cassette=kind), nontrivial=False)
            ctx.count('not_saved')
            ctx.violation('fault-free program was not saved exactly once', dict(w, spy=[e[:3] for e in spy.log]))
            return
        recording_obj = spy.recordings[saves[0][1]]
        data = getattr(recording_obj, 'recording_data', None)
        md = getattr(recording_obj, 'recording_metadata', {})
        if data is None or not recording_in_domain(data, md):
            ctx.count('recordings_out_of_serializer_domain')
            return
        ctx.case(dict(desc, cassette=kind), nontrivial=ncalls > 0)
        count_features(prog, ctx)
        ctx.count('cassette_' + kind)
        rid = saves[0][2]
        # ---- replay -------------------------------------------------------------------------------------
        fresh = rng.random() < 0.5 and not pre
        rec2 = TapeRecorder(box.reader()) if (fresh or kind == 'async') else rec
        if not fresh and rec2 is rec:
            spy.inner = box.reader() if kind != 'memory' else spy.inner
        if rng.random() < 0.5:
            rec2.enable_recording()
        rep = Built(prog, rec2, World(prog['seed_world'], poison=True), cls_name=live.cls.__name__)
        try:
            playback = rec2.play(rid, playback_function_for(rep))
        except BaseException as ex:  # noqa
            ctx.violation('replay of a complete recording on unchanged code failed with %s' % type(ex).__name__,
                          dict(w, error=repr(ex)[:300]))
            return
        compare_runs(ctx, live, rep, playback, w)


def compare_runs(ctx, live, rep, playback, w):
    # 1. no body executed during replay
    bodies = rep.journal.bodies()
    if bodies:
        ctx.violation('a wrapped body was executed during replay', dict(w, bodies=[b['decl'] for b in bodies][:5]))
    # 2. every intercepted call: same value / same exception type, per logical thread, in order
    lt = live.journal.by_thread(live.journal.calls())
    rt = rep.journal.by_thread(rep.journal.calls())
    for th in sorted(set(lt) | set(rt)):
        a, b = lt.get(th, []), rt.get(th, [])
        if len(a) != len(b):
            ctx.violation('replay made %d intercepted calls on thread %s, live run made %d' % (len(b), th, len(a)), w)
        for x, y in zip(a, b):
            ctx.count('calls_compared')
            if x['decl'] != y['decl'] or not teq(x['args'], y['args']) or not teq(x['kwargs'], y['kwargs']):
                ctx.violation('replayed code diverged before this call (arguments differ) - earlier injection was wrong',
                              dict(w, thread=th, live=(x['decl'], repr(x['args'])[:200]), replay=(y['decl'], repr(y['args'])[:200])))
                break
            ox, oy = call_outcome(x), call_outcome(y)
            if not outcome_teq(ox, oy):
                ctx.violation('intercepted %s call answered differently in replay' % x['io'],
                              dict(w, thread=th, decl=x['decl'], args=repr(x['args'])[:200], live=repr(ox)[:300], replay=repr(oy)[:300]))
                break
            if ox.kind == 'exc':
                ctx.count('calls_raising_compared')
    # 3. operation body result
    lb = [e for e in live.journal.events if e['ev'] == 'op_body'][0]
    rb = [e for e in rep.journal.events if e['ev'] == 'op_body']
    if not rb:
        ctx.violation('operation body did not run in replay', w)
        return
    rb = rb[0]
    if ('raised' in lb) != ('raised' in rb) or ('raised' in lb and type(lb['raised']) is not type(rb['raised'])) or \
            ('returned' in lb and not teq(lb['returned'], rb.get('returned'))):
        ctx.violation('operation reached a different result in replay', dict(w, live=repr(lb.get('returned', lb.get('raised')))[:300],
                                                                           replay=repr(rb.get('returned', rb.get('raised')))[:300]))
    # 4. outputs captured during replay equal the recorded outputs one for one
    ro = {}
    for o in playback.recorded_outputs:
        if o.key in ro:
            ctx.violation('duplicate key in recorded_outputs', dict(w, key=o.key))
        ro[o.key] = o.value
    po = {}
    for o in playback.playback_outputs:
        if o.key in po:
            ctx.violation('duplicate key in playback_outputs', dict(w, key=o.key))
        po[o.key] = o.value
    ctx.count('output_entries_compared', len(ro))
    if set(ro) != set(po):
        ctx.violation('playback_outputs and recorded_outputs have different keys',
                      dict(w, only_recorded=sorted(set(ro) - set(po))[:5], only_playback=sorted(set(po) - set(ro))[:5]))
    for k in set(ro) & set(po):
        if not teq(ro[k], po[k]):
            ctx.violation('playback output differs from recorded output on unchanged code', dict(w, key=k, diff=first_diff(ro[k], po[k]), recorded=repr(ro[k])[:300], playback=repr(po[k])[:300]))
    # 5. play_data returns what record_data stored
    last = {}
    for e in live.journal.events:
        if e['ev'] == 'play_data':
            last[e['key']] = e['recorded']
    for e in rep.journal.events:
        if e['ev'] == 'play_data':
            ctx.count('play_data_compared')
            if not teq(e['played'], last.get(e['key'])):
                ctx.violation('play_data returned something else than what record_data stored', dict(w, key=e['key']))


def threaded_under_scheduler(ctx):
    """Worker threads of one operation call intercepted inputs at the same time and pass the same mutable argument object. The
    recording is made under the deterministic scheduler (preemption points: the recorder, the copy helper and the lines of the
    serializer that builds the keys), then replayed sequentially: every call must get what it got while recording."""
    from playback.tape_recorder import TapeRecorder
    from playback.tape_cassettes.in_memory.in_memory_tape_cassette import InMemoryTapeCassette
    from vlib import sched as S
    from checks.C04_sched import _in, _out, _call
    import jsonpickle.pickler
    import playback.tape_recorder as tr
    import playback.utils.pickle_copy as pc
    tg = [tr.__file__, pc.__file__, jsonpickle.pickler.__file__]
    shared = [1, [2, 3], {'k': 'v'}]
    lit = lambda v: {'lit': v}
    call = lambda decl, var, *a: {'op': 'in', 'decl': decl, 'args': [lit(x) for x in a], 'kwargs': {}, 'var': var}
    prog = {'seed_world': 4711, 'class_level': False, 'extractor': None, 'params': None, 'opts': {'raise_rate': 0.0}, 'uid': 970001,
            'inputs': [_in('in0', 'thr.a', nparams=2), _in('in1', 'thr.b', nparams=1, kind='static')], 'outputs': [_out('out0', 'thr.out')],
            'body': [{'op': 'threads', 'bodies': [[call('in0', 'a0', shared, 0), call('in1', 'a1', shared)],
                                                  [call('in0', 'b0', shared, 1), call('in1', 'b1', [shared, shared])]]},
                     {'op': 'out', 'decl': 'out0', 'args': [{'var': 'a0'}], 'kwargs': {}, 'var': 'o'}]}
    holder = {}

    def make(sched):
        spy = SpyCassette(InMemoryTapeCassette())
        rec = TapeRecorder(spy)
        rec.enable_recording()
        b = Built(prog, rec, World(4711, raise_rate=0.0, hostile_rate=0.0),
                  thread_factory=lambda target, args, name: sched.Thread(target=target, args=args, name=name))
        holder.update(built=b, spy=spy)
        return lambda: b.run('live')

    def on_run(rec, desc):
        ctx.case(rec.trace, nontrivial=len(rec.points) > 0)
        ctx.count('threaded_recordings_under_scheduler')
        w = {'threaded_under_scheduler': True, 'schedule': desc if isinstance(desc, tuple) else list(desc)}
        if rec.aborted or rec.error is not None:
            if rec.aborted and 'budget' in rec.aborted:
                ctx.count('schedules_over_step_budget')
                return
            ctx.violation('threaded recording: %s' % (rec.aborted or repr(rec.error))[:100], w)
            return
        live, spy = holder['built'], holder['spy']
        saves = [e for e in spy.log if e[0] == 'save']
        if len(saves) != 1 or any(e[0] == 'save_failed' for e in spy.log):
            ctx.violation('fault-free threaded program was not saved exactly once', w)
            return
        rec2 = TapeRecorder(spy.inner)
        rep = Built(prog, rec2, World(1, poison=True), cls_name=live.cls.__name__)
        try:
            pb = rec2.play(saves[0][2], playback_function_for(rep))
        except BaseException as ex:  # noqa
            ctx.violation('replay of a recording made by concurrent worker threads failed with %s' % type(ex).__name__, dict(w, error=repr(ex)[:200]))
            return
        compare_runs(ctx, live, rep, pb, w)
    S.explore_random(make, tg, ctx.budget(80, 5000), ctx.rng, on_run, step_budget=300000)


def callbacks_that_use_intercepted_inputs(ctx):
    """User callbacks the framework runs while it builds a key - the alias parameter resolver, a fallback-aliases function - are service
    code: when they read another intercepted input (a property of the account, a lookup), that read is an interception of the operation
    like any other. Recorded once, replayed against a live system that answers differently: every answer comes from the recording."""
    from playback.tape_recorder import TapeRecorder
    for kind in KINDS[:3]:
        for variant in ('resolver_reads_property', 'resolver_reads_input', 'fallback_function_reads_input'):
            with open_box(kind) as box:
                rec = TapeRecorder(box.cassette)
                rec.enable_recording()
                live = {'region': 'eu', 'tier': 'gold', 'bodies': 0}

                class Account(object):
                    @property
                    @rec.intercept_input('account.region')
                    def region(self):
                        live['bodies'] += 1
                        return live['region']

                    @rec.intercept_input('account.tier')
                    def tier(self):
                        live['bodies'] += 1
                        return live['tier']

                if variant == 'resolver_reads_property':
                    deco = rec.intercept_input('rates.{region}', alias_params_resolver=lambda self, account, product: {'region': account.region})
                elif variant == 'resolver_reads_input':
                    deco = rec.intercept_input('rates.{tier}', alias_params_resolver=lambda self, account, product: {'tier': account.tier()})
                else:
                    deco = rec.intercept_input('rates.current', fallback_aliases=lambda self, account, product: ['rates.' + account.tier()])

                class Pricing(object):
                    @deco
                    def rate(self, account, product):
                        live['bodies'] += 1
                        return {'product': product, 'rate': len(live['region']) + len(live['tier'])}

                    @rec.intercept_output('pricing.publish')
                    def publish(self, quote):
                        return 'published'

                    @rec.operation()
                    def quote(self, product):
                        account = Account()
                        r1 = self.rate(account, product)
                        r2 = self.rate(account, product + '-bulk')
                        self.publish([r1, r2])
                        return [r1, r2]
                recorded = Pricing().quote('widget')
                rid = (box.cassette.get_last_recording_id() if kind == 'memory' else None)
                if rid is None:
                    ids = list(box.reader().iter_recording_ids('Pricing'))
                    rid = ids[0] if len(ids) == 1 else None
                w = {'callbacks_using_inputs': variant, 'cassette': kind}
                ctx.case(w)
                ctx.count('callback_interception_cases')
                if rid is None:
                    ctx.violation('operation whose key callbacks read intercepted inputs was not saved exactly once', w)
                    continue
                live.update(region='us', tier='basic', bodies=0)        # the live system answers differently now
                rec.tape_cassette = box.reader()
                try:
                    pb = rec.play(rid, lambda recording: Pricing().quote('widget'))
                except BaseException as ex:  # noqa
                    ctx.violation('replay of a complete recording on unchanged code failed with %s' % type(ex).__name__, dict(w, error=repr(ex)[:200]))
                    continue
                ctx.count('calls_compared', 2)
                if live['bodies']:
                    ctx.violation('a wrapped body was executed during replay', dict(w, bodies=live['bodies']))
                ro = [o.value for o in pb.recorded_outputs if 'pricing.publish' in o.key]
                po = [o.value for o in pb.playback_outputs if 'pricing.publish' in o.key]
                if not ro or not teq(ro, po) or ro[0]['args'][0] != recorded:
                    ctx.violation('playback output differs from recorded output on unchanged code', dict(w, recorded=repr(ro)[:200], playback=repr(po)[:200]))


def runs_with_service_level_faults(ctx):
    """Recorded runs in which the SERVICE misbehaves at one step (an intercepted body raises an ordinary exception, one that carries a
    resource the serializer cannot encode, returns an unencodable value; the operation itself raises such exceptions) and the
    operation handles it or not. Whatever the recorder saves for such a run as a complete recording is in the property's domain: its
    replay on the same code (same misbehaviour of the code; bodies are not run anyway) must reproduce the recorded run. Runs for which
    nothing is saved, or an incomplete recording, are only counted."""
    from playback.tape_recorder import TapeRecorder
    from vlib import faultruns as fr
    wanted = ('body_raise_user', 'body_raise_unencodable', 'value_unencodable', 'raise_user', 'raise_user_unencodable',
              'raise_user_unencodable_noargs')
    progs = fr.base_programs(ctx.seed + 313, ctx.budget(8, 60))
    idx = 0
    for prog in progs:
        for faults in fr.all_placements(prog, pairs=False):
            if not faults or any(f not in wanted for f in faults.values()):
                continue
            idx += 1
            if not ctx.mine(idx):
                continue
            res = fr.execute(prog, faults, with_twin=False, kind=['memory', 'file', 's3'][idx % 3])
            try:
                w = {'service_level_faults': True, 'gen_seed': prog['gen_seed'], 'program': describe(prog), 'faults': fr.faults_json(faults)}
                ctx.count('runs_with_a_service_level_fault')
                saves = [e for e in res.spy_events if e[0] == 'save']
                if len(saves) != 1 or any(e[0] == 'save_failed' for e in res.spy_events):
                    ctx.count('faulted_runs_for_which_nothing_was_saved')
                    continue
                e = saves[0]
                ro = res.spy.recordings.get(e[1])
                md = getattr(ro, 'recording_metadata', None) or {}
                if md.get(TapeRecorder.INCOMPLETE_RECORDING):
                    ctx.count('faulted_runs_saved_as_incomplete')
                    continue
                if ro is None or not recording_in_domain(getattr(ro, 'recording_data', {}), md):
                    ctx.count('recordings_out_of_serializer_domain')
                    continue
                for _, k in res.live.fault_log:
                    ctx.count('replayed_after_fault_' + k)
                rec2 = TapeRecorder(res.box.reader())
                rep = Built(res.live.prog, rec2, World(1, poison=True), faults=fr.service_faults(faults), cls_name=res.live.cls.__name__)
                try:
                    playback = rec2.play(e[2], playback_function_for(rep))
                except BaseException as ex:  # noqa
                    ctx.violation('replay of a complete recording on unchanged code failed with %s' % type(ex).__name__,
                                  dict(w, error=repr(ex)[:300]))
                    continue
                ctx.case({'p': prog['gen_seed'], 'f': fr.faults_json(faults)}, nontrivial=True)
                ctx.count('faulted_runs_replayed')
                compare_runs(ctx, res.live, rep, playback, w)
            finally:
                fr.close(res)


def run(ctx):
    runs_with_service_level_faults(ctx)
    if ctx.shard == 0:
        callbacks_that_use_intercepted_inputs(ctx)
    threaded_under_scheduler(ctx)
    n = ctx.budget(400, 20000)
    base = ctx.seed * 1000003 + ctx.shard * 1000000
    for i in range(n):
        run_case(ctx, base + i)
    for i in range(ctx.budget(24, 240)):
        run_case(ctx, i, prog=reused_buffer_program(i), world_cls=BufferWorld)
        ctx.count('reused_buffer_cases')
    for i in range(2):
        ctx.sample(describe(gen_program(random.Random(base + i))))
    if not ctx.counters.get('calls_compared'):
        ctx.inconclusive('no intercepted call was compared')


def replay(ctx, w):
    if w.get('service_level_faults'):
        return runs_with_service_level_faults(ctx)
    if w.get('callbacks_using_inputs'):
        return callbacks_that_use_intercepted_inputs(ctx)
    if w.get('reused_buffer'):
        return run_case(ctx, w['case_seed'], w.get('cassette'), prog=reused_buffer_program(w['case_seed']), world_cls=BufferWorld)
    run_case(ctx, w['case_seed'], w.get('cassette'))
