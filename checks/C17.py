"""C17 The sampling policy alone decides which recordings are kept.

Reference-policy monitor: a spy cassette sees create/save/abort per operation, a draw-logging RNG (SpyRandom) sits in
recorder._random / S3TapeCassette._random; every decision is compared with ref_keep(...) using the single logged draw.
"""
import itertools
import math
import random

from vlib import env
from vlib import faultruns as fr
from vlib.cassettes import open_box
from vlib.fakes3 import FakeS3
from vlib.refmodels import ref_keep, UNSPEC
from vlib.spies import SpyCassette, SpyRandom

PROPERTY = 'C17'
LEVEL = 'exploration'
RULE = ('exhaustive decision table: skipped x rate in {0, 0.3, 1, 1.7} x forcing (none | from the operation | from an intercepted body) x ignore-forcing x '
        'discard (none | before the force | after the force) x outcome (return | raise | interrupt) x scripted draw in {0.1, 0.3 (= rate), 0.9}; then seeded '
        'histories of fractional-rate operations run twice with the same seed and as content/outcome-varied pairs, a binomial band on the kept fraction, '
        'mixed-class histories probing force leakage, and the S3 size-based calculator table. A case = one decision; distinct = hash of the table row / '
        '(history seed, index); non-trivial = all.')
ASSUMPTIONS = ['"within the rate" is read inclusively (draw <= rate), probed with a scripted draw equal to the rate',
               'draw counts are only judged for fractional-rate decisions (exactly one draw)']


def table_prog(outcome):
    p = {'seed_world': 5, 'class_level': False, 'extractor': None, 'params': None, 'opts': {'raise_rate': 0.0}, 'uid': 920000 + ['return', 'raise', 'interrupt'].index(outcome),
         'inputs': [{'name': 'in0', 'io': 'in', 'kind': 'instance', 'nparams': 1, 'resolver': None, 'capture': 'all', 'handler': None,
                     'fallback': None, 'run_original': False, 'substitute': ('none',), 'nested': [], 'alias': 's.in'}],
         'outputs': [{'name': 'out0', 'io': 'out', 'kind': 'instance', 'nparams': 1, 'handler': None, 'fail_on_no_result': True, 'default': None,
                      'nested': [], 'alias': 's.out'}],
         'body': [{'op': 'in', 'decl': 'in0', 'args': [{'lit': 1}], 'kwargs': {}, 'var': 'a'},
                  {'op': 'out', 'decl': 'out0', 'args': [{'var': 'a'}], 'kwargs': {}, 'var': 'b'},
                  {'op': 'in', 'decl': 'in0', 'args': [{'lit': 2}], 'kwargs': {}, 'var': 'c'},
                  {'op': 'out', 'decl': 'out0', 'args': [{'lit': 'x'}], 'kwargs': {}, 'var': 'd'}], 'gen_seed': 0}
    return p


def observe(res):
    ev = [e[0] for e in res.spy_events if e[0] in ('create', 'save', 'abort')]
    if not ev:
        return 'none'
    if ev == ['create', 'save']:
        return 'save'
    if ev == ['create', 'abort']:
        return 'abort'
    return 'other:' + ','.join(ev)


def table(ctx):
    idx = 0
    for skipped, rate, forcing, ignore, discard, outcome, draw in itertools.product(
            [False, True], [0, 0.3, 1, 1.7], ['none', 'op', 'body'], [False, True], ['none', 'before', 'after'],
            ['return', 'raise', 'interrupt'], [0.1, 0.3, 0.9]):
        if rate in (1, 1.7) and draw != 0.1:
            continue
        if rate == 0 and draw == 0.3:
            continue
        idx += 1
        if not ctx.mine(idx):
            continue
        faults = {}
        # steps 0..3; force at step 1 (pre-step or inside the body of step 1), discards at step 0 / step 2
        if forcing == 'op':
            faults[('main', 1)] = 'force'
        elif forcing == 'body':
            faults[('main', 1)] = 'body_force'
        if discard == 'before':
            faults[('main', 0)] = 'discard'
        elif discard == 'after':
            faults[('main', 2)] = 'discard'
        if discard == 'after' and (idx % 3 == 0):
            faults[('main', 1)] = faults.get(('main', 1)) or 'disable'    # recording switched off mid-flight, THEN the explicit discard
            if faults[('main', 1)] != 'disable':
                faults[('main', 0)] = 'disable'
            ctx.count('table_rows_with_kill_switch_before_discard')
        if outcome == 'raise':
            faults[('main', 3)] = 'raise_user'
        elif outcome == 'interrupt':
            faults[('main', 3)] = 'raise_interrupt'
        row = {'skipped': skipped, 'rate': rate, 'forcing': forcing, 'ignore_forcing': ignore, 'discard': discard, 'outcome': outcome, 'draw': draw}
        res = fr.execute(table_prog(outcome), faults, rate=rate, ignore_forced=ignore, skipped=skipped, scripted_draws=[draw], with_twin=False)
        try:
            ctx.case(row)
            got = observe(res)
            forced_effective = forcing != 'none' and discard != 'before'   # a force with no active recording is a no-op
            used = res.draws
            exp = ref_keep(skipped, discard != 'none', forced_effective, ignore, rate, used[0] if used else None)
            ctx.count('decisions_compared')
            ctx.count('expected_' + exp)
            fractional = (not skipped and discard == 'none' and not (forced_effective and not ignore) and rate < 1)
            if fractional:
                ctx.count('fractional_decisions')
                if len(used) != 1:
                    ctx.violation('fractional-rate decision consumed %d RNG draws (must be exactly one)' % len(used), {'row': row})
                    continue
                exp = ref_keep(skipped, False, forced_effective, ignore, rate, used[0])
            if got != exp:
                ctx.violation('decision %r differs from the policy (%r)' % (got, exp), {'row': row, 'draws': used})
            if res.recorder.is_recording_sample_forced:
                ctx.violation('forced flag survived the run', {'row': row})
        finally:
            fr.close(res)
    ctx.note('decision_table_rows', idx)
    ctx.exhaustive = True


def rates_outside_the_unit_interval(ctx):
    """Rates below zero and not-a-number (a mis-scaled or missing configuration value): no draw falls within them, so nothing that is
    not forced is kept - the same policy as for every other rate, no special case."""
    for rate in (-0.25, -1, -1e-9, float('nan')):
        for forcing in ('none', 'op'):
            for ignore in (False, True):
                for draw in (0.0, 0.1, 0.9):
                    faults = {('main', 1): 'force'} if forcing == 'op' else {}
                    row = {'rate': repr(rate), 'forcing': forcing, 'ignore_forcing': ignore, 'draw': draw}
                    res = fr.execute(table_prog('return'), faults, rate=rate, ignore_forced=ignore, skipped=False, scripted_draws=[draw], with_twin=False)
                    try:
                        ctx.case(row)
                        got = observe(res)
                        exp = 'save' if (forcing == 'op' and not ignore) else 'abort'
                        ctx.count('decisions_compared')
                        ctx.count('decisions_with_a_rate_outside_the_unit_interval')
                        if got != exp:
                            ctx.violation('decision %r differs from the policy (%r) for a rate no draw can fall within' % (got, exp), {'odd_rate_row': row, 'draws': res.draws})
                    finally:
                        fr.close(res)


def content_prog(variant, i):
    p = table_prog('return')
    p = dict(p, uid=921000 + variant)
    if variant == 1:
        p['body'] = [{'op': 'out', 'decl': 'out0', 'args': [{'lit': ('other content', i)}], 'kwargs': {}, 'var': 'z'}]
    return p


def history(ctx, rate, seed, n, variant):
    """n operations of a class with the given fractional rate on one recorder. -> list of decisions."""
    from playback.tape_recorder import TapeRecorder
    out = []
    with open_box('memory') as box:
        spy = SpyCassette(box.cassette)
        rec = TapeRecorder(spy, random_seed=seed)
        real = rec._random
        sr = SpyRandom()
        sr.setstate(real.getstate())
        rec._random = sr
        rec.enable_recording()
        rng = random.Random(seed * 31 + variant)
        for i in range(n):
            faults = {}
            if variant == 1:
                r = rng.random()
                if r < 0.3:
                    faults = {('main', 0): 'raise_user'}
                elif r < 0.4:
                    faults = {('main', 0): 'raise_interrupt'}
            res = fr.execute(content_prog(variant, i), faults, rate=rate, recorder=rec, spy=spy, box=box, with_twin=False)
            got = observe(res)
            out.append(got)
            ctx.count('history_decisions')
            if len(res.draws) != 1:
                ctx.violation('fractional-rate decision in a history consumed %d draws' % len(res.draws), {'rate': rate, 'seed': seed, 'index': i})
                break
            exp = 'save' if res.draws[0] <= rate else 'abort'
            if got != exp:
                ctx.violation('history decision %r differs from the policy %r' % (got, exp), {'rate': rate, 'seed': seed, 'index': i, 'draw': res.draws[0]})
                break
            ctx.case(('hist', rate, seed, variant, i))
    return out


def histories(ctx):
    n = ctx.budget(600, 20000) if ctx.nshards == 1 else ctx.budget(600 * ctx.nshards, 20000 * 1)
    for rate in (0.3, 0.05, 0.8):
        seed = ctx.seed * 100 + ctx.shard * 7 + int(rate * 100)
        a = history(ctx, rate, seed, n, 0)
        b = history(ctx, rate, seed, n, 0)
        c = history(ctx, rate, seed, n, 1)
        ctx.count('history_pairs_compared', 2)
        if a != b:
            ctx.violation('the same seed gave two different decision sequences', {'rate': rate, 'seed': seed})
        if a != c:
            i = next(i for i, (x, y) in enumerate(zip(a, c)) if x != y) if len(a) == len(c) else -1
            ctx.violation('histories differing only in operation content/outcome gave different decision sequences', {'rate': rate, 'seed': seed, 'first_diff': i})
        kept = a.count('save')
        sigma = math.sqrt(n * rate * (1 - rate))
        ctx.note('kept_fraction_rate_%s' % rate, round(kept / float(n), 4))
        if abs(kept - n * rate) > 5 * sigma + 1:
            ctx.violation('kept fraction %.4f outside the 5-sigma band around rate %.2f over %d operations' % (kept / float(n), rate, n), {'rate': rate, 'seed': seed})


def leakage(ctx):
    """Mixed classes: forcing in one run must not leak into the next run of another class."""
    from playback.tape_recorder import TapeRecorder
    for order in itertools.permutations(['forced_rate0', 'plain_rate0', 'ignore_forced_rate0', 'forced_then_discard'], 3):
        with open_box('memory') as box:
            spy = SpyCassette(box.cassette)
            rec = TapeRecorder(spy)
            rec._random = SpyRandom(1)
            rec.enable_recording()
            for k, what in enumerate(order):
                p = dict(table_prog('return'), uid=922000 + ['forced_rate0', 'plain_rate0', 'ignore_forced_rate0', 'forced_then_discard'].index(what))
                faults = {}
                cfg = {'rate': 0}
                if what.startswith('forced') or what.startswith('ignore'):
                    faults[('main', 1)] = 'force'
                if what == 'ignore_forced_rate0':
                    cfg['ignore_forced'] = True
                if what == 'forced_then_discard':
                    faults[('main', 2)] = 'discard'
                res = fr.execute(p, faults, recorder=rec, spy=spy, box=box, with_twin=False, scripted_draws=[0.5], **cfg)
                got = observe(res)
                exp = 'save' if what == 'forced_rate0' else 'abort'
                ctx.case(('leak', order, k))
                ctx.count('leakage_decisions')
                if got != exp:
                    ctx.violation('mixed-class history: %s decided %r, policy says %r' % (what, got, exp), {'order': order, 'index': k})


def same_class_histories(ctx):
    """One decorated class (its RecordingParameters registered once, as a service does) invoked many times on one recorder:
    forcing, discarding or ignoring in one invocation must not influence the decision of the next invocation of that class."""
    from playback.tape_recorder import TapeRecorder
    steps = ['force', 'plain', 'force_then_discard', 'body_force', 'plain', 'discard', 'plain', 'force', 'force', 'plain']
    for rate, ignore in itertools.product([0, 0.3], [False, True]):
        for rot in range(len(steps)):
            seq = steps[rot:] + steps[:rot]
            with open_box('memory') as box:
                spy = SpyCassette(box.cassette)
                rec = TapeRecorder(spy)
                rec._random = SpyRandom(1)
                rec.enable_recording()
                built = None
                p = dict(table_prog('return'), uid=923000 + int(rate * 10) * 2 + int(ignore))
                for k, what in enumerate(seq):
                    faults = {}
                    if what in ('force', 'force_then_discard'):
                        faults[('main', 1)] = 'force'
                    if what == 'body_force':
                        faults[('main', 1)] = 'body_force'
                    if what in ('discard', 'force_then_discard'):
                        faults[('main', 2)] = 'discard'
                    res = fr.execute(p, faults, recorder=rec, spy=spy, box=box, with_twin=False, scripted_draws=[0.5], rate=rate,
                                     ignore_forced=ignore, built=built)
                    built = res.live
                    got = observe(res)
                    forced = what in ('force', 'body_force') and not ignore
                    exp = 'abort' if what in ('discard', 'force_then_discard') else ('save' if forced else 'abort')   # draw 0.5 > both rates
                    ctx.case(('same-class', rate, ignore, rot, k))
                    ctx.count('same_class_decisions')
                    if got != exp:
                        ctx.violation('same class invoked repeatedly: invocation %d (%s) decided %r, policy says %r' % (k, what, got, exp),
                                      {'rate': rate, 'ignore_forcing': ignore, 'sequence': seq, 'index': k})
                        break


def inherited_operation(ctx):
    """One decorated operation function shared by several classes through inheritance, each class with its own recording
    parameters: the policy of the class the operation RUNS ON decides, in whatever order the classes are invoked."""
    from playback.tape_recorder import TapeRecorder, RecordingParameters
    from vlib import genclasses
    from vlib.programs import Built, World
    variants = {'base': None, 'quiet': dict(skipped=True), 'never': dict(sampling_rate=0.0), 'always': dict(sampling_rate=1.0)}
    expect = {'base': 'save', 'quiet': 'none', 'never': 'abort', 'always': 'save'}
    for order in itertools.permutations(sorted(variants), 3):
        for register_late, register_base in ((False, False), (True, False), (False, True)):
            with open_box('memory') as box:
                spy = SpyCassette(box.cassette)
                rec = TapeRecorder(spy)
                rec._random = SpyRandom(1)
                rec.enable_recording()
                b = Built(dict(table_prog('return'), uid=924000), rec, World(5, raise_rate=0.0))
                classes = {'base': b.cls}
                if register_base:
                    rec.recording_params(RecordingParameters(sampling_rate=1.0))(b.cls)     # the base class has parameters of its own
                for name in ('quiet', 'never', 'always'):
                    classes[name] = genclasses.register(type('Inh%s%d' % (name, 924000), (b.cls,), {}))
                    if not register_late:
                        rec.recording_params(RecordingParameters(**variants[name]))(classes[name])
                base_cls = b.cls
                for k, name in enumerate(order * 2):
                    if register_late and name != 'base' and k < 3:
                        rec.recording_params(RecordingParameters(**variants[name]))(classes[name])   # registered right before its first use
                    n0 = len(spy.log)
                    b.cls = classes[name]
                    b.rearm()
                    rec._random.script = [0.5]
                    b.run('live')
                    ev = [e[0] for e in spy.log[n0:] if e[0] in ('create', 'save', 'abort')]
                    got = 'none' if not ev else ('save' if ev == ['create', 'save'] else ('abort' if ev == ['create', 'abort'] else 'other'))
                    ctx.case(('inherited', order, register_late, register_base, k))
                    ctx.count('inherited_operation_decisions')
                    if got != expect[name]:
                        ctx.violation('operation shared by inheritance: class %r decided %r, its own policy says %r' % (name, got, expect[name]),
                                      {'order': order, 'index': k, 'registered_late': register_late, 'base_registered': register_base})
                        break
                b.cls = base_cls


def s3_calculator(ctx):
    for ratio, draw in itertools.product([0, 0.3, 1, 1.7, 0.999], [0.0, 0.1, 0.3, 0.9]):
        fake = FakeS3()
        seen = []
        with fake.installed():
            def calc(category, size, recording, ratio=ratio):
                seen.append((category, size, recording))
                return ratio
            c = fake.cassette('w', key_prefix='s', read_only=False, sampling_calculator=calc)
            env.anchor(c, '_random')
            sr = SpyRandom(1)
            sr.script = [draw]
            c._random = sr
            rec = c.create_new_recording('Cat')
            rec.set_data('k', 'v' * 50)
            c.save_recording(rec)
            stored = len(fake.log) > 0
            ctx.case(('s3calc', ratio, draw))
            ctx.count('s3_calculator_decisions')
            if ratio >= 1:
                exp = True
            else:
                if len(sr.draws) != 1:
                    ctx.violation('S3 sampling consumed %d draws for ratio %r' % (len(sr.draws), ratio), {'ratio': ratio, 'draw': draw})
                    continue
                exp = sr.draws[0] <= ratio
            if stored != exp:
                ctx.violation('S3 size-based sampling %s the recording, policy says %s' % ('stored' if stored else 'dropped', 'store' if exp else 'drop'),
                              {'ratio': ratio, 'draw': draw})
            if stored and len(fake.log) != 2:
                ctx.violation('S3 sampled save wrote %d objects' % len(fake.log), {'ratio': ratio})
            if len(seen) != 1 or seen[0][0] != 'Cat' or not isinstance(seen[0][1], int) or seen[0][1] <= 0 or seen[0][2] is not rec:
                ctx.violation('S3 sampling calculator was not called once with (category, size, recording)', {'seen': repr(seen)[:200]})
    # one long-lived cassette, a calculator that decides by what the recording SAYS (a flag in its metadata) and by its exact size:
    # recordings of one category and of (nearly) the same size get the ratio the calculator gives for THEM
    for rule in ('by_flag', 'by_exact_size'):
        fake = FakeS3()
        with fake.installed():
            calls = []

            def calc2(category, size, recording):
                calls.append(size)
                if rule == 'by_flag':
                    return 1.0 if recording.get_metadata().get('vip') else 0.0
                return 1.0 if size % 2 == 0 else 0.0
            c = fake.cassette('w', key_prefix='s', read_only=False, sampling_calculator=calc2)
            for i in range(8):
                rec = c.create_new_recording('Cat')
                rec.set_data('k', 'v' * 40 + 'x' * (i % 3))
                rec.add_metadata({'vip': i % 2 == 0, 'i': i})
                n0, c0 = len(fake.log), len(calls)
                c.save_recording(rec)
                stored = len(fake.log) > n0
                ctx.case(('s3calc_long_lived', rule, i))
                ctx.count('s3_calculator_decisions')
                ctx.count('s3_calculator_decisions_on_a_long_lived_cassette')
                if len(calls) == c0 and rule == 'by_exact_size':
                    ctx.count('s3_decisions_without_asking_the_calculator')     # (how often it is asked is not the property; the size is not known then)
                    continue
                exp = (i % 2 == 0) if rule == 'by_flag' else (calls[-1] % 2 == 0)
                if stored != exp:
                    ctx.violation('S3 sampling %s a recording for which the calculator answered %s (long-lived cassette, recording number %d of its category)' % (
                        'stored' if stored else 'dropped', '1.0' if exp else '0.0', i + 1), {'s3_rule': rule, 'i': i})
                    break
    # the calculator may be any callable - also an object that happens to be falsy (an empty rule book derived from dict)
    class RuleBook(dict):
        def __call__(self, category, size, recording):
            return self.get(category, 0.0)
    for book, exp_stored in ((RuleBook(), False), (RuleBook(Cat=1.0), True), (RuleBook(Other=1.0), False)):
        fake = FakeS3()
        with fake.installed():
            c = fake.cassette('w', key_prefix='s', read_only=False, sampling_calculator=book)
            sr = SpyRandom(1)
            sr.script = [0.5]
            c._random = sr
            rec = c.create_new_recording('Cat')
            rec.set_data('k', 1)
            c.save_recording(rec)
            ctx.case(('s3calc_object', len(book), exp_stored))
            ctx.count('s3_calculator_decisions')
            if (len(fake.log) > 0) != exp_stored:
                ctx.violation('S3 size-based sampling with a callable OBJECT as calculator (falsy: %s) %s the recording, its ratio says %s' % (
                    not book, 'stored' if fake.log else 'dropped', 'store' if exp_stored else 'drop'), {'rule_book': dict(book)})
    # reproducible from the seed: the same history on two fresh cassettes (their own, untouched RNG) gives the same decisions
    seqs = []
    for run_no in range(2):
        fake = FakeS3()
        with fake.installed():
            c = fake.cassette('w%d' % run_no, key_prefix='s', read_only=False, sampling_calculator=lambda category, size, recording: 0.5)
            seq = []
            for i in range(60):
                n0 = len(fake.log)
                rec = c.create_new_recording('Cat')
                rec.set_data('k', i)
                c.save_recording(rec)
                seq.append(len(fake.log) > n0)
                ctx.case(('s3repro', run_no, i))
            seqs.append(seq)
    ctx.count('s3_reproducibility_decisions', 120)
    if seqs[0] != seqs[1]:
        ctx.violation('S3 storage-level sampling is not reproducible: the same history on two fresh cassettes kept different recordings',
                      {'first_difference': next(i for i, (a, b) in enumerate(zip(*seqs)) if a != b)})
    if not (5 < sum(seqs[0]) < 55):
        ctx.violation('S3 storage-level sampling with ratio 0.5 kept %d of 60' % sum(seqs[0]), {})
    # ... and in two fresh interpreter processes with different string-hash seeds, for several key prefixes
    import json
    import os
    import subprocess
    import sys
    script = os.path.join(env.VERIF, 'vlib', 's3sampling_probe.py')
    runs = []
    for hs in ('1', '2'):
        try:
            p = subprocess.run([sys.executable, script], stdout=subprocess.PIPE, stderr=subprocess.PIPE, text=True, timeout=300,
                               env=dict(os.environ, VERIF_REPO=env.REPO, PYTHONHASHSEED=hs))
            runs.append(json.loads([l for l in p.stdout.splitlines() if l.startswith('SAMPLING ')][-1][9:]))
        except Exception as ex:
            ctx.inconclusive('S3 sampling probe in a fresh process failed: %r' % (ex,))
    if len(runs) == 2:
        for prefix in sorted(runs[0]):
            ctx.case(('s3repro-processes', prefix))
            ctx.count('s3_reproducibility_decisions', 120)
            if runs[0][prefix] != runs[1][prefix]:
                ctx.violation('S3 storage-level sampling is not reproducible from the seed: two processes (different string-hash seeds) kept different recordings of the '
                              'same history with key prefix %r' % prefix, {'kept': [runs[0][prefix].count('1'), runs[1][prefix].count('1')]})
    # without a calculator everything is stored and no draw is consumed
    fake = FakeS3()
    with fake.installed():
        c = fake.cassette('w', key_prefix='s', read_only=False)
        sr = SpyRandom(1)
        c._random = sr
        rec = c.create_new_recording('Cat')
        c.save_recording(rec)
        ctx.case(('s3calc', None))
        if len(fake.log) != 2 or sr.draws:
            ctx.violation('S3 cassette without calculator did not simply store the recording', {})


def blackbox_histories(ctx):
    """No hook at all: a recorder built with random_seed=s; its decisions for a fractional rate must follow the single stream
    Random(s) (one draw per decision, keep iff draw <= rate), whichever thread each operation runs on - a fresh thread per request,
    a pool of long-lived workers, or the main thread. Operations run strictly one after the other."""
    import threading
    from playback.tape_recorder import TapeRecorder
    n = ctx.budget(120, 3000)
    for mode in ('main', 'thread_per_operation', 'worker_pool', 'forked_worker'):
        for rate in (0.5, 0.2):
            seed = ctx.seed * 1000 + int(rate * 100) + 20240917
            if mode == 'main' and rate == 0.2:
                seed = 0                      # zero is a seed like any other
            model = random.Random(seed)
            got_seq, exp_seq = [], []
            with open_box('memory') as box:
                spy = SpyCassette(box.cassette)
                rec = TapeRecorder(spy, random_seed=seed)
                rec.enable_recording()
                out = {}

                def one(i):
                    res = fr.execute(content_prog(0, i), {}, rate=rate, recorder=rec, spy=spy, box=box, with_twin=False)
                    out[i] = observe(res)
                pool = None
                if mode == 'worker_pool':
                    import queue
                    qs = [queue.Queue() for _ in range(3)]
                    done = threading.Event()

                    def serve(q):
                        while True:
                            i = q.get()
                            if i is None:
                                return
                            one(i)
                            done.set()
                    pool = [threading.Thread(target=serve, args=(q,)) for q in qs]
                    for t in pool:
                        t.start()
                forked = None
                if mode == 'forked_worker':
                    # pre-fork server: the recorder is created (and used) in the master, a worker forked from it serves the rest; its
                    # decisions are the continuation of the seeded stream
                    import json as _json
                    import os as _os
                    split = n // 4
                    for i in range(split):
                        one(i)
                    rfd, wfd = _os.pipe()
                    pid = _os.fork()
                    if pid == 0:
                        try:
                            _os.close(rfd)
                            for i in range(split, n):
                                one(i)
                            _os.write(wfd, _json.dumps([out.get(i) for i in range(split, n)]).encode())
                        finally:
                            _os._exit(0)
                    _os.close(wfd)
                    buf = b''
                    while True:
                        chunk = _os.read(rfd, 65536)
                        if not chunk:
                            break
                        buf += chunk
                    _os.close(rfd)
                    _os.waitpid(pid, 0)
                    try:
                        forked = _json.loads(buf.decode())
                    except ValueError:
                        ctx.inconclusive('the forked worker did not report its decisions')
                        forked = [None] * (n - split)
                    for i, v in enumerate(forked):
                        out[split + i] = v
                    ctx.count('decisions_made_in_a_forked_worker', len(forked))
                for i in range(n):
                    if mode == 'forked_worker':
                        pass
                    elif mode == 'main':
                        one(i)
                    elif mode == 'thread_per_operation':
                        t = threading.Thread(target=one, args=(i,))
                        t.start()
                        t.join()
                    else:
                        done.clear()
                        qs[i % 3].put(i)
                        done.wait(60)
                    got_seq.append(out.get(i))
                    exp_seq.append('save' if model.random() <= rate else 'abort')
                    ctx.case(('blackbox', mode, rate, i))
                    ctx.count('blackbox_decisions')
                if pool:
                    for q in qs:
                        q.put(None)
                    for t in pool:
                        t.join()
            if got_seq != exp_seq:
                i = next(i for i, (a, b) in enumerate(zip(got_seq, exp_seq)) if a != b)
                ctx.violation('decisions of a seeded recorder do not follow Random(seed) when operations run on %s' % mode.replace('_', ' '),
                              {'mode': mode, 'rate': rate, 'seed': seed, 'first_difference': i, 'got': got_seq[i], 'expected': exp_seq[i],
                               'kept': got_seq.count('save'), 'of': n})


def shared_parameters_object(ctx):
    """One RecordingParameters object (the service's DEFAULTS) is handed to several class registrations, some of them with extra
    keywords; classes are registered while others are already in use (a lazily loaded plugin). The policy of a class is what it was
    registered with; registering another class does not change it, and the caller's object is not modified."""
    from playback.tape_recorder import TapeRecorder, RecordingParameters
    from vlib import genclasses
    from vlib.spies import SpyRandom
    for variant, extra in enumerate([dict(skipped=True), dict(sampling_rate=0.0), dict(ignore_enforced_sampling=True), {}]):
        with open_box('memory') as box:
            spy = SpyCassette(box.cassette)
            rec = TapeRecorder(spy)
            rec._random = SpyRandom(17 + variant)
            rec.enable_recording()
            defaults = RecordingParameters(sampling_rate=0.3)
            public = lambda o: dict((k, getattr(o, k)) for k in ('sampling_rate', 'ignore_enforced_sampling', 'skipped', 'copy_data_on_intercepion'))
            before = public(defaults)

            def make(name):
                return genclasses.register(type(name, (object,), {'execute': rec.operation()(lambda self, force: (rec.force_sample_recording() if force else None, 5)[1])}))
            orders = rec.recording_params(defaults)(make('SharedOrders%d' % variant))
            got, exp = [], []

            def run(cls, n, force=False):
                for i in range(n):
                    n0, d0 = len(spy.log), len(rec._random.draws)
                    cls().execute(force)
                    ev = [e[0] for e in spy.log[n0:] if e[0] in ('create', 'save', 'abort')]
                    got.append({('create', 'save'): 'save', ('create', 'abort'): 'abort', (): 'none'}.get(tuple(ev), 'other:' + ','.join(ev)))
                    used = rec._random.draws[d0:]
                    exp.append(ref_keep(False, False, force, False, 0.3, used[0] if used else None))
            run(orders, 12)
            run(orders, 3, force=True)
            plugin = rec.recording_params(defaults, **extra)(make('SharedPlugin%d' % variant))       # registered later, same object (+ keywords)
            plugin().execute(False)
            run(orders, 12)
            run(orders, 3, force=True)
            w = {'shared_parameters_object': True, 'keywords_of_the_later_registration': sorted(extra)}
            ctx.case(w)
            ctx.count('decisions_compared', len(got))
            ctx.count('shared_parameters_histories')
            if got != exp:
                i = next(i for i, (a, b) in enumerate(zip(got, exp)) if a != b)
                ctx.violation('decisions of a class changed when ANOTHER class was registered with the same parameters object (decision %d: %r, policy %r)' % (i, got[i], exp[i]),
                              dict(w, kept=got.count('save'), expected_kept=exp.count('save')))
            if public(defaults) != before:
                ctx.violation('the caller\'s RecordingParameters object was modified by a registration', dict(w, before=repr(before), after=repr(public(defaults))))


def rate_retuned_at_run_time(ctx):
    """The sampling rate of a class is re-tuned at run time on its registered RecordingParameters object (a settings sync): from then on
    decisions follow the new rate - also when the object has already taken part in decisions."""
    from playback.tape_recorder import TapeRecorder, RecordingParameters
    from vlib import genclasses
    from vlib.spies import SpyRandom
    with open_box('memory') as box:
        spy = SpyCassette(box.cassette)
        rec = TapeRecorder(spy)
        rec._random = SpyRandom(29)
        rec.enable_recording()
        params = RecordingParameters(sampling_rate=0.3)
        cls = rec.recording_params(params)(genclasses.register(type('Retuned', (object,), {'execute': rec.operation()(lambda self: 5)})))
        got, exp = [], []
        for phase, rate in enumerate([0.3, 0.0, 1.0, 0.7, 0.3, 2.5]):
            params.sampling_rate = rate
            for i in range(12):
                n0, d0 = len(spy.log), len(rec._random.draws)
                cls().execute()
                ev = [e[0] for e in spy.log[n0:] if e[0] in ('create', 'save', 'abort')]
                got.append({('create', 'save'): 'save', ('create', 'abort'): 'abort'}.get(tuple(ev), 'other:' + ','.join(ev)))
                used = rec._random.draws[d0:]
                exp.append(ref_keep(False, False, False, False, rate, used[0] if used else None))
        ctx.case(('rate_retuned_at_run_time',))
        ctx.count('decisions_compared', len(got))
        ctx.count('decisions_after_the_rate_was_retuned', len(got) - 12)
        if got != exp:
            i = next(i for i, (a, b) in enumerate(zip(got, exp)) if a != b)
            ctx.violation('after the sampling rate was re-tuned on the registered parameters object decision %d is %r, the policy (rate %r) says %r' % (
                i, got[i], [0.3, 0.0, 1.0, 0.7, 0.3, 2.5][i // 12], exp[i]), {'rate_retuned': True, 'kept': got.count('save'), 'expected_kept': exp.count('save')})


def failing_abort(ctx):
    """The cassette fails while it is asked to abort a discarded recording (its connection is down): an explicit discard still wins -
    the recording is not kept, whatever rate and forcing say, and no draw is consumed for it."""
    idx = 0
    for rate, forcing, draw, step in itertools.product([0, 0.3, 1, 1.7], ['none', 'op'], [0.1], [1, 2, 3]):
        idx += 1
        if not ctx.mine(idx):
            continue
        faults = {('main', step): 'discard'}
        if forcing == 'op' and step != 1:
            faults[('main', 1)] = 'force'
        from playback.tape_recorder import TapeRecorder
        from vlib.spies import SpyRandom
        with open_box('memory') as box:
            spy = SpyCassette(box.cassette)
            spy.fail_aborts = True
            rec = TapeRecorder(spy)
            rec._random = SpyRandom(5)
            rec.enable_recording()
            res = fr.execute(table_prog('return'), faults, rate=rate, scripted_draws=[draw], recorder=rec, spy=spy, box=box, with_twin=False)
            row = {'failing_abort': True, 'rate': rate, 'forced': ('main', 1) in faults and faults[('main', 1)] == 'force', 'discard_at_step': step}
            ctx.case(row)
            got = observe(res)
            ctx.count('decisions_with_a_failing_abort')
            if got != 'abort' or res.draws:
                ctx.violation('a discarded recording whose abort failed in the cassette was decided %r (draws consumed: %d); an explicit discard always wins' % (got, len(res.draws)),
                              {'row': row})


def redundant_enable(ctx):
    """enable_recording() called again while it is already enabled and an operation is in flight (a settings sync that becomes due
    mid-request): an idempotent call, the decision for the operation in flight is what the policy says."""
    idx = 0
    for rate, forcing, discard, draw, step in itertools.product([0, 0.3, 1], ['none', 'op'], ['none', 'after'], [0.1, 0.9], [0, 1, 2, 3]):
        if rate == 1 and draw != 0.1:
            continue
        idx += 1
        if not ctx.mine(idx):
            continue
        faults = {('main', step): 'reenable'}
        if forcing == 'op' and step != 1:
            faults[('main', 1)] = 'force'
        if discard == 'after' and step != 2:
            faults[('main', 2)] = 'discard'
        forced, discarded = ('main', 1) in faults and faults[('main', 1)] == 'force', ('main', 2) in faults and faults[('main', 2)] == 'discard'
        row = {'redundant_enable_at_step': step, 'rate': rate, 'forced': forced, 'discard': discarded, 'draw': draw}
        res = fr.execute(table_prog('return'), faults, rate=rate, scripted_draws=[draw], with_twin=False)
        try:
            ctx.case(row)
            got = observe(res)
            used = res.draws
            exp = ref_keep(False, discarded, forced, False, rate, used[0] if used else draw)
            ctx.count('decisions_with_a_redundant_enable')
            if got != exp:
                ctx.violation('decision %r differs from the policy (%r) when enable_recording() is called again mid-operation' % (got, exp), {'row': row, 'draws': used})
        finally:
            fr.close(res)


def explicit_scopes(ctx):
    """The public recording scope opened directly (``with recorder.start_recording(category, {OPERATION_CLASS: cls})``) instead of through
    the operation decorator: the parameters registered for the class named in the metadata decide, exactly as for decorated operations."""
    from playback.tape_recorder import TapeRecorder, RecordingParameters
    from vlib import genclasses
    from vlib.spies import SpyRandom
    idx = 0
    for rate, ignore, forcing, discard, outcome, draw in itertools.product([None, 0, 0.3, 1, 1.7], [False, True], [False, True], [False, True],
                                                                          ['return', 'raise'], [0.1, 0.9]):
        if rate in (None, 1, 1.7) and draw != 0.1:
            continue
        idx += 1
        if not ctx.mine(idx):
            continue
        with open_box('memory') as box:
            spy = SpyCassette(box.cassette)
            rec = TapeRecorder(spy)
            rec._random = SpyRandom(3)
            rec._random.script = [draw]
            rec.enable_recording()
            cls = genclasses.register(type('Scoped%d' % idx, (object,), {}))
            if rate is not None or ignore:
                rec.recording_params(RecordingParameters(sampling_rate=1.0 if rate is None else rate, ignore_enforced_sampling=ignore))(cls)
            try:
                with rec.start_recording('Scoped%d' % idx, {TapeRecorder.OPERATION_CLASS: cls}):
                    rec.record_data('k', idx)
                    if forcing:
                        rec.force_sample_recording()
                    if discard:
                        rec.discard_recording()
                    if outcome == 'raise':
                        raise fr_user_error()
            except fr_user_error:
                pass
            ev = [e[0] for e in spy.log if e[0] in ('create', 'save', 'abort')]
            got = {('create', 'save'): 'save', ('create', 'abort'): 'abort'}.get(tuple(ev), 'other:' + ','.join(ev))
            used = rec._random.draws
            eff_rate = 1.0 if rate is None else rate
            exp = ref_keep(False, discard, forcing, ignore, eff_rate, used[0] if used else None)
            row = {'explicit_scope': True, 'rate': rate, 'ignore_forcing': ignore, 'forced': forcing, 'discard': discard, 'outcome': outcome, 'draw': draw}
            ctx.case(row)
            ctx.count('explicit_scope_decisions')
            if got != exp:
                ctx.violation('decision %r of an explicitly opened recording scope differs from the policy of its class (%r)' % (got, exp), {'row': row, 'draws': used})


from vlib.values import UserError as fr_user_error   # noqa


def s3_lookups_between_saves(ctx):
    """Storage-level sampling is reproducible from the cassette's own seed: the decisions of a save history must not depend on the
    lookups (ordered or random order) the same long-lived cassette serves in between."""
    import datetime as dt
    seqs = {}
    for variant in ('no_lookups', 'ordered_lookups', 'random_lookups'):
        fake = FakeS3()
        with fake.installed():
            fake.now = dt.datetime(2024, 3, 10, 12, 0, 0)
            c = fake.cassette('w', key_prefix='s', read_only=False, sampling_calculator=lambda category, size, recording: 0.5)
            seq = []
            for i in range(ctx.budget(80, 600)):
                n0 = len(fake.log)
                rec = c.create_new_recording('Cat')
                rec.set_data('k', i)
                c.save_recording(rec)
                seq.append(len(fake.log) > n0)
                if variant != 'no_lookups' and i % 3 == 2:
                    list(c.iter_recording_ids('Cat', start_date=dt.datetime(2024, 3, 8), limit=4, random_results=variant == 'random_lookups'))
                    ctx.count('s3_lookups_between_saves')
                ctx.case(('s3lookups', variant, i))
            seqs[variant] = seq
    for variant in ('ordered_lookups', 'random_lookups'):
        if seqs[variant] != seqs['no_lookups']:
            ctx.violation('S3 storage-level sampling decisions changed because the cassette served %s between the saves' % variant.replace('_', ' '),
                          {'first_difference': next(i for i, (a, b) in enumerate(zip(seqs[variant], seqs['no_lookups'])) if a != b),
                           'kept': sum(seqs[variant]), 'kept_without_lookups': sum(seqs['no_lookups'])})


def unusual_operation_shapes(ctx):
    """Black box (rates 0 / 1 and forcing only, no draw involved): (a) the operation class is a METACLASS, so the object the operation runs
    on is itself a class (registry / plugin style: Plugin.refresh()); (b) an operation that, while it is being recorded, replays a stored
    recording of another class on the same recorder (an audit / self-check operation) and then finishes normally."""
    from playback.tape_recorder import TapeRecorder, RecordingParameters
    from vlib import genclasses
    rows = [('default', None, False, 'save'), ('skipped', dict(skipped=True), False, 'none'), ('rate0', dict(sampling_rate=0.0), False, 'abort'),
            ('rate0_forced', dict(sampling_rate=0.0), True, 'save'),
            ('rate0_forced_ignored', dict(sampling_rate=0.0, ignore_enforced_sampling=True), True, 'abort'), ('rate1', dict(sampling_rate=1.0), False, 'save')]
    for shape in ('metaclass', 'nested_play', 'plain'):
        for name, params, force, expect in rows:
            with open_box('memory') as box:
                spy = SpyCassette(box.cassette)
                rec = TapeRecorder(spy)
                rec.enable_recording()
                stored = {}

                class Other(object):
                    @rec.operation()
                    def execute(self):
                        return self.read()

                    @rec.intercept_input('shape.other.read')
                    def read(self):
                        return 'other'
                Other = genclasses.register(type('ShapeOther_%s_%s' % (shape, name), (Other,), {}))
                if shape == 'nested_play':
                    Other().execute()
                    stored['id'] = [e for e in spy.log if e[0] == 'save'][-1][2]

                def body(obj):
                    v = obj.read()
                    if shape == 'nested_play':
                        pb = rec.play(stored['id'], lambda recording: Other().execute())
                        assert pb.playback_outputs is not None
                    if force:
                        rec.force_sample_recording()
                    return v
                if shape == 'metaclass':
                    ns = {'refresh': rec.operation()(lambda cls: body(cls)), 'read': rec.intercept_input('shape.read')(lambda cls: 1)}
                    Meta = genclasses.register(type('ShapeMeta_%s' % name, (type,), ns))
                    if params is not None:
                        rec.recording_params(RecordingParameters(**params))(Meta)
                    target = Meta('ShapePlugin_%s' % name, (object,), {})
                    call = target.refresh
                else:
                    ns = {'refresh': rec.operation()(lambda self: body(self)), 'read': rec.intercept_input('shape.read')(lambda self: 1)}
                    cls = genclasses.register(type('ShapeOp_%s_%s' % (shape, name), (object,), ns))
                    if params is not None:
                        rec.recording_params(RecordingParameters(**params))(cls)
                    call = cls().refresh
                for k in range(3):
                    n0 = len(spy.log)
                    try:
                        call()
                    except Exception as ex:
                        ctx.violation('operation of shape %s raised %s' % (shape, type(ex).__name__), {'shape': shape, 'row': name, 'error': repr(ex)[:200]})
                        break
                    ev = [e[0] for e in spy.log[n0:] if e[0] in ('create', 'save', 'abort')]
                    got = 'none' if not ev else ('save' if ev == ['create', 'save'] else ('abort' if ev == ['create', 'abort'] else 'other:' + ','.join(ev)))
                    ctx.case(('shape', shape, name, k))
                    ctx.count('unusual_shape_decisions')
                    if got != expect:
                        ctx.violation('operation shape %r with policy %r: decision %r, the policy says %r' % (shape, name, got, expect),
                                      {'shape': shape, 'row': name, 'index': k})
                        break


def collected_classes(ctx):
    """A long-lived recorder in a process that creates operation classes on the fly and drops them again (plugins, tenants): a class
    without recording parameters gets the default policy whatever classes existed - and were configured - before it."""
    import gc
    from playback.tape_recorder import TapeRecorder, RecordingParameters
    with open_box('memory') as box:
        spy = SpyCassette(box.cassette)
        rec = TapeRecorder(spy)
        rec.enable_recording()

        def make(name, params):
            ns = {'execute': rec.operation()(lambda self: self.read()), 'read': rec.intercept_input('gc.read')(lambda self: 1)}
            cls = type(name, (object,), ns)
            if params is not None:
                rec.recording_params(RecordingParameters(**params))(cls)
            return cls

        def decision(cls):
            n0 = len(spy.log)
            cls().execute()
            ev = [e[0] for e in spy.log[n0:] if e[0] in ('create', 'save', 'abort')]
            return 'none' if not ev else ('save' if ev == ['create', 'save'] else ('abort' if ev == ['create', 'abort'] else 'other'))
        for rnd in range(ctx.budget(40, 400)):
            params = [dict(skipped=True), dict(sampling_rate=0.0), dict(sampling_rate=0.0, ignore_enforced_sampling=True)][rnd % 3]
            plugin = make('Plugin%d' % rnd, params)
            got = decision(plugin)
            exp = 'none' if params.get('skipped') else 'abort'
            ctx.case(('collected', rnd, 'configured'))
            ctx.count('collected_class_decisions')
            if got != exp:
                ctx.violation('configured on-the-fly class decided %r, its policy says %r' % (got, exp), {'round': rnd})
                return
            del plugin
            gc.collect()
            fresh_cls = make('Fresh%d' % rnd, None)
            got = decision(fresh_cls)
            ctx.case(('collected', rnd, 'fresh'))
            ctx.count('collected_class_decisions')
            if got != 'save':
                ctx.violation('a class without recording parameters, created after a configured class was dropped and collected, decided %r instead of the '
                              'default (keep)' % got, {'round': rnd})
                return
            del fresh_cls
            gc.collect()


def run(ctx):
    from playback.tape_recorder import TapeRecorder
    if ctx.shard == 0:
        unusual_operation_shapes(ctx)
        collected_classes(ctx)
        blackbox_histories(ctx)          # needs no access to internals: runs before the parts that install a draw-logging RNG
        s3_lookups_between_saves(ctx)
    env.anchor(TapeRecorder, '_should_sample_active_recording')
    from playback.tape_cassettes.in_memory.in_memory_tape_cassette import InMemoryTapeCassette
    env.anchor(TapeRecorder(InMemoryTapeCassette()), '_random')      # the draw-logging RNG is installed under this name
    from playback.tape_cassettes.s3.s3_tape_cassette import S3TapeCassette
    env.anchor(S3TapeCassette, '_should_sample')
    table(ctx)
    if ctx.shard == 0:
        shared_parameters_object(ctx)
    redundant_enable(ctx)
    if ctx.shard == 0:
        rate_retuned_at_run_time(ctx)
    failing_abort(ctx)
    explicit_scopes(ctx)
    histories(ctx)
    if ctx.shard == 0:
        leakage(ctx)
        same_class_histories(ctx)
        inherited_operation(ctx)
        s3_calculator(ctx)
        rates_outside_the_unit_interval(ctx)
    ctx.sample({'row': {'skipped': False, 'rate': 0.3, 'forcing': 'body', 'ignore_forcing': True, 'discard': 'none', 'outcome': 'interrupt', 'draw': 0.3},
                'expected': 'save (forcing ignored, draw 0.3 <= rate 0.3)'})
    if not ctx.counters.get('decisions_compared'):
        ctx.inconclusive('no decision compared')


def replay(ctx, w):
    if w.get('odd_rate_row'):
        return rates_outside_the_unit_interval(ctx)
    if w.get('rate_retuned'):
        return rate_retuned_at_run_time(ctx)
    if isinstance(w.get('row'), dict) and w['row'].get('failing_abort'):
        return failing_abort(ctx)
    if w.get('shared_parameters_object'):
        return shared_parameters_object(ctx)
    if isinstance(w.get('row'), dict) and 'redundant_enable_at_step' in w['row']:
        return redundant_enable(ctx)
    if isinstance(w.get('row'), dict) and w['row'].get('explicit_scope'):
        return explicit_scopes(ctx)
    table(ctx)
