"""C18 Recording metadata tells the truth about the run.

Journal-vs-metadata monitor: the client-side journal knows how the run ended, how long the body ran, and what the
extractor returned; the spy cassette captures the metadata handed over at save time; the default lookup is asked
which recordings it would play.
"""
import datetime
import random

from vlib import env
from vlib import faultruns as fr
from vlib.programs import describe, gen_program

from vlib.values import recording_in_domain

PROPERTY = 'C18'
LEVEL = 'fault_enumeration'
RULE = ('base programs (instance and class-level operations, hostile output aliases, some with a 5-20 ms sleep) x termination '
        '{return, ordinary exception, interrupt-style exception} placed before every step and inside every intercepted body x extractor '
        '{none, ok, raises, returns None / 5 / "xy" / a list with a bad element}; per program all runs share one cassette and the default '
        'lookup is compared with the set of complete recordings. A case = one run; distinct = hash of (program, placement, extractor); '
        'non-trivial = a recording was saved.')
ASSUMPTIONS = ['duration bracket: [time inside the operation body - 5 ms, wall time around the decorated call + 5 ms], same clock (time.time)',
               'timestamp bracket: harness utcnow() before/after the call', 'exception-in-operation is only judged for runs that were not cut short']

import contextlib

EPS = 0.005
TERMINATIONS = [None, 'raise_user', 'raise_interrupt', 'body_raise_user', 'body_raise_interrupt']


EXTRACTORS = fr.EXTRACTORS + ['ok_shares_with_data', 'ok_then_unencodable']


def expected_user(extractor):
    exp = {'u_tag': 'live', 'u_n': 3}
    if extractor == 'ok_shares_with_data':
        exp['u_rows'] = ['row', 1, 'of the run']
    return exp


def judge_metadata(ctx, res, md, w, extractor):
    from playback.tape_recorder import TapeRecorder as TR
    j = res.live.journal
    body = [e for e in j.events if e['ev'] == 'op_body'][0]
    raised = body.get('raised')
    from playback.exceptions import TapeRecorderException
    # (an exception of the framework's own family that escapes from the operation is passed through as a framework failure: no result
    #  is produced - the run was cut short)
    framework_error = isinstance(raised, TapeRecorderException)
    interrupted = raised is not None and (not isinstance(raised, Exception) or framework_error)
    ordinary = isinstance(raised, Exception) and not framework_error
    ctx.count('metadata_checked')
    ctx.count('runs_interrupted' if interrupted else ('runs_raising' if ordinary else 'runs_returning'))
    # class
    if md.get(TR.OPERATION_CLASS) is not res.live.cls:
        ctx.violation('metadata does not state the operation class', dict(w, got=repr(md.get(TR.OPERATION_CLASS))))
    # duration
    d = md.get(TR.DURATION)
    inner = body['t_end'] - body['t']
    outer = res.t_after - res.t_before
    ctx.maximum('max_body_seconds', inner)
    if not isinstance(d, float) or d < 0 or d < inner - EPS or d > outer + EPS:
        ctx.violation('duration %r not within [time inside the body %.4f, wall time around the call %.4f]' % (d, inner, outer), w)
    # timestamp
    ts = md.get(TR.RECORDED_AT)
    try:
        t = datetime.datetime.strptime(ts, '%Y-%m-%d %H:%M:%S.%f') if '.' in ts else datetime.datetime.strptime(ts, '%Y-%m-%d %H:%M:%S')
        lo = res.utc_before.replace(microsecond=0) if w.get('coarse_clock') else res.utc_before       # (a clock that ticks in whole seconds)
        if not (lo - datetime.timedelta(seconds=EPS) <= t <= res.utc_after + datetime.timedelta(seconds=EPS)):
            ctx.violation('recording timestamp %s outside the UTC bracket of the run' % ts, w)
    except Exception:
        ctx.violation('recording timestamp %r is not a UTC timestamp' % (ts,), w)
    # incomplete
    inc = md.get(TR.INCOMPLETE_RECORDING)
    if inc is not interrupted and inc != interrupted:
        ctx.violation('incomplete flag is %r for a run that %s' % (inc, 'was terminated by an interrupt-style exception' if interrupted else
                                                                    ('raised an ordinary exception' if ordinary else 'returned')), w)
    # exception flag (only for runs not cut short)
    if not interrupted:
        exf = md.get(TR.EXCEPTION_IN_OPERATION)
        if exf is not ordinary and exf != ordinary:
            ctx.violation('exception-in-operation flag is %r for a run that %s' % (exf, 'raised' if ordinary else 'returned'), w)
    # user metadata
    user = {k: v for k, v in md.items() if isinstance(k, str) and k.startswith('u_')}
    ran = [e for e in j.events if e['ev'] == 'extractor']
    if extractor in ('ok', 'ok_calls_output', 'ok_live_mapping', 'ok_shares_with_data'):
        if user != expected_user(extractor):
            ctx.violation('user metadata differs from what the extractor returned', dict(w, got=repr(user)))
        ctx.count('extractor_ok_checked')
    elif extractor == 'ok_then_unencodable':
        # whatever the framework does with a value it cannot encode: the user's metadata is there completely or not at all
        ctx.count('extractor_partly_unencodable_checked')
        if user and set(user) != {'u_tag', 'u_n', 'u_conn', 'u_last'}:
            ctx.violation('only a part of the user metadata was kept (one of its values cannot be encoded): all of it, or none', dict(w, got=sorted(user)))
    else:
        if user:
            ctx.violation('user metadata keys present although the extractor %s' % ('is absent' if extractor is None else 'failed (%s)' % extractor),
                          dict(w, got=repr(user)))
        if extractor is not None:
            ctx.count('extractor_failure_checked')
    if extractor is not None and len(ran) != 1:
        ctx.violation('extractor called %d times' % len(ran), w)
    return interrupted


@contextlib.contextmanager
def coarse_clock(on):
    """The host's clock ticks in whole seconds (a coarse / simulated / frozen clock): utcnow() never has a fraction."""
    if not on:
        yield
        return
    import playback.tape_recorder as tr
    real = tr.datetime

    class WholeSeconds(real):
        @classmethod
        def utcnow(cls):
            return real.utcnow().replace(microsecond=0)

        @classmethod
        def now(cls, tz=None):
            return real.now(tz).replace(microsecond=0)
    tr.datetime = WholeSeconds
    try:
        yield
    finally:
        tr.datetime = real


def run_program(ctx, prog, rng, pidx):
    with coarse_clock(pidx % 5 == 2):
        if pidx % 5 == 2:
            ctx.count('programs_on_a_clock_that_ticks_in_whole_seconds')
        return _run_program(ctx, prog, rng, pidx)


def _run_program(ctx, prog, rng, pidx):
    from playback.tape_recorder import TapeRecorder
    from playback.studio.recordings_lookup import find_matching_recording_ids, RecordingLookupProperties
    from vlib.cassettes import open_box
    from vlib.spies import SpyCassette, SpyRandom
    nested = {'rid': None, 'rec': None}
    if pidx % 4 == 2 and not prog.get("with_inner_operation"):
        # an audit-style operation: it does some work, replays a stored recording of itself on the same recorder (a self-check), then does the rest
        def nested_replay(built):
            rec_ = nested['rec']
            if nested['rid'] is None or rec_ is None or rec_.in_playback_mode:
                return
            from vlib.programs import Built as _B, World as _W, playback_function_for as _pf
            from vlib import genclasses as _gc
            try:
                rec_.play(nested['rid'], _pf(_B(built.prog, rec_, _W(1, poison=True), cls_name=built.cls.__name__)))
            except BaseException:  # noqa
                pass
            finally:
                _gc.register(built.cls)
            nested['count'] = nested.get('count', 0) + 1
        prog = dict(prog, body=[{'op': 'sleep', 's': 0.03}, {'op': 'py', 'fn': nested_replay}] + list(prog['body']))
    trace = fr.dry_trace(prog)
    placements = [{}]
    for pos, op, dn in trace:
        if pos[0] != 'main':
            continue
        placements.append({pos: 'raise_user'})
        placements.append({pos: 'raise_interrupt'})
        placements.append({pos: 'disable'})                          # kill switch mid-flight, run still returns / raises normally
        placements.append({pos: 'disable', trace[-1][0]: 'raise_user'} if trace[-1][0] != pos else {pos: 'disable'})
        if op in ('in', 'out'):
            placements.append({pos: 'body_raise_user'})
            placements.append({pos: 'body_raise_interrupt'})
        if pos == trace[-1][0]:
            placements.append({pos: 'raise_framework_error'})
        if pos in (trace[0][0], trace[-1][0]):
            # an ordinary exception the serializer cannot encode (it carries a live resource), raised with a message and without arguments
            placements.append({pos: 'raise_user_unencodable'})
            placements.append({pos: 'raise_user_unencodable_noargs'})
    kind = ('memory', 'file', 's3')[pidx % 3]
    with open_box(kind) as box:
        spy = SpyCassette(box.cassette)
        if pidx % 4 == 3:
            # the service uses its own subclass of the recorder and redefines public class constants of it
            class ServiceRecorder(TapeRecorder):
                OPERATION_OUTPUT_ALIAS = 'service_operation'
                INCOMPLETE_RECORDING = TapeRecorder.INCOMPLETE_RECORDING
            rec = ServiceRecorder(spy)
            ctx.count('programs_on_a_recorder_subclass')
        else:
            rec = TapeRecorder(spy)
        rec._random = SpyRandom(3)
        rec.enable_recording()
        complete_ids, incomplete_ids = [], []
        nested['rec'] = rec
        poisoned = set()
        # the service class is invoked again and again: one class for all runs with an extractor configured (its behaviour varies
        # from run to run), one for the runs without an extractor
        builts = {}
        if prog.get('with_inner_operation'):
            from vlib.programs import Built, World
            from playback.tape_recorder import RecordingParameters
            inner_prog = dict(gen_c18_program(prog['gen_seed'] + 7), uid=prog['uid'] + 500000, params={'skipped': True}, with_inner_operation=False)
            inner_prog['body'] = [st for st in inner_prog['body'] if st['op'] != 'inner_op']
            prog['_inner_built'] = Built(inner_prog, rec, World(inner_prog['seed_world'], raise_rate=0.0))
        run_no = [0]
        for faults in placements:
            for extractor in ([rng.choice(EXTRACTORS)] if ctx.quick and len(placements) > 12 else EXTRACTORS):
                bk = extractor is not None
                # the operation is called from ordinary code, or from a compensating path (except / finally block) of its caller
                cc = rng.choice(fr.CALLER_CONTEXTS) if rng.random() < 0.5 else 'plain'
                ctx.count('called_from_' + cc)
                run_no[0] += 1
                main_pos = [pos for pos, op, dn in trace if pos[0] == 'main']
                if run_no[0] % 6 == 2 and main_pos:
                    # the request served just before on this recorder discarded its recording in mid-operation and then completed
                    # normally: nothing of it is saved, and the metadata of the NEXT run tells the truth about the next run
                    pre = fr.execute(prog, {main_pos[len(main_pos) // 2]: 'discard'}, extractor=extractor, recorder=rec, spy=spy, box=box, with_twin=False,
                                     built=builts.get(bk), cls_name='GenOp%d%s' % (prog['uid'], 'X' if bk else 'N'))
                    builts[bk] = pre.live
                    ctx.count('runs_right_after_a_run_that_discarded_its_recording')
                res = fr.execute(prog, faults, extractor=extractor, recorder=rec, spy=spy, box=box, with_twin=False, built=builts.get(bk),
                                 cls_name='GenOp%d%s' % (prog['uid'], 'X' if bk else 'N'), caller_context=cc)
                builts[bk] = res.live
                w = {'gen_seed': prog['gen_seed'], 'program': describe(prog), 'faults': fr.faults_json(faults), 'extractor': extractor, 'cassette': kind,
                     'caller_context': cc, 'zone': __import__('os').environ.get('TZ'), 'coarse_clock': pidx % 5 == 2}
                saves = [e for e in res.spy_events if e[0] == 'save']
                ctx.case({'p': prog['gen_seed'], 'f': fr.faults_json(faults), 'x': extractor}, nontrivial=bool(saves))
                if len(saves) != 1:
                    ctx.violation('run with rate 1 and no capture fault was saved %d times' % len(saves), w)
                    continue
                md = saves[0][4]
                interrupted = judge_metadata(ctx, res, md, w, extractor)
                # structurally: a recording that is not flagged incomplete holds the result of its operation
                from playback.tape_recorder import TapeRecorder as _TR
                has_result = any(k.startswith('output: ' + a + ' ') for k in (saves[0][3] or []) for a in set([_TR.OPERATION_OUTPUT_ALIAS, type(rec).OPERATION_OUTPUT_ALIAS]))
                ctx.count('completeness_flags_compared_with_content')
                if not md.get(_TR.INCOMPLETE_RECORDING) and not has_result:
                    ctx.violation('a recording that holds no operation result is not flagged incomplete', dict(w, keys=(saves[0][3] or [])[:4]))
                if any(e[0] == 'save_failed' for e in res.spy_events):
                    continue
                (incomplete_ids if interrupted else complete_ids).append((res.live.cls.__name__, saves[0][2]))
                if not interrupted and not faults and nested["rid"] is None and pidx % 4 == 2:
                    nested['rid'] = saves[0][2]            # from now on the operation replays this recording of itself before it ends
                if not interrupted and rng.random() < 0.3:
                    # the long-lived recorder also replays between its recordings (a self-check, a studio run in the same process)
                    from vlib.programs import Built as _B, World as _W, playback_function_for as _pf
                    try:
                        rec.play(saves[0][2], _pf(_B(res.live.prog, rec, _W(1, poison=True), cls_name=res.live.cls.__name__)))
                    except BaseException:  # noqa - whatever the replay does, the next run's metadata must tell the truth
                        pass
                    finally:
                        from vlib import genclasses as _gc
                        _gc.register(res.live.cls)      # (the replay built its own class object under the same importable name)
                    ctx.count('replays_between_recorded_runs')
                ro = spy.recordings.get(saves[0][1])
                if ro is None or not recording_in_domain(getattr(ro, 'recording_data', {}), getattr(ro, 'recording_metadata', {})):
                    # the third-party serializer does not restore this recording faithfully (or at all): what is read back is not judged,
                    # nor are listings of its category (the in-memory / file cassettes decode every recording of the category)
                    ctx.count('recordings_out_of_serializer_domain')
                    poisoned.add(res.live.cls.__name__)
                    continue
                # what is stored must say the same as what was handed over
                try:
                    from playback.tape_recorder import TapeRecorder as TR
                    rd = box.reader()
                    for view, stored in (('metadata fetched on its own', rd.get_recording_metadata(saves[0][2])),
                                         ('metadata of the fetched recording', rd.get_recording(saves[0][2]).get_metadata())):
                        ctx.count('stored_metadata_views_checked')
                        for k in (TR.INCOMPLETE_RECORDING, TR.EXCEPTION_IN_OPERATION, TR.DURATION, TR.RECORDED_AT):
                            if stored.get(k) != md.get(k):
                                ctx.violation('stored metadata (%s) differs from the metadata handed to the cassette' % view, dict(w, key=k))
                        if stored.get(TR.OPERATION_CLASS) is not res.live.cls:
                            ctx.violation('stored metadata (%s) does not state the operation class' % view, w)
                        if extractor in ('ok', 'ok_calls_output', 'ok_live_mapping', 'ok_shares_with_data'):
                            user = {k: v for k, v in stored.items() if isinstance(k, str) and k.startswith('u_')}
                            ctx.count('stored_user_metadata_checked')
                            if user != expected_user(extractor):
                                ctx.violation('stored user metadata (%s) differs from what the extractor returned' % view, dict(w, got=repr(user)[:200]))
                except Exception as ex:
                    ctx.violation('stored metadata not readable: %s' % type(ex).__name__, w)
        if nested.get('count'):
            ctx.count('runs_with_a_nested_replay_before_they_end', nested['count'])
        # default lookup excludes exactly the incomplete ones
        reader_rec = TapeRecorder(box.reader())
        for category in sorted(set(c for c, _ in complete_ids + incomplete_ids)):
            if category in poisoned:
                ctx.count('lookups_skipped_for_out_of_domain_recordings')
                continue
            comp = [i for c, i in complete_ids if c == category]
            inc = [i for c, i in incomplete_ids if c == category]
            got = list(find_matching_recording_ids(reader_rec, category, RecordingLookupProperties(start_date=None)))
            ctx.count('default_lookups')
            ctx.count('lookup_ids_compared', len(comp) + len(inc))
            if sorted(got) != sorted(comp):
                ctx.violation('default lookup returned %d ids; %d complete and %d incomplete recordings were saved' % (len(got), len(comp), len(inc)),
                              {'gen_seed': prog['gen_seed'], 'program': describe(prog), 'cassette': kind,
                               'wrongly_included': len(set(got) & set(inc)), 'wrongly_excluded': len(set(comp) - set(got))})


def gen_c18_program(seed):
    rng = random.Random(seed)
    p = gen_program(rng, threads=False, max_steps=4, max_in_decls=2, max_out_decls=2, explicit_raise=0.15, raise_rate=0.1, handlers=False,
                    nested=False, record_data=False, extractor=False)
    p['gen_seed'] = seed
    p['params'] = None
    fr.returns_error_object(p, random.Random(seed + 3), rate=0.15)
    p['with_inner_operation'] = rng.random() < 0.3
    if p['with_inner_operation']:
        p['body'].insert(rng.randrange(len(p['body'])) if p['body'] else 0, {'op': 'inner_op'})
    if rng.random() < 0.3:
        # the service records a datum under a key that some storage formats reserve
        p['body'].insert(0, {'op': 'record_data', 'key': '_metadata', 'value': {'lit': {'user': 'blob'}}})
    if p['outputs'] and rng.random() < 0.4:
        # an output alias that merely CONTAINS the framework's own operation-output alias
        p['outputs'][0]['alias'] = rng.choice(['my_tape_recorder_operation_log', 'audit_tape_recorder_operation'])
    if rng.random() < 0.4:
        p['body'].insert(rng.randrange(len(p['body']) + 1) if p['body'] and p['body'][-1]['op'] not in ('return', 'raise') else 0,
                         {'op': 'sleep', 's': rng.choice([0.005, 0.01, 0.02])})
    return p


@contextlib.contextmanager
def process_zone(zone):
    import os
    import time
    old = os.environ.get('TZ')
    if zone is not None:
        os.environ['TZ'] = zone
        time.tzset()
    try:
        yield
    finally:
        if zone is not None:
            if old is None:
                os.environ.pop('TZ', None)
            else:
                os.environ['TZ'] = old
            time.tzset()


class _LiveHandle(object):
    """A value that holds a live resource (a lock guarding its rows): it cannot be copied."""

    def __init__(self, rows):
        import threading
        self.rows = rows
        self.guard = threading.Lock()


class _RefusesCopy(object):
    def __init__(self, rows):
        self.rows = rows

    def __deepcopy__(self, memo):
        raise RuntimeError('this object must not be copied')


def operations_with_values_that_cannot_be_copied(ctx):
    """Operation classes with and without copy-on-interception whose run RETURNS normally while handling values that cannot be copied
    (a handle holding a lock, an object refusing copies, a generator): as the result, as an argument of an output, as the value of an
    input. Judged: whatever is saved for such a run says 'not incomplete', 'no exception', and a non-negative duration. The cassette
    is a user-written one that keeps recording objects as they are, and the in-memory one (runs it does not save are only counted)."""
    from playback.recordings.memory.memory_recording import MemoryRecording
    from playback.tape_cassette import TapeCassette
    from playback.tape_cassettes.in_memory.in_memory_tape_cassette import InMemoryTapeCassette
    from playback.tape_recorder import TapeRecorder, RecordingParameters

    class KeepObjects(TapeCassette):
        def __init__(self):
            self.saved, self.order = {}, []

        def get_recording(self, recording_id):
            return self.saved[recording_id]

        def create_new_recording(self, category):
            return MemoryRecording(u'%s/%d' % (category, len(self.order) + 1))

        def _save_recording(self, recording):
            self.saved[recording.id] = recording
            self.order.append(recording.id)

        def iter_recording_ids(self, category, start_date=None, end_date=None, metadata=None, limit=None, random_results=False):
            return iter([i for i in self.order if i.split('/')[0] == category])

        def extract_recording_category(self, recording_id):
            return recording_id.split('/')[0]

    makers = {'lock_holder': lambda: _LiveHandle([0, 1, 2]), 'refuses_copy': lambda: _RefusesCopy([1]), 'generator': lambda: (x for x in [1, 2]),
              'plain': lambda: {'rows': [1, 2]}}
    for cname in ('keep_objects', 'in_memory'):
        for copy_flag in (True, False, None):
            for vname in sorted(makers):
                for where in ('result', 'output_argument', 'input_value', 'raised_after_output'):
                    cassette = KeepObjects() if cname == 'keep_objects' else InMemoryTapeCassette()
                    from vlib.spies import SpyCassette
                    spy = SpyCassette(cassette)
                    rec = TapeRecorder(spy)
                    rec.enable_recording()
                    make = makers[vname]

                    class Service(object):
                        @rec.intercept_input('cp.load')
                        def load(self):
                            return make() if where == 'input_value' else [1]

                        @rec.intercept_output('cp.send')
                        def send(self, x):
                            return 'sent'

                        @rec.operation()
                        def execute(self):
                            v = self.load()
                            self.send(make() if where in ('output_argument', 'raised_after_output') else 'x')
                            if where == 'raised_after_output':
                                raise KeyError('ordinary failure')
                            return make() if where == 'result' else 'done'
                    if copy_flag is not None:
                        Service = rec.recording_params(RecordingParameters(copy_data_on_intercepion=copy_flag))(Service)
                    w = {'uncopyable_values': True, 'cassette': cname, 'copy_on_interception': copy_flag, 'value': vname, 'where': where}
                    ctx.case(w, nontrivial=True)
                    try:
                        Service().execute()
                        raised = False
                    except KeyError:
                        raised = True
                    if raised != (where == 'raised_after_output'):
                        ctx.count('uncopyable_value_runs_whose_outcome_changed')       # (transparency is C04's subject)
                        continue
                    saves = [e for e in spy.log if e[0] == 'save']
                    if len(saves) != 1 or any(e[0] == 'save_failed' for e in spy.log):
                        ctx.count('uncopyable_value_runs_not_saved')
                        continue
                    md = saves[0][4] or {}
                    ctx.count('metadata_checked')
                    ctx.count('uncopyable_value_runs_judged')
                    if md.get(TapeRecorder.INCOMPLETE_RECORDING) is not False:
                        ctx.violation('operation %s but its recording is flagged incomplete (%r)' % ('raised an ordinary exception' if raised else 'returned',
                                                                                                   md.get(TapeRecorder.INCOMPLETE_RECORDING)), w)
                    if md.get(TapeRecorder.EXCEPTION_IN_OPERATION) is not raised:
                        ctx.violation('exception flag of a run that was not cut short is %r, the operation %s' % (
                            md.get(TapeRecorder.EXCEPTION_IN_OPERATION), 'raised' if raised else 'returned'), w)
                    dur = md.get(TapeRecorder.DURATION)
                    if not isinstance(dur, (int, float)) or dur < 0:
                        ctx.violation('duration of a finished run is %r' % (dur,), w)


def run(ctx):
    if ctx.shard == 0:
        operations_with_values_that_cannot_be_copied(ctx)
    n = 9 if ctx.quick else 160
    base = (ctx.seed + 1) * 104729
    rng = ctx.rng
    for i in range(n):
        if not ctx.mine(i):
            continue
        prog = gen_c18_program(base + i)
        if i % 5 == 1 and not prog.get('returns_error_object'):
            fr.returns_error_object(prog, random.Random(base + i), rate=1.0)       # every fifth operation returns (does not raise) an error object
        if i % 3 == 2 and i % 2 == 0 and not any(st['op'] == 'record_data' for st in prog['body']):
            # (S3 programs: every second one records a datum under the key the S3 layout reserves)
            prog['body'].insert(0, {'op': 'record_data', 'key': '_metadata', 'value': {'lit': {'user': 'blob'}}})
        # the recording process does not always run in UTC
        zone = [None, 'Asia/Tokyo', None, 'America/Los_Angeles', None, 'Asia/Kolkata'][i % 6]
        with process_zone(zone):
            ctx.count('programs_in_zone_%s' % (zone or 'UTC'))
            run_program(ctx, prog, rng, i)
        if i < 2:
            ctx.sample({'program': describe(prog), 'terminations': TERMINATIONS, 'extractors': fr.EXTRACTORS})
    if not ctx.counters.get('metadata_checked'):
        ctx.inconclusive('no saved metadata was checked')


def replay(ctx, w):
    if w.get('uncopyable_values'):
        return operations_with_values_that_cannot_be_copied(ctx)
    prog = gen_c18_program(w['gen_seed'])
    if w.get('cassette') == 's3' and not any(st['op'] == 'record_data' for st in prog['body']):
        prog['body'].insert(0, {'op': 'record_data', 'key': '_metadata', 'value': {'lit': {'user': 'blob'}}})
    with process_zone(w.get('zone')):
        run_program(ctx, prog, random.Random(0), {'memory': 0, 'file': 1, 's3': 2}.get(w.get('cassette'), 0))
