"""C19 The studio plays each recording once under its own category's tuning.

Token-attribution monitor: every playback function / extractor / comparator created by the tuner journals
(category it was created for, token of the recording it was handed); tokens name the category they were recorded in.
"""
import datetime
import random

from vlib import env, genclasses
from vlib.cassettes import open_box
from vlib.values import InterruptLike

class _StudioFailed(Exception):
    pass


PROPERTY = 'C19'
LEVEL = 'exploration'
RULE = ('seeded studios: 2-5 categories drawn from Op / OpX / Op_x / Op_x_y / A / B (prefixes of each other, underscores), 0-6 recordings each (some '
        'incomplete), on memory / file / S3-on-fake cassettes; explicit id lists in random order and lookup-driven selection; tuner failing for a random subset '
        '(all 2^n subsets for n <= 3 in thorough); result generators consumed sequentially, round-robin or randomly interleaved; every studio is played twice. '
        'A case = one studio run; distinct = hash of (categories, counts, mode, failing set, consumption, cassette); non-trivial = >= 2 categories with recordings.')
ASSUMPTIONS = ['in-process comparison (dedicated-process behaviour is C08/C13)', 'lookup-driven runs use start_date = clock - 1 day and limit 20 (the studio default limit)',
               'reference for lookup-driven selection: saved complete recordings of exactly that category']

CATS = ['Op', 'OpX', 'Op_x', 'Op_x_y', 'A', 'B']


def run_studio(ctx, seed):
    from playback.tape_recorder import TapeRecorder
    from playback.studio.studio import PlaybackStudio
    from playback.studio.equalizer import ComparatorResult, EqualityStatus, Comparison
    from playback.studio.equalizer_tuning import EqualizerTuner, EqualizerTuning
    from playback.studio.recordings_lookup import RecordingLookupProperties
    rng = random.Random(seed)
    kind = ('memory', 'file', 's3')[seed % 3]
    cats = rng.sample(CATS, rng.randrange(2, 6))
    if rng.random() < 0.5 and 'Op' not in cats:
        cats[0] = 'Op'
        if 'OpX' not in cats:
            cats[-1] = 'OpX'
    counts = {c: rng.randrange(0, 7) for c in cats}
    explicit = rng.random() < 0.5
    if seed % 10 == 3:
        counts[cats[0]] = rng.choice([21, 23, 27])        # more recordings in one category than any default limit (explicit ids are all played)
        explicit = True
    failing = set(c for c in cats if rng.random() < 0.25)
    consumption = rng.choice(['sequential', 'round_robin', 'random', 'peek_then_drain'])
    dedicated = rng.random() < 0.12
    spawns_helper = seed % 21 == 2 or (dedicated and seed % 2 == 0)
    desc = {'categories': cats, 'counts': counts, 'explicit': explicit, 'failing': sorted(failing), 'consumption': consumption, 'cassette': kind, 'dedicated': dedicated}
    if spawns_helper:
        ctx.count('studios_whose_operations_start_a_helper_process')
    w = dict(desc, seed=seed)
    with open_box(kind, prefix=rng.choice(['', 'st', 'replays-metadata', 'team/Metadata', 'full'])) as box:     # prefixes spelling the layout's own words
        if box.fake is not None and seed % 4 == 1:
            # the bucket's clock (the recording hosts') is ahead of this process's own clock: an open-ended lookup window has no end
            box.fake.now = datetime.datetime.utcnow().replace(microsecond=0) + datetime.timedelta(days=400 + seed % 50)
            ctx.count('s3_studios_with_the_store_clock_ahead')
        rec = TapeRecorder(box.cassette)
        rec.enable_recording()
        current = {}
        classes = {}
        for c in cats:
            def execute(self):
                v = self.read()
                if current.get('interrupt') and not rec.in_playback_mode:
                    raise InterruptLike('cut short')
                if spawns_helper and rec.in_playback_mode and str(v).endswith(':0'):
                    # the replayed operation hands part of its work to a helper process of its own
                    import multiprocessing
                    import time as _time
                    helper = multiprocessing.Process(target=_time.sleep, args=(0.01,))
                    helper.start()
                    helper.join()
                self.write(v)
                return v
            ns = {'execute': rec.operation()(execute),
                  'read': rec.intercept_input('st.read')(lambda self: current['tok']),
                  'write': rec.intercept_output('st.write')(lambda self, x: 'ok')}
            classes[c] = genclasses.register(type(str(c), (object,), ns))
        saved = {c: [] for c in cats}       # complete recordings: (id, token)
        incomplete = {c: [] for c in cats}
        order = [(c, i) for c in cats for i in range(counts[c])]
        rng.shuffle(order)
        from vlib.spies import SpyCassette
        spy = SpyCassette(box.cassette)
        rec.tape_cassette = spy
        for c, i in order:
            current['tok'] = '%s:%d' % (c, i)
            current['interrupt'] = rng.random() < 0.15
            n0 = len(spy.log)
            try:
                classes[c]().execute()
            except InterruptLike:
                pass
            rid = [e for e in spy.log[n0:] if e[0] == 'save'][0][2]
            (incomplete if current['interrupt'] else saved)[c].append((rid, current['tok']))
        current['interrupt'] = False
        rec.tape_cassette = box.cassette
        rec.disable_recording()
        if kind in ('memory', 'file') and rng.random() < 0.4:
            # some recordings were made elsewhere and moved here keeping their ids (S3 style '<category>/<day>/<unique>')
            import os
            import uuid
            from playback.recordings.memory.memory_recording import MemoryRecording
            for c in cats:
                for k, (rid, tok) in enumerate(list(saved[c])):
                    if rng.random() < 0.5:
                        src = box.cassette.get_recording(rid)
                        new_id = u'%s/%s/%s' % (c, rng.choice(['20260101', '20251231']), uuid.uuid1().hex)
                        box.cassette.save_recording(MemoryRecording(new_id, recording_data=dict(src.recording_data),
                                                                    recording_metadata=dict(src.recording_metadata)))
                        if kind == 'memory':
                            del box.cassette._recordings[rid]
                        else:
                            os.remove(box.cassette._get_recording_file_path(rid))
                        saved[c][k] = (new_id, tok)
                        ctx.count('recordings_imported_with_foreign_style_id')
        if kind == 'file' and seed % 2 == 0:
            # a recording that is already stored was being saved again when its process was interrupted (Ctrl-C / kill arriving where a
            # file would be moved into place): whatever that left in the directory, the recording is still ONE recording
            import os
            from playback.recordings.memory.memory_recording import MemoryRecording
            victims = [rid for c in cats for rid, _ in saved[c]][:2]
            orig = (os.rename, os.replace, os.link)

            def interrupted(*a, **kw):
                raise InterruptLike('the process is interrupted here (injected)')
            os.rename = os.replace = os.link = interrupted
            try:
                for rid in victims:
                    src = box.cassette.get_recording(rid)
                    try:
                        box.cassette.save_recording(MemoryRecording(rid, recording_data=dict(src.recording_data), recording_metadata=dict(src.recording_metadata)))
                    except InterruptLike:
                        ctx.count('resaves_interrupted')
            finally:
                os.rename, os.replace, os.link = orig
            ctx.count('studios_after_an_interrupt_armed_resave')
        if seed % 7 == 4:
            # some complete recordings were made by an older release that did not write the "incomplete" flag at all (the default lookup
            # asks for [False, None] precisely to select those as well): stored again, same id, without that entry
            from playback.recordings.memory.memory_recording import MemoryRecording
            for c in cats:
                for k, (rid, tok) in enumerate(saved[c]):
                    if k % 2 == 0:
                        src = box.cassette.get_recording(rid)
                        md = dict(src.get_metadata())
                        md.pop(TapeRecorder.INCOMPLETE_RECORDING, None)
                        box.cassette.save_recording(MemoryRecording(rid, recording_data=dict(src.recording_data), recording_metadata=md))
                        ctx.count('recordings_without_an_incomplete_flag')
        tok_of = {rid: tok for c in cats for rid, tok in saved[c] + incomplete[c]}

        state = {'journal': [], 'failing': set(failing)}
        if seed % 4 == 1:
            state['raising'] = dict((rid, rng.choice([FileNotFoundError, ConnectionError, TimeoutError, OSError])) for c in cats for rid, _ in saved[c] if rng.random() < 0.2)
            ctx.count('recordings_whose_playback_function_fails_with_an_os_error', len(state['raising']))

        class Tuner(EqualizerTuner):
            def create_category_tuning(self, category):
                journal = state['journal']
                journal.append(('tuning', category, None, None))
                if category in state['failing']:
                    if seed % 3 == 1:
                        # the tuner fetches a reference recording for the category and does not find it: an exception of the framework's family
                        from playback.exceptions import NoSuchRecording
                        raise NoSuchRecording('reference-recording-of-' + category)
                    raise RuntimeError('no tuning for ' + category)

                def playback_function(recording):
                    state['journal'].append(('play', category, tok_of.get(recording.id), recording.id))
                    cls = recording.get_metadata()[TapeRecorder.OPERATION_CLASS]
                    result = cls().execute()
                    if recording.id in state.get('raising', ()):
                        # the playback function's own clean-up fails with an OS-level error after the operation was replayed
                        raise state['raising'][recording.id]('clean-up after the replay failed')
                    return result

                def extractor(outputs):
                    tok = next(o.value['args'][0] for o in outputs if 'st.write' in o.key)
                    state['journal'].append(('extract', category, tok, None))
                    return tok

                def comparator(a, b):
                    state['journal'].append(('compare', category, a, None))
                    return ComparatorResult(EqualityStatus.Equal if a == b else EqualityStatus.Different, 'cat=%s tok=%s' % (category, a))
                return EqualizerTuning(playback_function, extractor, comparator)

        from playback.studio.equalizer import CompareExecutionConfig
        cfg = CompareExecutionConfig(compare_in_dedicated_process=True, compare_process_recycle_rate=3, compare_process_timeout=900) if dedicated else None
        if explicit:
            ids = [rid for c in cats for rid, _ in saved[c]]
            random.Random(seed + 1).shuffle(ids)
            if not ids:
                ctx.case(desc, nontrivial=False)
                return
            studio = PlaybackStudio(cats, Tuner(), rec, recording_ids=ids, compare_execution_config=cfg)
        else:
            ids = None
            now = box.fake.now if box.fake is not None else datetime.datetime.utcnow()
            given = list(cats)
            if rng.random() < 0.3:
                # a category named more than once in the list (merged configuration files): it is still one category
                for _ in range(rng.randrange(1, 3)):
                    given.insert(rng.randrange(len(given) + 1), rng.choice(cats))
                ctx.count('lookup_studios_with_a_repeated_category')
            w['given_categories'] = given
            random_limit = rng.choice([1, 2, 3]) if rng.random() < 0.3 else None       # a random sample of at most that many per category
            w['random_limit'] = random_limit
            if random_limit:
                ctx.count('lookup_studios_with_a_random_sample')
            # (own stream) a lookup that does NOT skip incomplete recordings and asks for a few per category only: every category still draws
            # min(limit, what it has) recordings, all of them its own - whatever its prefix-sibling categories hold
            lr = random.Random(seed * 13 + 1)
            small_limit = lr.choice([1, 2, 3]) if (lr.random() < 0.3 and not random_limit) else None
            w['no_skip_limit'] = small_limit
            if small_limit:
                ctx.count('lookup_studios_with_incomplete_recordings_included_and_a_small_limit')
            studio = PlaybackStudio(given, Tuner(), rec, lookup_properties=RecordingLookupProperties(
                start_date=now - datetime.timedelta(days=1), limit=random_limit or small_limit or 20, random_sample=bool(random_limit),
                skip_incomplete=not small_limit),
                                    compare_execution_config=cfg)

        def play_once(failing_now):
            """One play() of the SAME studio object (a regression job keeps its studio and plays it again and again)."""
            state['journal'] = journal = []
            state['failing'] = set(failing_now)
            import playback.studio.equalizer as _eqmod
            import time as _time
            real_time = getattr(_eqmod, 'time', None)
            if seed % 20 in (13, 6) and real_time is _time.time:
                # the regression job runs under a frozen clock: the clock the equalizer reads does not advance during the run
                frozen = _time.time()
                _eqmod.time = lambda: frozen
                ctx.count('studio_runs_under_a_frozen_clock')
            try:
                res = studio.play()
                if seed % 20 in (13, 6):
                    res = {c: (g if isinstance(g, Exception) else list(g)) for c, g in res.items()}    # (drained while the clock stands still)
            except Exception as ex:
                ctx.violation('studio.play() raised %s: a category whose tuning cannot be created yields that error for that category alone' % type(ex).__name__,
                              dict(w, failing_now=sorted(failing_now)))
                raise env.EnoughViolations() if len(ctx.violations) > 20 else _StudioFailed()
            finally:
                if real_time is not None:
                    _eqmod.time = real_time
            out = {c: ([] if not isinstance(g, Exception) else g) for c, g in res.items()}
            gens = {c: iter(g) for c, g in res.items() if not isinstance(g, Exception)}
            crng = random.Random(seed + 2)
            if consumption == 'peek_then_drain':
                for c in sorted(gens):          # look at the first result of every category, then drain them one by one
                    try:
                        comp = next(gens[c])
                        out[c].append((comp.recording_id, comp.comparator_status.equality_status.name, comp.comparator_status.message))
                    except StopIteration:
                        del gens[c]
            while gens:
                if consumption in ('sequential', 'peek_then_drain'):
                    c = sorted(gens)[0]
                elif consumption == 'round_robin':
                    c = sorted(gens)[len(journal) % len(gens)]
                else:
                    c = crng.choice(sorted(gens))
                try:
                    comp = next(gens[c])
                    out[c].append((comp.recording_id, comp.comparator_status.equality_status.name, comp.comparator_status.message))
                except StopIteration:
                    del gens[c]
            return out, journal

        def judge(out, journal, failing_now, which):
            ww = dict(w, play=which, failing_now=sorted(failing_now))
            exp_cats = [c for c in cats if (saved[c] if explicit else True)]
            if set(out) != set(exp_cats):
                ctx.violation('studio reports categories %r, expected %r' % (sorted(out), sorted(exp_cats)), ww)
            elif not explicit:
                first_seen = []
                for c in w['given_categories']:
                    if c not in first_seen:
                        first_seen.append(c)
                if list(out) != first_seen:
                    ctx.violation('lookup-driven studio reports the categories in another order than they were given', dict(ww, got=list(out), given=w['given_categories']))
            for c in out:
                if c in failing_now:
                    ctx.count('failing_tuners_checked')
                    if not isinstance(out[c], Exception):
                        ctx.violation('a category whose tuning cannot be created did not yield that error', dict(ww, category=c))
                    continue
                if isinstance(out[c], Exception):
                    ctx.violation('a category with a working tuner yielded an error: %r' % (out[c],), dict(ww, category=c))
                    continue
                got_ids = [r[0] for r in out[c]]
                want = [rid for rid, _ in saved[c]]
                if explicit:
                    want_order = [rid for rid in ids if rid in set(want)]
                    if got_ids != want_order:
                        ctx.violation('explicit ids of a category are not each played exactly once in the given order', dict(ww, category=c, got=got_ids, want=want_order))
                elif w.get('random_limit'):
                    if len(set(got_ids)) != len(got_ids) or not set(got_ids) <= set(want) or len(got_ids) != min(w['random_limit'], len(want)):
                        ctx.violation('random sample of a category (limit %d): %d recordings played, %d distinct, %d exist' % (
                            w['random_limit'], len(got_ids), len(set(got_ids)), len(want)), dict(ww, category=c))
                elif w.get('no_skip_limit'):
                    allc = set(want) | set(r for r, _ in incomplete[c])
                    if len(set(got_ids)) != len(got_ids) or not set(got_ids) <= allc or len(got_ids) != min(w['no_skip_limit'], len(allc)):
                        ctx.violation('lookup including incomplete recordings (limit %d): category received %d recordings (%d distinct, %d its own), it has %d' % (
                            w['no_skip_limit'], len(got_ids), len(set(got_ids)), len(set(got_ids) & allc), len(allc)), dict(ww, category=c))
                else:
                    if sorted(got_ids) != sorted(want):
                        foreign = [tok_of.get(r) for r in got_ids if r not in set(want)]
                        ctx.violation('lookup-driven category received %d recordings, %d complete recordings of exactly that category exist (foreign/incomplete: %r)' % (
                            len(got_ids), len(want), foreign[:4]), dict(ww, category=c))
                for rid, status, msg in out[c]:
                    ctx.count('comparisons_checked')
                    tok = tok_of.get(rid)
                    if w.get('no_skip_limit') and any(rid == r for r, _ in incomplete[c]):
                        continue        # (the verdict of a recording that was cut short is not judged here)
                    if rid in state.get('raising', ()):
                        if status != 'EqualizerFailure':
                            ctx.violation('a recording whose playback function failed was reported as %s' % status, dict(ww, category=c, token=tok))
                        continue
                    if status != 'Equal' or msg != 'cat=%s tok=%s' % (c, tok):
                        ctx.violation('comparison of a recording was not produced by its own category\'s tuning (%s / %s)' % (status, (msg or '')[:80]), dict(ww, category=c, token=tok))
            ntun = [cat for k, cat, _, _ in journal if k == 'tuning']
            if sorted(ntun) != sorted(exp_cats):
                ctx.violation('tuner asked for categories %r, expected once each for %r' % (ntun, exp_cats), ww)
            if dedicated:
                return      # playback functions ran in worker processes: their journal entries are not visible here
            plays = {}
            for kind_, cat, tok, rid in journal:
                if kind_ == 'tuning':
                    continue
                ctx.count('journal_entries_checked')
                if tok is None or tok.split(':')[0] != cat:
                    ctx.violation('%s function of category %r was invoked for a recording of another category (%r)' % (kind_, cat, tok), ww)
                if kind_ == 'play':
                    plays[rid] = plays.get(rid, 0) + 1
            for rid, n in plays.items():
                if n != 1:
                    ctx.violation('a recording was replayed %d times in one studio run' % n, dict(ww, token=tok_of.get(rid)))
            should = set(rid for c in cats if c not in failing_now for rid, _ in saved[c])
            if w.get('random_limit') or w.get('no_skip_limit'):
                should = set(r[0] for c in out if not isinstance(out[c], Exception) for r in out[c])
            if set(plays) != should:
                ctx.violation('replayed set differs from the selected set (%d vs %d)' % (len(plays), len(should)), ww)

        ctx.case(desc, nontrivial=len([c for c in cats if saved[c]]) >= 2)
        ctx.count('studios_' + kind)
        ctx.count('mode_explicit' if explicit else 'mode_lookup')
        if dedicated:
            ctx.count('studios_dedicated_process')
        import logging
        verbose = seed % 5 == 2
        if verbose:
            # the host application runs with verbose logging switched on (root logger at DEBUG, output discarded here)
            root_logger = logging.getLogger()
            old_level, null = root_logger.level, logging.NullHandler()
            root_logger.addHandler(null)
            root_logger.setLevel(logging.DEBUG)
            logging.disable(logging.NOTSET)           # (the harness silences logging globally; not for these studios)
            ctx.count('studios_with_debug_logging')
        slow = dedicated and seed % 2 == 0
        if slow:
            # injected delay at an existing suspension point: the parent is descheduled right after forking a worker
            import multiprocessing.process as _mpp
            import time as _time
            _orig_start = _mpp.BaseProcess.start

            def _slow_start(self):
                _orig_start(self)
                _time.sleep(0.25)
            _mpp.BaseProcess.start = _slow_start
            ctx.count('studios_with_parent_delayed_after_fork')
        try:
            out1, j1 = play_once(failing)
        finally:
            if slow:
                _mpp.BaseProcess.start = _orig_start
        judge(out1, j1, failing, 'first')
        out2, j2 = play_once(failing)
        same = set(out1) == set(out2) and all((isinstance(out1[c], Exception) and isinstance(out2.get(c), Exception)) or out1[c] == out2.get(c) for c in out1)
        if not same and not w.get('random_limit') and not w.get('no_skip_limit'):
            ctx.violation('two runs of the same studio input report results in a different order / content', w)
        # the tuner's situation changes between two plays of the same studio (a fixed tuner, a new failure)
        failing3 = set(c for c in cats if (c in failing) != (rng.random() < 0.5))
        out3, j3 = play_once(failing3)
        judge(out3, j3, failing3, 'third (tuner situation changed)')
        ctx.count('plays_of_one_studio', 3)
        if verbose:
            logging.disable(logging.CRITICAL)
            root_logger.setLevel(old_level)
            root_logger.removeHandler(null)


def run(ctx):
    n = ctx.budget(200, 8000)
    base = ctx.seed * 1000003 + ctx.shard * 1000000
    for i in range(n):
        try:
            run_studio(ctx, base + i)
        except _StudioFailed:
            pass            # (already reported)
    ctx.sample({'categories': ['Op', 'OpX', 'A'], 'counts': {'Op': 2, 'OpX': 3, 'A': 0}, 'explicit': False, 'failing': ['OpX'],
                'expected': 'Op: its 2 complete recordings; OpX: the tuner error; A: empty'})
    if not ctx.counters.get('comparisons_checked'):
        ctx.inconclusive('no comparison checked')


def replay(ctx, w):
    try:
        run_studio(ctx, w['seed'])
    except _StudioFailed:
        pass
