"""C08 Every recording gets exactly one, correctly attributed verdict.

The behaviour script is the specification; attribution is checked through unique tokens that travel inside the
recordings.  Each case runs the real Equalizer (with real worker processes in dedicated mode) in its own subprocess.
"""
import itertools
import random

from vlib import env
from vlib import eqharness as H

PROPERTY = 'C08'
LEVEL = 'fault_enumeration'
RULE = ('sequences of 1-12 recordings with a scripted behaviour each {equal, different, player raises, extractor raises, comparator raises, bare status, '
        'worker exits, worker hangs past the timeout, worker answers just after the parent gave up}: every fatal behaviour at first / middle / last position, '
        'pairs and consecutive runs of faults, recycle rate in {1,2,3,5}, keep-results on/off, timeout 1 s; non-fatal sequences run in-process and in a '
        'dedicated process and are compared. A case = one sequence x configuration; distinct = hash of it; non-trivial = the sequence contains at least one '
        'non-"equal" behaviour.')
ASSUMPTIONS = ['the late answer is produced by delaying the kill of a timed-out worker until its answer is in the pipe (a legal OS schedule)',
               'in-process mode only runs behaviours that do not take the checking process down',
               'a harness watchdog firing is inconclusive for this property (termination is C13)']


def cases_for(ctx):
    nf = H.NONFATAL
    cases = []
    base_seq = ['equal', 'different', 'player_raises', 'extractor_raises', 'comparator_raises', 'bare_status', 'equal']
    cases.append({'behaviours': base_seq, 'dedicated': True, 'recycle': 2, 'keep': True, 'pair': 'A'})
    cases.append({'behaviours': base_seq, 'dedicated': False, 'recycle': 2, 'keep': True, 'pair': 'A'})
    cases.append({'behaviours': ['equal', 'late', 'equal', 'different', 'equal'], 'dedicated': True, 'recycle': 5, 'keep': True})
    cases.append({'behaviours': ['equal', 'hang', 'equal', 'different'], 'dedicated': True, 'recycle': 5, 'keep': False})
    cases.append({'behaviours': ['equal', 'exit', 'different', 'equal'], 'dedicated': True, 'recycle': 5, 'keep': True})
    cases.append({'behaviours': ['late', 'equal', 'equal'], 'dedicated': True, 'recycle': 1, 'keep': False})
    cases.append({'behaviours': ['different', 'equal', 'late'], 'dedicated': True, 'recycle': 2, 'keep': True})
    cases.append({'behaviours': ['hang', 'exit', 'late', 'equal', 'different'], 'dedicated': True, 'recycle': 3, 'keep': True})
    cases.append({'behaviours': ['exit', 'exit', 'equal'], 'dedicated': True, 'recycle': 5, 'keep': False})
    cases.append({'behaviours': ['equal', 'late', 'late', 'equal'], 'dedicated': True, 'recycle': 2, 'keep': True})
    cases.append({'behaviours': ['equal', 'die_idle', 'equal', 'different', 'equal', 'equal'], 'dedicated': True, 'recycle': 5, 'keep': True})
    cases.append({'behaviours': ['bare_status', 'different', 'player_raises', 'spawn_child', 'equal'], 'dedicated': False, 'recycle': 5, 'keep': False, 'pair': 'B'})
    cases.append({'behaviours': ['bare_status', 'different', 'player_raises', 'spawn_child', 'equal'], 'dedicated': True, 'recycle': 1, 'keep': False, 'pair': 'B'})
    # a comparator that reports a structured (non-text) diff; a parent that is descheduled right after forking a worker
    cases.append({'behaviours': ['equal', 'dict_diff', 'equal', 'dict_diff', 'different'], 'dedicated': True, 'recycle': 2, 'keep': True, 'pair': 'D'})
    cases.append({'behaviours': ['equal', 'dict_diff', 'equal', 'dict_diff', 'different'], 'dedicated': False, 'recycle': 2, 'keep': True, 'pair': 'D'})
    cases.append({'behaviours': ['equal', 'different', 'equal', 'equal', 'different', 'equal', 'equal'], 'dedicated': True, 'recycle': 2, 'keep': False, 'slow_start': 0.4})
    cases.append({'behaviours': ['equal', 'unpicklable_answer', 'different', 'unpicklable_answer', 'equal'], 'dedicated': True, 'recycle': 5, 'keep': True})
    cases.append({'behaviours': ['equal', 'different', 'player_raises', 'equal'], 'dedicated': True, 'recycle': 2, 'keep': True, 'flip_mode': True, 'via_studio': True})
    cases.append({'behaviours': ['different', 'equal', 'bare_status'], 'dedicated': True, 'recycle': 5, 'keep': False, 'flip_mode': True})
    cases.append({'behaviours': ['equal', 'different', 'equal', 'equal', 'different'], 'dedicated': True, 'recycle': 2, 'keep': True, 'consume_in_fork': True})
    # explicit ids: more recordings than any default limit, through the studio; a timed-out worker that cannot be killed and answers late
    cases.append({'behaviours': ['equal', 'different'] * 12 + ['equal'], 'dedicated': False, 'recycle': 5, 'keep': False, 'via_studio': True})
    cases.append({'behaviours': ['equal', 'late', 'equal', 'different', 'equal'], 'dedicated': True, 'recycle': 5, 'keep': True, 'kill_fails': True})
    # a host that lets the kernel reap its children (SIGCHLD ignored): workers are recycled several times
    cases.append({'behaviours': ['equal', 'different', 'equal', 'equal', 'different', 'equal', 'player_raises', 'equal'], 'dedicated': True, 'recycle': 2, 'keep': True,
                  'host': 'sigchld_ignored'})
    cases.append({'behaviours': ['equal'] * 7 + ['different'], 'dedicated': True, 'recycle': 5, 'keep': False, 'host': 'sigchld_ignored'})
    # a comparator that returns the same message-less result OBJECTS for every recording, and a replay whose extracted result is an error object
    for ded, rc in ((False, 5), (True, 5), (True, 1)):
        cases.append({'behaviours': ['equal', 'different', 'error_result', 'different', 'equal', 'error_result', 'different'], 'dedicated': ded, 'recycle': rc, 'keep': True,
                      'shared_results': True, 'pair': 'S'})
    # a replay leaves a non-daemon timer behind that outlasts the timeout: recycling that worker is slow, the NEXT recording is still healthy
    cases.append({'behaviours': ['equal', 'leaves_timer', 'equal', 'different', 'leaves_timer', 'equal', 'equal'], 'dedicated': True, 'recycle': 2, 'keep': False})
    # recordings identified by position (ids 0, 1, 2 ...: the first one is falsy); a replay that ends its process with status 0
    cases.append({'behaviours': ['equal', 'different', 'equal', 'player_raises'], 'dedicated': True, 'recycle': 5, 'keep': True, 'int_ids': True, 'pair': 'I'})
    cases.append({'behaviours': ['equal', 'different', 'equal', 'player_raises'], 'dedicated': False, 'recycle': 5, 'keep': True, 'int_ids': True, 'pair': 'I'})
    cases.append({'behaviours': ['equal', 'exit0', 'different', 'equal'], 'dedicated': True, 'recycle': 5, 'keep': False})
    # more than ten recordings while the clock the equalizer reads does not advance (a regression run under a frozen clock)
    cases.append({'behaviours': ['equal', 'different'] * 6, 'dedicated': False, 'recycle': 5, 'keep': False, 'frozen_clock': True, 'pair': 'F'})
    cases.append({'behaviours': ['equal', 'different'] * 6, 'dedicated': True, 'recycle': 5, 'keep': False, 'frozen_clock': True, 'pair': 'F'})
    # an equalizer built without a configuration next to another such equalizer whose settings were changed after construction
    cases.append({'behaviours': ['equal', 'different', 'player_raises', 'equal'], 'dedicated': False, 'recycle': 5, 'keep': False, 'default_config': True})
    if ctx.quick:
        return cases
    rng = ctx.rng
    cases.append({'behaviours': ['equal', 'exit', 'equal', 'hang', 'different', 'equal'], 'dedicated': True, 'recycle': 2, 'keep': True, 'slow_start': 0.3})
    cases.append({'behaviours': ['different'] * 7, 'dedicated': True, 'recycle': 1, 'keep': True, 'slow_start': 0.25, 'via_studio': True})
    # every fatal behaviour at every position of a length-4 sequence, recycle rates 1,2,3,5
    for b, pos, recycle in itertools.product(H.FATAL, range(4), [1, 2, 3, 5]):
        seq = ['equal', 'different', 'equal', 'equal']
        seq[pos] = b
        cases.append({'behaviours': seq, 'dedicated': True, 'recycle': recycle, 'keep': bool((pos + recycle) % 2)})
    # pairs of fatal behaviours
    for b1, b2 in itertools.product(H.FATAL, H.FATAL):
        for gap in (0, 1):
            seq = ['equal', b1] + ['different'] * gap + [b2, 'equal']
            cases.append({'behaviours': seq, 'dedicated': True, 'recycle': rng.choice([1, 2, 3, 5]), 'keep': rng.random() < 0.5})
    # random longer sequences, with in-process twins for the non-fatal ones
    for i in range(120):
        n = rng.randrange(1, 13)
        if i % 3 == 0:
            seq = [rng.choice(nf) for _ in range(n)]
            rc, keep = rng.choice([1, 2, 3, 5]), rng.random() < 0.5
            cases.append({'behaviours': seq, 'dedicated': True, 'recycle': rc, 'keep': keep, 'pair': 'R%d' % i})
            cases.append({'behaviours': seq, 'dedicated': False, 'recycle': rc, 'keep': keep, 'pair': 'R%d' % i})
        else:
            seq = [rng.choice(nf + H.FATAL + ['equal', 'equal']) for _ in range(n)]
            if sum(1 for b in seq if b in ('hang', 'late', 'hang_sigterm_ignored')) > 3:
                continue
            cases.append({'behaviours': seq, 'dedicated': True, 'recycle': rng.choice([1, 2, 3, 5]), 'keep': rng.random() < 0.5})
    return cases


def judge(ctx, case, res, w):
    """The C08 oracle over one finished case."""
    beh = case['behaviours']
    ids = res['ids']
    rs = res['results']
    if res['error']:
        ctx.violation('comparison run ended with an error: %s' % res['error'][:100], w)
        return None
    if [r['recording_id'] for r in rs] != ids:
        ctx.violation('result sequence does not have exactly one comparison per id, in input order and labelled with that id (%d results for %d ids)' % (len(rs), len(ids)),
                      dict(w, labels=[r['recording_id'] for r in rs], ids=ids))
        return None
    if case.get('default_config') and res['pids']:
        ctx.violation('an equalizer built without a configuration (documented default: compare in this process) ran its replays in %d worker process(es)' % len(res['pids']), w)
    verdicts = []
    for i, (b, r) in enumerate(zip(beh, rs)):
        ctx.count('verdicts_checked')
        ctx.count('behaviour_' + b)
        tok = 'T%d' % i
        exp = H.EXPECTED[b]
        verdicts.append(r['status'])
        ww = dict(w, position=i, behaviour=b, got=r['status'], message=(r['message'] or '')[:120])
        if not r['is_comparator_result']:
            ctx.violation('verdict is not wrapped into a ComparatorResult', ww)
        if i > 0 and beh[i - 1] == H.IDLE_DEATH and case['dedicated']:
            ctx.count('verdicts_unspecified_after_idle_worker_death')
            continue
        if r['status'] != exp:
            prev = beh[:i]
            after_fault = any(x in H.FATAL for x in prev)
            ctx.violation('recording scripted %r got verdict %s, expected %s%s' % (b, r['status'], exp, ' (after an earlier worker fault)' if after_fault else ''), ww)
            continue
        # attribution
        if r['playback_recording_id'] is not None and r['playback_recording_id'] != ids[i]:
            ctx.violation('comparison carries the replay of another recording', dict(ww, playback_of=r['playback_recording_id']))
        if r['playback_token'] is not None and r['playback_token'] != tok:
            ctx.violation('attached replay holds the token of another recording', dict(ww, token=r['playback_token']))
        if case.get('shared_results'):
            if r['message'] and b != 'error_result':
                # (an explanation the equalizer adds to the verdict of the failing replay ITSELF would be its own business)
                ctx.violation('verdict carries a message that neither its comparator gave nor belongs to this recording (the comparator hands out the same '
                              'message-less result objects for every recording)', ww)
        elif r['status'] in ('Equal', 'Different') and b != 'bare_status' and tok not in (r['message'] or ''):
            ctx.violation('comparator message belongs to another recording', ww)
        if case.get('keep') and r['status'] in ('Equal', 'Different'):
            if r['expected'] != tok or not str(r['actual']).startswith(tok):
                ctx.violation('kept expected/actual results belong to another recording', dict(ww, expected=r['expected'], actual=r['actual']))
        for side in ('expected', 'actual'):
            # whatever verdict: a kept result attached to this comparison must be this recording's own
            if r[side] is not None and not str(r[side]).startswith(tok):
                ctx.violation('comparison carries the kept %s result of another recording' % side, dict(ww, value=r[side]))
        if r['playback_recording_id'] is None and (r['expected'] is not None or r['actual'] is not None):
            ctx.violation('comparison without a replay carries kept results', dict(ww, expected=r['expected'], actual=r['actual']))
        if not case.get('keep') and (r['expected'] is not None or r['actual'] is not None):
            ctx.violation('results kept although keep_results_in_comparison is off', ww)
    return verdicts


def start_method_part(ctx):
    """The same comparison under the spawn and forkserver start methods of multiprocessing (nothing but module level callables is handed
    to the Equalizer, the comparison data extractor is given or left out): in process and dedicated give the scripted verdicts."""
    import json
    import os
    import subprocess
    import sys
    from concurrent.futures import ThreadPoolExecutor
    from vlib import eqspawn_expected as E
    script = os.path.join(env.VERIF, 'vlib', 'eqspawn.py')
    cases = []
    seqs = [['equal', 'different', 'player_raises', 'extractor_raises', 'comparator_raises', 'bare_status', 'equal'], ['different', 'equal', 'equal']]
    for sm in ('spawn', 'forkserver'):
        for wd in (False, True):
            for si, seq in enumerate(seqs if not ctx.quick else seqs[:1]):
                cases.append({'behaviours': seq, 'start_method': sm, 'with_data_extractor': wd, 'recycle': 2 + si, 'keep': True, 'ids_as_list': wd})

    def one(case):
        try:
            p = subprocess.run([sys.executable, script, json.dumps(case)], stdout=subprocess.PIPE, stderr=subprocess.PIPE, text=True,
                               env=dict(os.environ, VERIF_REPO=env.REPO), timeout=600, start_new_session=True)
        except subprocess.TimeoutExpired:
            return None, 'watchdog'
        lines = [l for l in p.stdout.splitlines() if l.startswith('{')]
        if p.returncode != 0 or not lines:
            return {'stderr': p.stderr[-1500:]}, 'crashed'
        return json.loads(lines[-1]), 'ok'
    with ThreadPoolExecutor(max_workers=4) as ex:
        outs = list(ex.map(one, cases))
    for case, (res, status) in zip(cases, outs):
        w = {'start_method_case': case}
        ctx.case(case)
        ctx.count('cases_start_method_' + case['start_method'])
        if status != 'ok':
            ctx.inconclusive('start method case %s: %s' % (status, str(res)[-300:]))
            continue
        if res['error']:
            ctx.violation('comparison under the %s start method ended with an error: %s' % (case['start_method'], res['error'][:120]), w)
            continue
        exp = [E.EXPECTED[b] for b in case['behaviours']]
        for mode in ('in_process', 'dedicated'):
            got = res[mode]
            ctx.count('verdicts_checked', len(got))
            if [r['recording_id'] for r in got] != res['ids']:
                ctx.violation('%s run under the %s start method: not exactly one comparison per id, in order' % (mode, case['start_method']), w)
                continue
            if [r['status'] for r in got] != exp:
                ctx.violation('%s run under the %s start method gave verdicts %r, scripted %r' % (mode, case['start_method'], [r['status'] for r in got], exp),
                              dict(w, messages=[r['message'][:80] for r in got if r['status'] == 'EqualizerFailure'][:3]))
                continue
            for i, r in enumerate(got):
                tok = 'T%d' % i
                for side in ('expected', 'actual'):
                    if r[side] is not None and tok not in str(r[side]):
                        ctx.violation('comparison carries the kept %s result of another recording' % side, dict(w, position=i, value=r[side]))
                if case['with_data_extractor'] and r['status'] in ('Equal', 'Different') and case['behaviours'][i] != 'bare_status' and res['ids'][i] not in r['message']:
                    ctx.violation('comparator was not handed the comparison data of its own recording', dict(w, position=i, message=r['message']))


def run(ctx):
    if ctx.shard == 0:
        start_method_part(ctx)
    cases = []
    for i, c in enumerate(cases_for(ctx)):
        # the two members of an in-process / dedicated pair must land in the same shard
        mine = (sum(map(ord, c['pair'])) % ctx.nshards == ctx.shard) if c.get('pair') else ctx.mine(i)
        if mine:
            cases.append(c)
    outs = H.run_cases(cases, parallel=8 if ctx.nshards == 1 else 2)
    pairs = {}
    for case, (res, status) in zip(cases, outs):
        w = {'case': case}
        ctx.case(case, nontrivial=any(b != 'equal' for b in case['behaviours']))
        ctx.count('cases_dedicated' if case['dedicated'] else 'cases_in_process')
        if status != 'ok':
            ctx.count('cases_' + status)
            ctx.inconclusive('equalizer case %s: %s' % (status, str(res)[-300:]))
            continue
        if 'late' in case['behaviours'] and not res['late_waits']:
            ctx.count('late_not_produced')
        ctx.count('worker_processes_seen', len(res['pids']))
        if res.get('calib_s', 0) > 1.0 or any(r['status'] == 'EqualizerFailure' and 'timeout' in (r['message'] or '') and b in H.NONFATAL
                                               for b, r in zip(case['behaviours'], res['results'])):
            # the machine was overloaded while this case ran (a 0.3 s sleep took > 1 s, or a healthy replay ran into the 1 s timeout):
            # the case is run again, alone; only that second run is judged
            ctx.count('overloaded_reruns')
            res2, status2 = H.run_one(case)
            if status2 == 'ok':
                res = res2
        v = judge(ctx, case, res, w)
        if v is not None and case.get('pair'):
            pairs.setdefault(case['pair'], []).append((case['dedicated'], v))
    for k, lst in pairs.items():
        if len(lst) >= 2:
            ctx.count('in_process_vs_dedicated_compared')
            if any(x[1] != lst[0][1] for x in lst[1:]):
                ctx.violation('in-process and dedicated-process execution give different verdicts', {'pair': k, 'verdicts': lst})
    ctx.sample({'case': cases[0], 'expected_verdicts': [H.EXPECTED[b] for b in cases[0]['behaviours']]})
    if not ctx.counters.get('verdicts_checked') and not ctx.violations:
        ctx.inconclusive('no verdict checked')


def replay(ctx, w):
    if 'start_method_case' in w:
        return start_method_part(ctx)
    res, status = H.run_one(w['case'])
    if status != 'ok':
        print('case', status, res)
        return
    judge(ctx, w['case'], res, w)
