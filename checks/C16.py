"""C16 S3 time-window lookup is exact.

Reference-window monitor with a controlled clock: the fake bucket's last_modified and the datetime the S3 cassette
uses for recording ids both read the harness clock.  Refuted by a listing for (start, end) that contains a recording
saved outside [start, end] or misses one saved inside.
"""
import datetime as dt
import random

from vlib import env
from vlib.fakes3 import FakeS3
from vlib.refmodels import ref_in_window

PROPERTY = 'C16'
LEVEL = 'exploration'
RULE = ('exhaustive hour grid: one recording per hour over 4 days (96) in category Op (plus decoys in OpX), every (start, end) '
        'pair with start <= end on the grid and every (start, end=None, now) - quick tier uses every 3rd hour plus 23:00/00:00/01:00 of '
        'each day; then seeded random minute-level recordings and windows, with and without a metadata filter. A case = one '
        'query; distinct = (recording instants, start, end, now, filter); non-trivial = window contains or borders at least one recording day.')
ASSUMPTIONS = ['process clock in UTC; every recording created and saved at the same instant (stated by the property)',
               'fake bucket lists keys in lexicographic order and stamps last_modified from the harness clock at full (microsecond) resolution']

T0 = dt.datetime(2024, 2, 27, 0, 0, 0)   # spans Feb 29 and a month boundary


CAT = ['Op']        # the category the queries ask for (the random part also uses names with '/' and '%')


import enum


class Operations(str, enum.Enum):
    """Categories named by members of a str-mixin enum (the service's own catalogue of operations)."""
    OPTIMIZE = 'optimize'
    IMPORT = 'import'


def build(fake, instants, prefix, writer=None, ids=None, each=None):
    """Saves one recording per instant, advancing the harness clock; ``each(now)`` runs after every save, so queries
    whose end defaults to "now" only ever see a store whose recordings are not in the future."""
    w = writer or fake.cassette('w', key_prefix=prefix, read_only=False)
    ids = {} if ids is None else ids
    for i, t in enumerate(instants):
        fake.now = t
        for cat in (CAT[0], CAT[0] + 'X') if i % 7 == 0 else (CAT[0],):
            rec = w.create_new_recording(cat)
            rec.add_metadata({'i': i, 'even': i % 2 == 0})
            w.save_recording(rec)
            if cat == CAT[0]:
                ids[rec.id] = (i, t)
        if each:
            each(t)
    return ids


def query(ctx, reader, fake, ids, start, end, now, flt, tag):
    fake.now = now
    desc = {'start': str(start), 'end': str(end), 'now': str(now), 'filter': flt, 'tag': tag}
    exp = set(rid for rid, (i, t) in ids.items() if ref_in_window(t, start, end, now) and (flt is None or i % 2 == 0))
    ctx.case(desc, nontrivial=True)
    ctx.count('queries')
    try:
        got = list(reader.iter_recording_ids(CAT[0], start_date=start, end_date=end, metadata=flt))
    except Exception as ex:
        if getattr(fake, 'fail_reads', None) and 'injected' in str(ex):
            ctx.count('lookups_failing_loudly_on_a_storage_fault')      # an error the caller sees is not a wrong answer
            return
        ctx.violation('time-window listing raised %s: %s' % (type(ex).__name__, str(ex)[:100]), desc)
        return
    ctx.count('ids_compared', len(ids))
    ctx.count('expected_in_window', len(exp))
    # the same window in random order with a limit that does not cut anything off: still every recording of the window
    if exp and (len(exp) + len(desc['start'])) % 3 == 0:
        for limit in (len(exp), len(exp) + 3):
            try:
                rnd = list(reader.iter_recording_ids(CAT[0], start_date=start, end_date=end, metadata=flt, limit=limit, random_results=True))
            except Exception as ex:
                if not (getattr(fake, 'fail_reads', None) and 'injected' in str(ex)):
                    ctx.violation('random-order time-window listing raised %s' % type(ex).__name__, desc)
                break
            ctx.count('random_order_limited_queries')
            if sorted(rnd) != sorted(exp):
                ctx.violation('time-window listing in random order with limit %d (>= the %d recordings of the window) returned %d ids (%d distinct)' % (
                    limit, len(exp), len(rnd), len(set(rnd))), dict(desc, limit=limit))
                break
    if len(exp) >= 2 and not getattr(fake, 'fail_reads', None):
        # the same window in stored order with limits below, at and above the number of recordings in it: min(limit, matches) distinct
        # recordings, all of them of the window (which ones is the store's business)
        for limit in sorted(set([1, len(exp) - 1, len(exp), (2 * len(exp) + 2) // 3, len(exp) + 2])):
            try:
                lim = list(reader.iter_recording_ids(CAT[0], start_date=start, end_date=end, metadata=flt, limit=limit))
            except Exception as ex:
                ctx.violation('limited time-window listing raised %s' % type(ex).__name__, dict(desc, limit=limit))
                break
            ctx.count('ordered_limited_queries')
            if len(lim) != min(limit, len(exp)) or len(set(lim)) != len(lim) or not set(lim) <= exp:
                ctx.violation('time-window listing with limit %d over a window of %d recordings returned %d ids (%d distinct, %d outside the window)' % (
                    limit, len(exp), len(lim), len(set(lim)), len(set(lim) - exp)), dict(desc, limit=limit))
                break
    if len(exp) >= 2 and (len(exp) + len(ids)) % 4 == 1 and not getattr(fake, 'fail_reads', None):
        # the lookup is started inside a with-block / before close() of the (reading) cassette and consumed afterwards: closing a
        # non-transient reading cassette is a no-op, the lazy lookup goes on
        try:
            it = iter(reader.iter_recording_ids(CAT[0], start_date=start, end_date=end, metadata=flt))
            first = [next(it)]
            reader.close()
            late = first + list(it)
            ctx.count('lookups_consumed_after_the_cassette_was_closed')
            if sorted(late) != sorted(exp):
                ctx.violation('a time-window lookup started before close() of the reading cassette and consumed afterwards returned %d of the %d recordings of the window' % (
                    len(late), len(exp)), desc)
        except Exception as ex:
            ctx.violation('a time-window lookup consumed after close() of the reading cassette raised %s' % type(ex).__name__, desc)
    if len(got) != len(set(got)):
        ctx.violation('time-window listing has duplicates', desc)
    gs = set(got)
    if gs - exp:
        bad = sorted(str(ids[r][1]) if r in ids else r for r in gs - exp)[:3]
        ctx.violation('time-window listing contains recordings outside the window', dict(desc, outside=bad))
    if exp - gs:
        bad = sorted(str(ids[r][1]) for r in exp - gs)[:3]
        # classify by mechanism for readability only (no known finding is registered for it)
        ctx.violation('time-window listing misses recordings saved inside the window', dict(desc, missed=bad, n_missed=len(exp - gs)))


def concurrent_day_change(ctx):
    """One long-lived writable cassette shared by the recording threads of a process, across a calendar-day change: the first
    recordings of the new day are created by two threads at the same time. Explored with the deterministic scheduler (source-line
    granularity of the S3 modules); afterwards windows on either side of midnight must be exact."""
    from vlib import sched as S
    import playback.tape_cassettes.s3.s3_basic_facade as fmod
    import playback.tape_cassettes.s3.s3_tape_cassette as cmod
    tg = [fmod.__file__, cmod.__file__]
    day1 = dt.datetime(2021, 3, 12, 23, 59, 30)
    day2 = dt.datetime(2021, 3, 13, 0, 0, 0)
    holder = {}

    def make(sched):
        fake = FakeS3()
        cm = fake.installed()
        cm.__enter__()
        w = fake.cassette('w', key_prefix='dc', read_only=False)
        ids = {}
        fake.now = day1
        r0 = w.create_new_recording('Op')
        w.save_recording(r0)
        ids[r0.id] = (0, day1)
        fake.now = day2
        holder.update(fake=fake, cm=cm, ids=ids)

        def worker(i):
            def fn():
                rec = w.create_new_recording('Op')
                rec.add_metadata({'i': i})
                ids[rec.id] = (i, day2)
                w.save_recording(rec)
            return fn

        def main():
            ths = [sched.Thread(target=worker(i), name='rec%d' % i) for i in (1, 2)]
            for t in ths:
                t.start()
            for t in ths:
                t.join()
        return main

    def on_run(rec, desc):
        fake, ids = holder['fake'], holder['ids']
        try:
            ctx.count('day_change_schedules')
            if rec.aborted or rec.error is not None:
                if rec.error is not None:
                    ctx.violation('recording at the day change raised %s' % type(rec.error).__name__, {'day_change': True, 'error': repr(rec.error)[:200]})
                return
            reader = fake.cassette('r', key_prefix='dc', read_only=True)
            for s, e in ((day2, None), (day2, day2 + dt.timedelta(hours=1)), (day1.replace(hour=0, minute=0, second=0), day1 + dt.timedelta(seconds=10)),
                         (day1, day2)):
                query(ctx, reader, fake, ids, s, e, day2 + dt.timedelta(minutes=5), None, 'day-change, two recording threads')
        finally:
            holder['cm'].__exit__(None, None, None)
    runs, complete = S.explore_dfs(make, tg, 1, on_run, max_runs=200 if ctx.quick else 5000)
    ctx.note('day_change_dfs', {'runs': runs, 'complete': complete})
    S.explore_random(make, tg, ctx.budget(30, 1500), ctx.rng, on_run)


def run(ctx):
    from playback.tape_cassettes.s3.s3_tape_cassette import S3TapeCassette
    env.anchor(S3TapeCassette, 'iter_recording_ids')
    hours = [T0 + dt.timedelta(hours=h) for h in range(96)]
    fake = FakeS3()
    with fake.installed():
        reader = fake.cassette('r', key_prefix='g', read_only=True)
        if ctx.quick:
            grid = [h for h in hours if h.hour % 3 == 0 or h.hour in (23, 0, 1)]
        else:
            grid = hours
        gridset = set(grid)
        idx = 0
        ids = {}
        counter = [0]

        def at_now(now):
            # end defaults to "now": asked while the clock stands at `now`, right after that hour's recording was saved
            if now not in gridset:
                return
            for s in grid:
                if s > now:
                    break
                counter[0] += 1
                if ctx.mine(counter[0]):
                    query(ctx, reader, fake, ids, s, None, now, None, 'grid-now')
            fake.now = now
        build(fake, hours, 'g', ids=ids, each=at_now)
        for si, s in enumerate(grid):
            for e in grid[si:]:
                idx += 1
                if ctx.mine(idx):
                    query(ctx, reader, fake, ids, s, e, hours[-1] + dt.timedelta(hours=5), None, 'grid')
        # inverted windows (end before start) must be empty
        for k in range(20):
            s = grid[(k * 7 + 5) % len(grid)]
            e = s - dt.timedelta(hours=1 + k)
            idx += 1
            if ctx.mine(idx):
                query(ctx, reader, fake, ids, s, e, hours[-1], None, 'inverted')
        ctx.exhaustive = True
        ctx.note('grid_points', len(grid))

    # random minute-level instants
    rng = ctx.rng
    for it in range(ctx.budget(7, 210)):
        fake = FakeS3()
        with fake.installed():
            prefix = rng.choice(['', 'p', 'p/q'])
            CAT[0] = ['Op', 'planning/optimize', 'top10%drivers', Operations.OPTIMIZE, 'load%d', 'a/b/c', 'rate%'][it % 7]
            ctx.count('category_' + ('a str-mixin enum member' if CAT[0] is Operations.OPTIMIZE else CAT[0]))
            # the zone the recording process runs in (windows are given in UTC, as the lookup documents)
            fake.tz_offset = dt.timedelta(hours=rng.choice([0, 0, 9, -8, 5.5, 13, -11]))
            ctx.count('process_zone_utc%+g' % (fake.tz_offset.total_seconds() / 3600.0))
            subsec = rng.random() < 0.5       # instants and bounds that do not fall on whole seconds
            inst = sorted(T0 + dt.timedelta(minutes=rng.randrange(0, 6 * 24 * 60), seconds=rng.randrange(60),
                                            microseconds=rng.choice([0, 1, 100000, 400000, 500000, 999999]) if subsec else 0) for _ in range(rng.randrange(1, 30)))
            layout = None
            if it % 4 == 1:
                # a deployment that names its day folders differently: a subclass overriding the documented class-level layout constant
                from playback.tape_cassettes.s3.s3_tape_cassette import S3TapeCassette as _S3

                class OwnDayFolders(_S3):
                    DAY_FORMAT = '%Y-%m-%d' if it % 8 == 1 else 'd%d.%m.%Y'
                layout = OwnDayFolders
                ctx.count('stores_with_their_own_day_folder_names')
            ids = build(fake, inst, prefix, writer=fake.cassette('w', key_prefix=prefix, read_only=False, cls=layout))
            reader = fake.cassette('r', key_prefix=prefix, read_only=True, cls=layout)
            if it % 4 == 3:
                # the reading cassette object is a (shallow / deep) copy of the one that was configured
                import copy as _copy
                with fake.owner('r'):
                    reader = _copy.copy(reader) if it % 8 == 3 else _copy.deepcopy(reader)
                ctx.count('lookups_through_a_copied_cassette')
            for _ in range(40):
                s = T0 + dt.timedelta(minutes=rng.randrange(-600, 7 * 24 * 60))
                if rng.random() < 0.3 and inst:
                    s = rng.choice(inst) + dt.timedelta(seconds=rng.choice([-1, 0, 1]))
                r = rng.random()
                if r < 0.3:
                    e = None
                    now = max(s, inst[-1]) + dt.timedelta(minutes=rng.randrange(0, 3 * 24 * 60))
                else:
                    e = s + dt.timedelta(minutes=rng.randrange(0, 5 * 24 * 60))
                    if rng.random() < 0.3 and inst:
                        e = rng.choice(inst) + dt.timedelta(seconds=rng.choice([-1, 0, 1]))
                    if subsec and rng.random() < 0.5 and inst:
                        e = rng.choice(inst).replace(microsecond=0) + dt.timedelta(microseconds=rng.choice([0, 1, 250000, 500000, 999999]))
                        ctx.count('bounds_within_a_second')
                    now = T0 + dt.timedelta(days=8)
                if subsec and rng.random() < 0.4 and inst:
                    s = rng.choice(inst).replace(microsecond=0) + dt.timedelta(microseconds=rng.choice([0, 1, 250000, 500000, 999999]))
                    if e is not None and e < s:
                        e = s + dt.timedelta(minutes=rng.randrange(0, 3 * 24 * 60))
                    ctx.count('bounds_within_a_second')
                if e is not None and rng.random() < 0.15:
                    # the clock of the looking-up host is behind the recording hosts' clocks (or was set back): an explicit end
                    # bounds the window, whatever "now" is
                    now = s + dt.timedelta(minutes=rng.randrange(0, 600))
                    ctx.count('lookup_clock_before_window_end')
                query(ctx, reader, fake, ids, s, e, now, rng.choice([None, None, {'even': True}]), 'random')
    CAT[0] = 'Op'
    # a transient storage fault (throttling, read timeout) while the metadata of one recording is fetched during a filtered lookup:
    # the lookup may fail, but if it completes it must still be exact
    from vlib.fakes3 import TransientS3Error, ReadTimeoutError
    for _ in range(ctx.budget(6, 200)):
        fake = FakeS3()
        with fake.installed():
            inst = sorted(T0 + dt.timedelta(minutes=rng.randrange(0, 3 * 24 * 60)) for _ in range(rng.randrange(3, 12)))
            ids = build(fake, inst, 'f')
            reader = fake.cassette('r', key_prefix='f', read_only=True)
            for at in range(1, 6):
                fake.fail_reads = {'at': at, 'error': rng.choice([TransientS3Error, ReadTimeoutError])}
                ctx.count('lookups_with_a_storage_fault')
                query(ctx, reader, fake, ids, T0 - dt.timedelta(hours=1), rng.choice([None, T0 + dt.timedelta(days=4)]), T0 + dt.timedelta(days=5),
                      {'even': True}, 'storage fault at metadata read %d' % at)
            fake.fail_reads = None
    # long windows (weeks to months, across month and year boundaries, December included): sparse recordings over 14 months
    fake = FakeS3()
    with fake.installed():
        start14 = dt.datetime(2021, 10, 3, 7, 30)
        inst = [start14 + dt.timedelta(days=3 * i, hours=(5 * i) % 24) for i in range(140)]
        ids = build(fake, inst, 'long')
        reader = fake.cassette('r', key_prefix='long', read_only=True)
        lrng = random.Random(ctx.seed + 5)
        for qn in range(ctx.budget(120, 4000)):
            s = start14 + dt.timedelta(days=lrng.randrange(-5, 420), hours=lrng.randrange(24))
            e = s + dt.timedelta(days=lrng.choice([1, 10, 29, 30, 31, 32, 33, 45, 60, 90, 200, 400]), hours=lrng.randrange(24))
            if lrng.random() < 0.25:
                query(ctx, reader, fake, ids, s, None, inst[-1] + dt.timedelta(days=2), None, 'long-now')
            else:
                query(ctx, reader, fake, ids, s, e, inst[-1] + dt.timedelta(days=2), None, 'long')
        ctx.count('long_window_queries')
    # two lookups with different windows in flight at the same time on ONE cassette object (listings are lazy generators)
    fake = FakeS3()
    with fake.installed():
        hours2 = [T0 + dt.timedelta(hours=h) for h in range(72)]
        ids = build(fake, hours2, 'il')
        reader = fake.cassette('r', key_prefix='il', read_only=True)
        irng = random.Random(ctx.seed + 9)
        fake.now = hours2[-1] + dt.timedelta(hours=3)
        for qn in range(ctx.budget(40, 1500)):
            wins = []
            for _ in range(2):
                a = irng.randrange(0, 70)
                wins.append((hours2[a], hours2[min(71, a + irng.randrange(0, 40))]))
            gens = [reader.iter_recording_ids('Op', start_date=w[0], end_date=w[1]) for w in wins]
            got = [[], []]
            alive = [0, 1]
            try:
                while alive:
                    g = irng.choice(alive)
                    try:
                        got[g].append(next(gens[g]))
                    except StopIteration:
                        alive.remove(g)
            except Exception as ex:
                ctx.violation('interleaved time-window listings raised %s' % type(ex).__name__, {'windows': [list(map(str, w)) for w in wins]})
                continue
            for g in (0, 1):
                exp = set(rid for rid, (i, t) in ids.items() if wins[g][0] <= t <= wins[g][1])
                ctx.case(('interleaved', str(wins[0]), str(wins[1]), g))
                ctx.count('interleaved_listings')
                if set(got[g]) != exp or len(got[g]) != len(set(got[g])):
                    ctx.violation('a time-window listing consumed while another listing of the same cassette was in flight is not exact',
                                  {'windows': [list(map(str, w)) for w in wins], 'listing': g, 'outside': len(set(got[g]) - exp), 'missed': len(exp - set(got[g]))})
    # a process that keeps running for days: the clock moves on AFTER the modules were imported (here: into the real future), lookups
    # without an end are asked at each "now"
    fake = FakeS3()
    with fake.installed():
        base_future = dt.datetime.utcnow().replace(minute=0, second=0, microsecond=0) + dt.timedelta(days=400)
        instants = [base_future + dt.timedelta(hours=7 * i) for i in range(14)]          # four days
        reader = fake.cassette('r', key_prefix='fut', read_only=True)
        ids = {}

        def at_future_now(now):
            for s_ in (instants[0], now - dt.timedelta(hours=30), now - dt.timedelta(hours=1)):
                query(ctx, reader, fake, ids, s_, None, now, None, 'open end, clock past the import time')
            ctx.count('open_ended_queries_with_a_clock_after_import')
        build(fake, instants, 'fut', ids=ids, each=at_future_now)
    if ctx.shard == 0:
        concurrent_day_change(ctx)
    ctx.sample({'recordings': 'one per hour from %s for 96 h' % T0, 'query': {'start': str(hours[20]), 'end': str(hours[30])},
                'expected_ids': 11})
    ctx.sample({'start': str(hours[22]), 'end': str(hours[25]), 'note': 'window crossing midnight with end earlier in the day than start'})


def replay(ctx, w):
    print('re-run with the same VERIF_SEED; witness:', w)
