"""C11 Recorded data cannot be altered through the values handed out.

(a) aliasing monitor: no mutable node may be shared between two hand-outs of the same data, between two fetches of a
recording, or between a hand-out and what is read later; (b) behavioural: deep-mutate everything obtained, then
read / fetch / replay again and compare with a pristine harness-side snapshot; (c) copy-on-interception: values
mutated by the service after capture must be recorded as they were at capture time.
"""
import random

from vlib import env
from vlib.cassettes import open_box, KINDS
from vlib.programs import Built, World, describe, gen_program, playback_function_for, call_outcome
from vlib.spies import SpyCassette
from vlib.values import recording_in_domain, Gen, teq, fresh, in_domain, mutate_deep, shares_mutable, mutable_ids

PROPERTY = 'C11'
LEVEL = 'exploration'
RULE = ('(1) seeded recordings with every mutable value shape (nested lists/dicts/sets/objects, optionally shared sub-objects) on memory/file/S3: each key read, '
        'deep-mutated, re-read; metadata and metadata-only fetch mutated and re-fetched; second fetch compared and checked for shared nodes; original values '
        'mutated after save; (2) replay programs that mutate every injected input and every recorded output, replayed twice; (3) copy-on-interception programs '
        'mutating intercepted values after capture. A case = one recording / program; distinct = hash of its description; non-trivial = at least one mutable node was mutated.')
ASSUMPTIONS = ['re-reading get_metadata() on the same Recording object after mutating its result is not judged', 'get_data_direct is documented to hand out the stored object',
               'output arguments mutated after the call are not judged for copy-on-interception (documented for intercepted values/results)']


def recording_case(ctx, seed):
    rng = random.Random(seed)
    kind = ('memory', 'file', 's3')[seed % 3]
    g = Gen(rng, ctx)
    sharing = rng.random() < 0.3
    for _ in range(20):
        data = {'k%d' % i: g.mutable_value(3, sharing=sharing) for i in range(rng.randrange(1, 5))}
        md = {'m%d' % i: g.mutable_value(2, sharing=sharing) for i in range(rng.randrange(0, 3))}
        if seed % 4 == 3:
            # a value of a class that is serialized through a handler the service registered with the serializer
            from vlib.values import PriceTable
            data['custom'] = {'table': PriceTable([[1, 10], [2, 20], [3, 30]], 'p%d' % seed), 'n': [1]}
        if recording_in_domain(data, md):
            break
    else:
        return
    if 'custom' in data:
        ctx.count('recordings_with_a_custom_serializer_handler')
    w = {'case_seed': seed, 'cassette': kind, 'keys': sorted(data)}
    with open_box(kind) as box:
        cas = box.cassette
        rec = cas.create_new_recording('Cat')
        model_d, model_m = fresh(data), fresh(md)
        for k, v in data.items():
            rec.set_data(k, v)
        rec.add_metadata(md)
        cas.save_recording(rec)
        # the service keeps mutating the objects it handed to the recorder after the save
        nmut = mutate_deep(data) + mutate_deep(md)
        reader = box.reader()
        if rng.random() < 0.6:
            # the usual flow: a lookup finds the id, then it is fetched (and fetched again)
            listed = list(reader.iter_recording_ids('Cat'))
            if rec.id not in listed:
                ctx.violation('saved recording not listed on %s cassette' % kind, w)
            ctx.count('fetches_after_a_lookup')
        r1 = reader.get_recording(rec.id)
        if seed % 5 == 2:
            # the holder closes the fetched recording (it will not write to it) and goes on reading from it
            try:
                r1.close()
                ctx.count('reads_from_a_fetched_recording_that_was_closed')
            except Exception:
                pass
        handed = []
        for k in sorted(model_d):
            v1 = r1.get_data(k)
            ctx.count('reads_checked')
            if not teq(v1, model_d[k]):
                ctx.violation('stored value changed by mutating the original object after save (%s cassette)' % kind, dict(w, key=k))
                continue
            nmut += mutate_deep(v1)
            v2 = r1.get_data(k)
            if shares_mutable(v1, v2):
                ctx.violation('two reads of the same key share a mutable object', dict(w, key=k))
            if not teq(v2, model_d[k]):
                ctx.violation('second read of a key observes the mutation applied to the first result', dict(w, key=k, second=repr(v2)[:200]))
            v3 = r1[k]
            if not teq(v3, model_d[k]) or shares_mutable(v3, v2):
                ctx.violation('recording[key] hands out a shared or altered object', dict(w, key=k))
            handed.append(v2)
            handed.append(v1)
        m1 = r1.get_metadata()
        if not teq(m1, model_m):
            ctx.violation('stored metadata changed by mutating the original object after save', w)
        nmut += mutate_deep(m1)
        mo = reader.get_recording_metadata(rec.id)
        if not teq(mo, model_m):
            ctx.violation('metadata-only fetch observes a mutation of an earlier fetch', w)
        nmut += mutate_deep(mo)
        mo2 = reader.get_recording_metadata(rec.id)
        if not teq(mo2, model_m) or shares_mutable(mo, mo2):
            ctx.violation('two metadata-only fetches are not independent', w)
        # writing into the first fetched recording object (item assignment) must not reach later fetches either
        try:
            r1['__added_by_the_reader__'] = ['x']
            for k in sorted(model_d)[:1]:
                r1[k] = 'OVERWRITTEN-IN-FIRST-FETCH'
        except Exception:
            pass
        # second fetch of the recording: independent graph, pristine content
        r2 = reader.get_recording(rec.id)
        if set(r2.get_all_keys()) != set(model_d):
            ctx.violation('second fetch observes keys written into the first fetched recording object (%s cassette)' % kind, w)
        ctx.count('fetch_pairs_checked')
        if not teq(r2.get_metadata(), model_m):
            ctx.violation('second fetch observes the mutation of the metadata of the first fetch (%s cassette)' % kind, w)
        if shares_mutable(r2.get_metadata(), m1):
            ctx.violation('two fetches share a mutable metadata object', w)
        for k in sorted(model_d):
            v = r2.get_data(k)
            if not teq(v, model_d[k]):
                ctx.violation('second fetch observes the mutation applied through the first fetch (%s cassette)' % kind, dict(w, key=k))
            if any(shares_mutable(v, h) for h in handed):
                ctx.violation('a value of the second fetch shares a mutable object with a value handed out by the first fetch', dict(w, key=k))
        ctx.case({'seed': seed, 'kind': kind, 'data': repr(model_d)[:300]}, nontrivial=nmut > 0)
        ctx.count('mutable_nodes_mutated', nmut)


def replay_case(ctx, seed):
    from playback.tape_recorder import TapeRecorder
    rng = random.Random(seed)
    kind = ('memory', 'file', 's3')[seed % 3]
    prog = gen_program(rng, threads=False, nested=False, explicit_raise=0, raise_rate=0.05, max_in_decls=3, max_out_decls=2, try_steps=False, record_data=False)
    # after every call mutate what was obtained
    body = []
    for s in prog['body']:
        body.append(s)
        if s['op'] in ('in', 'out') and 'var' in s:
            body.append({'op': 'mutate', 'var': s['var']})
    p_mut = dict(prog, body=body)
    w = {'case_seed': seed, 'cassette': kind, 'program': describe(prog)}
    if (seed // 3) % 2 == 1:
        # the replayed code has renamed its inputs since the recording was made: every input is found through a fallback alias
        from vlib.programs import clone
        p_mut = clone(p_mut)
        for d in p_mut['inputs']:
            if d.get('resolver') is None and not d.get('fallback'):
                d['fallback'] = [d['alias']] if seed % 2 else ('fn', [d['alias']])
                d['alias'] = d['alias'] + '.renamed'
        ctx.count('replays_through_fallback_aliases')
        w['renamed_inputs'] = True
    with open_box(kind) as box:
        spy = SpyCassette(box.cassette)
        rec = TapeRecorder(spy)
        rec.enable_recording()
        live = Built(prog, rec, World(prog['seed_world'], raise_rate=0.05))   # recorded without mutation
        live.snapshot = True
        live.run('live')
        saves = [e for e in spy.log if e[0] == 'save']
        if len(saves) != 1:
            return
        ro = spy.recordings[saves[0][1]]
        if not recording_in_domain(ro.recording_data, ro.recording_metadata):
            ctx.count('recordings_out_of_serializer_domain')
            return
        rec2 = TapeRecorder(box.reader())
        prev_handouts = []
        nmut = 0
        first_sig = None
        for round_no in range(2):
            rep = Built(p_mut, rec2, World(1, poison=True), cls_name=live.cls.__name__)
            rep.snapshot = True
            try:
                pb = rec2.play(saves[0][2], playback_function_for(rep))
            except BaseException as ex:  # noqa
                # the mutation changed the arguments of a later call: legitimate divergence of the mutated program
                ctx.count('replays_diverged_by_own_mutation')
                return
            calls_live = live.journal.calls()
            calls_rep = rep.journal.calls()
            # calls up to the first one whose arguments were affected by the program's own mutation are comparable
            for x, y in zip(calls_live, calls_rep):
                if x['decl'] != y['decl'] or not teq(x['args'], y['args']) or not teq(x['kwargs'], y['kwargs']):
                    break
                ctx.count('injected_values_checked')
                if 'exc' in x:
                    continue
                if 'ret_snap' not in y or not teq(y['ret_snap'], x['ret_snap']):
                    ctx.violation('replay %d injected a value altered by mutations done during an earlier replay / read' % (round_no + 1),
                                  dict(w, decl=x['decl'], injected=repr(y.get('ret_snap'))[:200], recorded=repr(x['ret_snap'])[:200]))
                    break
                if any(shares_mutable(y['ret'], h) for h in prev_handouts):
                    ctx.violation('value injected in replay %d shares a mutable object with a value injected earlier' % (round_no + 1), dict(w, decl=x['decl']))
                prev_handouts.append(y['ret'])
            ro_snap = fresh([(o.key, o.value) for o in pb.recorded_outputs])
            if first_sig is None:
                first_sig = ro_snap
            elif not teq(sorted(ro_snap, key=lambda kv: kv[0]), sorted(first_sig, key=lambda kv: kv[0])):
                ctx.violation('recorded_outputs of the second replay differ after mutating those of the first', w)
            for o in pb.recorded_outputs:
                nmut += mutate_deep(o.value)
            for o in pb.playback_outputs:
                nmut += mutate_deep(o.value)
            # the played recording that comes with the result is read AFTER the outputs handed out were normalised in place
            # (a result extractor popping a field, a comparator sorting a list): it still says what was recorded
            for key, val in ro_snap:
                ctx.count('original_recording_reads_after_mutating_outputs')
                try:
                    again = pb.original_recording.get_data(key)
                except Exception as ex:
                    ctx.violation('reading the played recording after mutating the recorded outputs raised %s' % type(ex).__name__, dict(w, key=key))
                    break
                if not teq(again, val):
                    ctx.violation('the recording that comes with a Playback changed when the recorded outputs it handed out were mutated', dict(w, key=key))
                    break
            nmut += mutate_deep(pb.original_recording.get_metadata())
            # ... and it is still the stored recording: same keys, equal data under every key
            stored = box.reader().get_recording(saves[0][2])
            orig = pb.original_recording
            if set(orig.get_all_keys()) != set(stored.get_all_keys()):
                ctx.violation('the recording that comes with a Playback has other keys than the stored recording after the replay',
                              dict(w, extra=sorted(set(orig.get_all_keys()) - set(stored.get_all_keys()))[:3]))
            else:
                for key in stored.get_all_keys():
                    ctx.count('original_recording_keys_compared_with_the_store')
                    if not teq(orig.get_data(key), stored.get_data(key)):
                        ctx.violation('the recording that comes with a Playback differs from the stored recording after the replayed code mutated what it was handed',
                                      dict(w, key=key))
                        break
        ctx.case({'seed': seed, 'kind': kind, 'prog': describe(prog)}, nontrivial=True)
        ctx.count('replay_pairs')


def exception_case(ctx, seed):
    """Recorded exceptions are recorded data too: replayed code that catches an injected exception and annotates it in place must
    not change what a later call of the same key - in the same replay or in the next one - is handed."""
    from playback.tape_recorder import TapeRecorder
    from vlib.values import StatefulError, UserError
    rng = random.Random(seed)
    kind = ('memory', 'file', 's3')[seed % 3]
    static = rng.random() < 0.5
    d = {'name': 'in0', 'io': 'in', 'kind': 'static' if static else 'instance', 'nparams': 1, 'resolver': None, 'capture': 'all',
         'handler': rng.choice([None, 'wrap']), 'fallback': None, 'run_original': False, 'substitute': ('none',), 'nested': [], 'alias': 'exc.in'}
    calls = [rng.choice([1, 2]) for _ in range(rng.randrange(2, 6))]
    mk = lambda mut: [{'op': 'try', 'mutate_caught': mut, 'body': [{'op': 'in', 'decl': 'in0', 'args': [{'lit': a}], 'kwargs': {}, 'var': 'v%d' % i}]}
                      for i, a in enumerate(calls)]
    prog = {'seed_world': seed, 'class_level': False, 'extractor': None, 'params': None, 'opts': {'raise_rate': 0}, 'inputs': [d], 'outputs': [],
            'body': mk(False), 'uid': 950000 + seed % 40000}
    p_mut = dict(prog, body=mk(True))
    w = {'case_seed': seed, 'cassette': kind, 'calls': calls, 'case': 'exception'}
    with open_box(kind) as box:
        spy = SpyCassette(box.cassette)
        rec = TapeRecorder(spy)
        rec.enable_recording()
        live = Built(prog, rec, World(seed, force_raise=rng.choice([StatefulError, StatefulError, UserError])))
        live.run('live')
        saves = [e for e in spy.log if e[0] == 'save']
        if len(saves) != 1 or any(e[0] == 'save_failed' for e in spy.log):
            ctx.count('exception_cases_not_saved')
            return
        rec2 = TapeRecorder(box.reader())
        pristine = None
        for round_no in range(2):
            rep = Built(p_mut, rec2, World(1, poison=True), cls_name=live.cls.__name__)
            pb = rec2.play(saves[0][2], playback_function_for(rep))
            for e in rep.journal.calls():
                ctx.count('injected_exceptions_checked')
                if 'exc' not in e:
                    ctx.violation('recorded exception was not raised in replay', w)
                    return
                if pristine is None:
                    pristine = e['exc_state']
                elif e['exc_state'] != pristine:
                    ctx.violation('replay %d injected an exception altered by what the replayed code did to an earlier injected exception' % (round_no + 1),
                                  dict(w, pristine=pristine, got=e['exc_state']))
                    return
            # what the replay left in the fetched recording must not have been altered either
            orig = pb.original_recording
            for k in orig.get_all_keys():
                v = orig.get_data(k)
                if isinstance(v, dict) and 'exception' in v:
                    st = (repr(getattr(v['exception'], 'args', None)), repr(sorted((a, repr(b)) for a, b in vars(v['exception']).items())))
                    if st != pristine:
                        ctx.violation('the recording played holds an exception altered by the replayed code', dict(w, pristine=pristine, got=st))
                        return
        ctx.case(('exception', seed, kind, tuple(calls)), nontrivial=True)


def concurrent_fetches_under_scheduler(ctx):
    """Two threads fetch two DIFFERENT recordings through one cassette object at the same time (two recorders replaying in parallel over a
    shared file / in-memory cassette). Each recording holds objects that are referenced more than once. Explored with the deterministic
    scheduler; preemption points: the cassette module and the serializer's decoder. Every fetch hands out exactly what was stored."""
    import shutil
    import tempfile
    from vlib import sched as S
    import jsonpickle.unpickler
    from playback.tape_cassettes.file_based.file_based_tape_cassette import FileBasedTapeCassette
    from playback.tape_cassettes.in_memory.in_memory_tape_cassette import InMemoryTapeCassette
    import playback.tape_cassettes.file_based.file_based_tape_cassette as fmod
    import playback.tape_cassettes.in_memory.in_memory_tape_cassette as mmod
    from vlib.values import Obj
    d = tempfile.mkdtemp(prefix='vp-c11-conc-')
    try:
        for kind in ('file', 'memory'):
            cas = FileBasedTapeCassette(d) if kind == 'file' else InMemoryTapeCassette()
            tg = [(fmod if kind == 'file' else mmod).__file__, jsonpickle.unpickler.__file__]
            ids, models = [], []
            for i in range(2):
                order = Obj(number=i, lines=['line-%d' % i])
                r = cas.create_new_recording('Cat')
                r.set_data('input: load', {'value': order})
                r.set_data('output: send #1.output', {'args': [order], 'kwargs': {}})          # the same object again: a reference in the stored form
                r.add_metadata({'n': i})
                models.append({'input: load': {'value': Obj(number=i, lines=['line-%d' % i])},
                               'output: send #1.output': {'args': [Obj(number=i, lines=['line-%d' % i])], 'kwargs': {}}})
                cas.save_recording(r)
                ids.append(r.id)
            holder = {}

            def make(sched, cas=cas, ids=ids):
                out = {}
                holder['out'] = out

                def fetcher(i):
                    def fn():
                        try:
                            got = cas.get_recording(ids[i])
                            out[i] = {k: got.get_data_direct(k) for k in got.get_all_keys()}
                        except Exception as ex:
                            out[i] = ex
                    return fn

                def main():
                    ths = [sched.Thread(target=fetcher(i), name='fetcher%d' % i) for i in range(2)]
                    for t in ths:
                        t.start()
                    for t in ths:
                        t.join()
                return main

            def on_run(rec, desc, kind=kind, models=models):
                ctx.case((kind, rec.trace), nontrivial=len(rec.points) > 0)
                ctx.count('concurrent_fetch_schedules')
                w = {'concurrent_fetches': True, 'cassette': kind, 'schedule': desc if isinstance(desc, tuple) else list(desc)}
                if rec.aborted or rec.error is not None:
                    if rec.aborted and 'budget' in rec.aborted:
                        ctx.count('schedules_over_step_budget')
                        return
                    ctx.violation('concurrent fetches: %s' % (rec.aborted or repr(rec.error))[:100], w)
                    return
                for i, got in holder['out'].items():
                    if isinstance(got, Exception):
                        ctx.violation('fetching a recording raised %s while another thread fetched another recording through the same %s cassette' % (type(got).__name__, kind),
                                      dict(w, fetcher=i))
                        return
                    if not teq(got, models[i]):
                        ctx.violation('a recording fetched while another thread fetched another recording through the same %s cassette differs from what was stored' % kind,
                                      dict(w, fetcher=i, got=repr(got)[:200]))
                        return
            S.explore_random(make, tg, ctx.budget(60, 3000), ctx.rng, on_run, step_budget=200000)
    finally:
        shutil.rmtree(d, ignore_errors=True)


def async_live_reads(ctx):
    """A recording in progress on the asynchronous cassette is read back by the service (get_data / recording[key]) and the value it
    got is modified: later reads of the live recording and what is finally stored still show what was recorded."""
    from vlib.cassettes import async_over
    from vlib.values import Obj
    for kind in ('memory', 'file', 's3'):
        with open_box(kind) as box:
            a = async_over(box.cassette)
            rec = a.create_new_recording('Cat')
            original = {'rows': [1, 2, {'k': [3]}], 'totals': {'sum': 3}, 'obj': Obj(items=[4])}
            model = fresh(original)
            rec.set_data('k', original)
            w = {'async_live_reads': True, 'cassette': kind}
            ctx.case(w)
            ctx.count('live_reads_on_the_asynchronous_cassette')
            v1 = rec.get_data('k')
            mutate_deep(v1)
            v2 = rec['k'] if kind != 'file' else rec.get_data('k')
            if not teq(v2, model) or shares_mutable(v1, v2):
                ctx.violation('a second read of a live recording on the asynchronous cassette observes the mutation applied to the first result', w)
            mutate_deep(v2)
            rec.add_metadata({'m': [1]})
            a.save_recording(rec)
            a.close()
            try:
                stored = box.reader().get_recording(rec.id).get_data('k')
            except Exception as ex:
                ctx.violation('recording saved through the asynchronous cassette not readable: %s' % type(ex).__name__, w)
                continue
            # (the ORIGINAL object was handed over by reference and never modified: what is stored is what was recorded)
            if not teq(stored, model):
                ctx.violation('what the asynchronous cassette stored was altered through a value handed out by a live read', dict(w, stored=repr(stored)[:200]))


def overlapping_fetches(ctx):
    """Two threads fetch the SAME recording through ONE cassette object at the same time (a replay pool sharing its cassette): on S3 the
    first download is stalled until the second request is under way. The two fetched recordings are independent object graphs."""
    import threading
    import time
    from vlib.values import Obj
    for kind in ('s3', 'memory', 'file'):
        for rnd in range(2 if ctx.quick else 6):
            with open_box(kind, prefix=('', 'ov')[rnd % 2]) as box:
                cas = box.cassette
                rec = cas.create_new_recording('Cat')
                rec.set_data('rows', {'value': [[1, 2], {'k': [3]}, Obj(name='o', items=[4])]})
                rec.set_data('n', {'value': [5]})
                rec.add_metadata({'stops': ['a', 'b'], 'plan': {'legs': [1, 2]}})
                cas.save_recording(rec)
                reader = box.reader()
                second_started = threading.Event()
                stalled = {'n': 0}
                if box.fake is not None:
                    real_get = box.fake.get

                    def slow_get(owner, bucket, key):
                        if '/full/' in key and stalled['n'] == 0:
                            stalled['n'] += 1
                            second_started.wait(5)
                            time.sleep(0.05)            # the second request is inside get_recording by now
                        return real_get(owner, bucket, key)
                    box.fake.get = slow_get
                got = {}

                def fetch(i):
                    if i == 1:
                        time.sleep(0.02)
                        second_started.set()
                    try:
                        got[i] = reader.get_recording(rec.id)
                    except BaseException as ex:  # noqa
                        got[i] = ex
                ths = [threading.Thread(target=fetch, args=(i,)) for i in range(2)]
                for t in ths:
                    t.start()
                for t in ths:
                    t.join(30)
                w = {'overlapping_fetches': True, 'cassette': kind, 'round': rnd}
                ctx.case(w)
                ctx.count('overlapping_fetch_pairs')
                if any(isinstance(got.get(i), BaseException) or got.get(i) is None for i in range(2)):
                    ctx.violation('fetching one recording from two threads at once failed: %r' % ([type(got.get(i)).__name__ for i in range(2)],), w)
                    continue
                a, b = got[0], got[1]
                shared = shares_mutable(a.get_metadata(), b.get_metadata()) or any(shares_mutable(a.get_data_direct(k), b.get_data_direct(k)) for k in ('rows', 'n'))
                if a is b or shared:
                    ctx.violation('two overlapping fetches of one recording share %s' % ('the recording object' if a is b else 'mutable objects'), w)
                    continue
                # one holder works on its copy by reference; the other one still sees what was recorded
                mutate_deep(a.get_metadata())
                mutate_deep(a.get_data_direct('rows'))
                if not teq(b.get_metadata(), {'stops': ['a', 'b'], 'plan': {'legs': [1, 2]}}) or not teq(b.get_data('n'), {'value': [5]}) or \
                        not teq(b.get_data('rows')['value'][0], [1, 2]):
                    ctx.violation('a fetch that overlapped with another fetch of the same recording observes what the other holder did to its copy', w)


def fetches_of_an_object_the_store_does_not_show(ctx):
    """The cassette that SAVED a recording is asked for it while the store does not show the object (not visible yet, expired, removed
    behind the cassette): either there is no such recording, or what is handed out is - like every fetched recording - an object graph
    of its own: independent of other fetches, of the recording object that was saved and of the service's live objects."""
    import os
    from playback.exceptions import NoSuchRecording
    from vlib.values import Obj
    for kind in ('s3', 'file'):
        for rnd in range(3 if ctx.quick else 12):
            with open_box(kind, prefix=('', 'lost/')[rnd % 2]) as box:
                cas = box.cassette
                live_rows = [[1, 2], {'k': [3]}, Obj(name='o', items=[4])]
                live_md = {'stops': ['a', 'b'], 'plan': {'legs': [1, 2]}}
                rec = cas.create_new_recording('Cat')
                rec.set_data('rows', {'value': live_rows})
                rec.set_data('n', {'value': [5]})
                rec.add_metadata(live_md)
                others = []
                for j in range(rnd % 3):
                    o = cas.create_new_recording('Cat')
                    o.set_data('n', {'value': [j]})
                    cas.save_recording(o)
                    others.append(o)
                cas.save_recording(rec)
                if kind == 's3':
                    for key in [k for k in box.fake.snapshot() if '/full/' in k and k.endswith(rec.id)]:
                        box.fake._b('bkt').pop(key)          # (not a request of any client: the store simply does not show it)
                else:
                    for name in os.listdir(cas.directory):
                        if rec.id.rsplit('/', 1)[-1] in name:
                            os.remove(os.path.join(cas.directory, name))
                w = {'store_does_not_show_the_object': True, 'cassette': kind, 'round': rnd}
                ctx.case(w)
                got = []
                for i in range(2):
                    try:
                        got.append(cas.get_recording(rec.id))
                    except NoSuchRecording:
                        got.append(None)
                    except BaseException as ex:  # noqa
                        ctx.count('fetch_of_a_lost_object_ended_with_' + type(ex).__name__)
                        got.append(None)
                ctx.count('fetches_of_objects_the_store_does_not_show', 2)
                if got[0] is None or got[1] is None:
                    ctx.count('answered_no_such_recording')
                    continue
                a, b = got
                if a is b or shares_mutable(a.get_metadata(), b.get_metadata()) or any(shares_mutable(a.get_data_direct(k), b.get_data_direct(k)) for k in ('rows', 'n')):
                    ctx.violation('two fetches of a recording the store does not show share %s' % ('the recording object' if a is b else 'mutable objects'), w)
                    continue
                if shares_mutable(a.get_metadata(), live_md) or shares_mutable(a.get_data_direct('rows'), live_rows) or \
                        shares_mutable(a.get_metadata(), rec.get_metadata()):
                    ctx.violation('a fetched recording shares mutable objects with the recording object that was saved / the live objects of the service', w)
                    continue
                mutate_deep(a.get_metadata())
                mutate_deep(a.get_data_direct('rows'))
                mutate_deep(live_rows)
                if not teq(b.get_metadata().get('stops'), ['a', 'b']) or not teq(b.get_data('n'), {'value': [5]}) or not teq(b.get_data('rows')['value'][0], [1, 2]):
                    ctx.violation('a fetched recording observes what another holder did to its copy', w)


def concurrent_reads(ctx):
    """Fresh copies are also promised to readers on different threads: two threads read recorded values (with shared sub-objects)
    at the same time. Explored with the deterministic scheduler; the preemption points include the lines of the serializer
    (jsonpickle pickler / unpickler), because that is where a copy spends its time."""
    from vlib import sched as S
    import jsonpickle.pickler
    import jsonpickle.unpickler
    import playback.utils.pickle_copy as pc
    import playback.recordings.memory.memory_recording as mr
    from playback.recordings.memory.memory_recording import MemoryRecording
    from vlib.values import Obj
    tg = [pc.__file__, mr.__file__, jsonpickle.pickler.__file__, jsonpickle.unpickler.__file__]
    part = Obj(name='order-part')
    recs = []
    for i in range(2):
        shared = [i, 'shared-%d' % i]
        r = MemoryRecording('Cat/%d' % i)
        r.set_data('k', {'value': [shared, {'again': shared}, Obj(name='item-%d' % i), shared]})
        r.set_data('j', {'value': (i, [Obj(name='x-%d' % i)])})
        recs.append(r)
    models = [{k: fresh(r.recording_data[k]) for k in ('k', 'j')} for r in recs]
    holder = {}

    def make(sched):
        out = {}
        holder['out'] = out

        def reader(i):
            def fn():
                for k in ('k', 'j', 'k'):
                    try:
                        out.setdefault(i, []).append((k, recs[i].get_data(k)))
                    except Exception as ex:
                        out.setdefault(i, []).append((k, ex))
            return fn

        def main():
            ths = [sched.Thread(target=reader(i), name='reader%d' % i) for i in range(2)]
            for t in ths:
                t.start()
            for t in ths:
                t.join()
        return main

    def on_run(rec, desc):
        ctx.case(rec.trace, nontrivial=len(rec.points) > 0)
        ctx.count('concurrent_read_schedules')
        w = {'concurrent_reads': True, 'schedule': desc if isinstance(desc, tuple) else list(desc)}
        if rec.aborted or rec.error is not None:
            if rec.aborted and 'budget' in rec.aborted:
                ctx.count('schedules_over_step_budget')
                return
            ctx.violation('concurrent reads: %s' % (rec.aborted or repr(rec.error))[:100], w)
            return
        seen = []
        for i, items in holder['out'].items():
            for k, v in items:
                if isinstance(v, Exception):
                    ctx.violation('get_data raised %s while another thread was reading too' % type(v).__name__, dict(w, reader=i, key=k))
                    return
                if not teq(v, models[i][k]):
                    ctx.violation('a value read while another thread was reading too differs from what is recorded', dict(w, reader=i, key=k, got=repr(v)[:200]))
                    return
                if any(shares_mutable(v, o) for o in seen) or shares_mutable(v, recs[i].recording_data[k]):
                    ctx.violation('values read concurrently share a mutable object', dict(w, reader=i, key=k))
                    return
                seen.append(v)
    S.explore_random(make, tg, ctx.budget(120, 6000), ctx.rng, on_run, step_budget=200000)


def copy_case(ctx, seed):
    from playback.tape_recorder import TapeRecorder
    rng = random.Random(seed)
    kind = ('memory', 'file', 's3')[seed % 3]
    prog = gen_program(rng, threads=False, nested=False, explicit_raise=0, raise_rate=0.0, max_in_decls=3, max_out_decls=2, try_steps=False, record_data=False,
                       handlers=False, properties=False)
    for d in prog['inputs']:
        if rng.random() < 0.4:
            d['handler'] = 'wrap'      # an envelope handler whose prepared form still references the live result
    prog['params'] = {'copy': True}
    if (seed // 5) % 3 == 2:
        prog['params']['copy_set_later'] = True       # the flag is switched on, on the registered settings object, after the registration
        ctx.count('copy_cases_with_the_flag_switched_on_after_registration')
    if (seed // 7) % 4 == 3 and not prog['params'].get('copy_set_later'):
        prog['params']['with_keyword'] = True
        ctx.count('copy_cases_registered_with_an_object_and_a_keyword')
    variant = (seed // 3) % 4
    if (seed // 12) % 3 == 1:
        prog['base_params'] = {'copy': False, 'rate': 1.0}     # the class extends a configured base class that does NOT copy
        ctx.count('copy_cases_with_a_configured_base_class')
    if variant == 2:
        prog['params']['rate'] = 0           # never sampled by rate - kept only because the operation enforces sampling
    elif variant == 3:
        prog['params']['rate'] = 1e-9
    body = []
    for s in prog['body']:
        body.append(s)
        if s['op'] in ('in', 'out') and 'var' in s:
            body.append({'op': 'mutate', 'var': s['var']})
    prog['body'] = [s for s in body if s['op'] != 'return']
    w = {'case_seed': seed, 'cassette': kind, 'program': describe(prog)}
    with open_box(kind) as box:
        spy = SpyCassette(box.cassette)
        rec = TapeRecorder(spy)
        rec.enable_recording()
        faults = {}
        if variant >= 2:
            from vlib.faultruns import dry_trace
            mains = [pos for pos, op, dn in dry_trace(prog) if pos[0] == 'main']
            if mains:
                faults[rng.choice(mains)] = 'force'
                ctx.count('copy_cases_kept_by_enforced_sampling_only')
        if (seed // 5) % 3 == 0:
            # earlier on this long-lived recorder: values that could NOT be copied (they hold a live resource), a dict and a list
            from vlib.programs import Unencodable, clone as _clone_prog
            from playback.tape_recorder import RecordingParameters

            class EarlierOp(object):
                @rec.operation()
                def execute(self):
                    return [self.read_dict(), self.read_list()]

                @rec.intercept_input('earlier.dict')
                def read_dict(self):
                    return {'conn': Unencodable()}

                @rec.intercept_input('earlier.list')
                def read_list(self):
                    return [Unencodable()]
            EarlierOp = rec.recording_params(RecordingParameters(copy_data_on_intercepion=True))(EarlierOp)
            try:
                EarlierOp().execute()
            except Exception:
                pass
            del spy.log[:]
            ctx.count('copy_cases_after_an_uncopyable_value_on_the_same_recorder')
        live = Built(prog, rec, World(prog['seed_world'], raise_rate=0.0), faults=faults)
        live.snapshot = True
        live.run('live')
        saves = [e for e in spy.log if e[0] == 'save']
        if len(saves) != 1 or any(e[0] == 'save_failed' for e in spy.log):
            ctx.count('copy_cases_not_saved')
            return
        got = box.reader().get_recording(saves[0][2])
        recorded_values = []
        for k in got.get_all_keys():
            if k.startswith('input:') or k.endswith('.result'):
                d = got.get_data(k)
                if 'value' in d:
                    v = d['value']
                    if isinstance(v, dict) and v.get('by') == 'in-handler' and 'wrapped' in v:
                        v = v['wrapped']
                        ctx.count('copy_on_interception_values_through_a_handler')
                    recorded_values.append(v)
        snaps = [e['returned_snap'] for e in live.journal.bodies() if 'returned_snap' in e and e.get('call_n') is not None]
        ctx.case({'seed': seed, 'kind': kind, 'prog': describe(prog)}, nontrivial=bool(snaps))
        # every value recorded must equal the value some body returned at capture time (pre-mutation)
        for v in recorded_values:
            ctx.count('copy_on_interception_values_checked')
            if not any(teq(v, s) for s in snaps):
                ctx.violation('with copy-on-interception a value mutated after capture was recorded in its mutated form', dict(w, recorded=repr(v)[:300]))
                break


def file_case(ctx, seed):
    """The injected input is a FILE: replayed code that modifies the restored file in place (same length) must not change what a later
    fetch in the same replay, or a later replay of the recording at the same path, observes."""
    import os
    import shutil
    import tempfile
    from playback.tape_recorder import TapeRecorder
    from playback.interception.files.input_file_interception import InputInterceptionFileDataHandler
    from vlib import genclasses
    rng = random.Random(seed)
    kind = ('memory', 'file', 's3')[seed % 3]
    content = bytes(rng.randrange(256) for _ in range(rng.choice([1, 16, 300, 5000])))
    static = rng.random() < 0.5
    nfetch = rng.choice([2, 3])
    w = {'case_seed': seed, 'cassette': kind, 'file_case': True, 'size': len(content), 'static': static}
    d = tempfile.mkdtemp(prefix='vp-c11f-')
    try:
        with open_box(kind) as box:
            spy = SpyCassette(box.cassette)
            rec = TapeRecorder(spy)
            rec.enable_recording()
            handler = InputInterceptionFileDataHandler(0 if static else 1, 'file_path')
            bodies = [0]

            def fetch_body(file_path):
                bodies[0] += 1
                with open(file_path, 'wb') as f:
                    f.write(content)
                return file_path
            ns = {}
            if static:
                ns['fetch'] = staticmethod(rec.static_intercept_input('c11.fetch', data_handler=handler, capture_args=[])(lambda file_path: fetch_body(file_path)))
            else:
                ns['fetch'] = rec.intercept_input('c11.fetch', data_handler=handler, capture_args=[])(lambda self, file_path: fetch_body(file_path))
            seen = []

            def execute(self, path):
                for i in range(nfetch):
                    got = self.fetch(path)
                    with open(got, 'rb') as f:
                        seen.append(f.read())
                    with open(got, 'r+b') as f:          # in-place edit that keeps the length (status flag, header patch ...)
                        f.write(bytes([(content[0] + 1 + i) % 256]))
                return nfetch
            ns['execute'] = rec.operation()(execute)
            cls = genclasses.register(type('C11File%d' % (seed % 100000), (object,), ns))
            path = os.path.join(d, 'in.bin')
            cls().execute(path)
            saves = [e for e in spy.log if e[0] == 'save']
            if len(saves) != 1 or seen != [content] * nfetch:
                ctx.count('file_cases_not_saved')
                return
            ctx.case(w)
            nb = bodies[0]
            rec.tape_cassette = box.reader()
            for rnd in range(2):
                del seen[:]
                rec.play(saves[0][2], lambda recording: cls().execute(path))
                for i, got in enumerate(seen):
                    ctx.count('restored_files_checked')
                    if got != content:
                        ctx.violation('an injected input file modified in place by replayed code was observed modified by a later %s' % (
                            'fetch of the same replay' if rnd == 0 else 'replay of the same recording'), dict(w, replay=rnd + 1, fetch=i + 1))
                        return
            if bodies[0] != nb:
                ctx.violation('file input body executed during replay', w)
    finally:
        shutil.rmtree(d, ignore_errors=True)


def deep_stack_case(ctx, seed):
    """Reads made from deep inside the call stack of replayed code (recursive algorithms, deep framework stacks): the serializer's
    copy is recursive itself and may run out of stack. Whatever happens then, a value that IS handed out must be a fresh copy."""
    import sys
    from playback.recordings.memory.memory_recording import MemoryRecording
    rng = random.Random(seed)
    kind = ('memory', 'file', 's3')[seed % 3]
    tree = leaf = {'leaf': ['x']}
    for i in range(rng.choice([20, 60, 90])):
        tree = {'level': i, 'children': [tree], 'tags': ['t%d' % i]}
    with open_box(kind) as box:
        r = box.cassette.create_new_recording('Deep')
        r.set_data('input: tree args=[], kwargs=[]', {'value': tree})
        r.set_data('flat', {'value': [1, [2, 3], {'a': [4]}]})
        box.cassette.save_recording(r)
        got = box.reader().get_recording(r.id)
        limit = sys.getrecursionlimit()

        def at_depth(n, fn):
            return fn() if n <= 0 else at_depth(n - 1, fn)
        for key in ('input: tree args=[], kwargs=[]', 'flat'):
            for depth in (0, limit // 2, limit - 400, limit - 250, limit - 120, limit - 60):
                ctx.count('deep_stack_reads')
                try:
                    v = at_depth(depth, lambda: got.get_data(key))
                except RecursionError:
                    ctx.count('deep_stack_reads_refused_by_recursion_limit')
                    continue
                except Exception as ex:
                    ctx.count('deep_stack_reads_raising_' + type(ex).__name__)
                    continue
                ctx.case(('deep', kind, key[:5], depth, seed % 7))
                stored = got.get_data_direct(key) if hasattr(got, 'get_data_direct') else got.recording_data[key]
                if shares_mutable(v, stored):
                    ctx.violation('a read made from deep inside the call stack handed out the stored object itself instead of a copy',
                                  {'case_seed': seed, 'deep_stack': True, 'cassette': kind, 'key': key, 'stack_depth': depth})
                    return
                mutate_deep(v, rng) if not isinstance(v, dict) or 'value' not in v else v['value'].clear() if hasattr(v['value'], 'clear') else None


def run(ctx):
    base = ctx.seed * 1000003 + ctx.shard * 1000000
    for i in range(ctx.budget(300, 10000)):
        recording_case(ctx, base + i)
    for i in range(ctx.budget(150, 6000)):
        replay_case(ctx, base + i)
    for i in range(ctx.budget(150, 6000)):
        copy_case(ctx, base + i)
    for i in range(ctx.budget(60, 3000)):
        exception_case(ctx, base + i)
    for i in range(ctx.budget(40, 1500)):
        file_case(ctx, base + i)
    for i in range(ctx.budget(6, 200)):
        deep_stack_case(ctx, base + i)
    concurrent_reads(ctx)
    if ctx.shard == 0:
        overlapping_fetches(ctx)
        fetches_of_an_object_the_store_does_not_show(ctx)
        async_live_reads(ctx)
        concurrent_fetches_under_scheduler(ctx)
    if not ctx.quick and ctx.shard == 0:
        from vlib.repo_tests import run_under_monitors
        res, tail = run_under_monitors()
        if res is None:
            ctx.count('repo_tests_under_monitors_unavailable')
        else:
            ctx.count('repo_tests_aliasing_monitor_evaluations', res['alias_evaluations'])
            ctx.note('repo_tests_summary', tail)
            for v in res['alias_violations']:
                ctx.violation('get_data handed out a value sharing a mutable object with the stored one during a repository test', v)
    ctx.sample({'recording_case': 'read k, deep-mutate, read k again, fetch again', 'example_value': repr(Gen(random.Random(base)).mutable_value(3))[:300]})
    if not ctx.counters.get('reads_checked'):
        ctx.inconclusive('no read checked')


def replay(ctx, w):
    if w.get('concurrent_fetches'):
        return concurrent_fetches_under_scheduler(ctx)
    if w.get('async_live_reads'):
        return async_live_reads(ctx)
    if w.get('store_does_not_show_the_object'):
        return fetches_of_an_object_the_store_does_not_show(ctx)
    if w.get('overlapping_fetches'):
        return overlapping_fetches(ctx)
    s = w['case_seed']
    recording_case(ctx, s)
    replay_case(ctx, s)
    copy_case(ctx, s)
    exception_case(ctx, s)
    file_case(ctx, s)
    if w.get('deep_stack'):
        deep_stack_case(ctx, s)
