"""C13 Comparison runs always finish and leave no worker behind.

Bounded-progress + process-census monitor on real worker processes: monotonic timestamps per yielded comparison,
task -> worker pid log, /proc census after the run completed, was closed early, was abandoned by a consumer exception
or was dropped and garbage collected.  A harness watchdog at ~10x the expected duration turns a hang into a violation
(for this property a hang IS the refuting event).
"""
import itertools

from vlib import env
from vlib import eqharness as H

PROPERTY = 'C13'
LEVEL = 'fault_enumeration'
RULE = ('sequences of 1-12 recordings with hang / exit / late-answer behaviours at first, last, consecutive and recycle-boundary positions, recycle rate in '
        '{1,2,3}, timeout 1 s, consumption full | generator closed after k | consumer raises after k | generator dropped and garbage collected. A case = one '
        'sequence x configuration; distinct = its hash; non-trivial = it contains a fault or is consumed partially.')
ASSUMPTIONS = ['liveness is judged as bounded progress: every comparison within timeout + margin (10 s) of the previous one, workers gone within grace (10 s)',
               'each case first measures a 0.3 s sleep; if that takes > 1 s the machine is overloaded and the case is re-run serially, only a second failure counts',
               'zombie (exited, not yet reaped) processes count as gone']

MARGIN = 10.0
TIMEOUT = 1.0


def cases_for(ctx):
    cases = []
    E, D = 'equal', 'different'
    cases.append({'behaviours': [E, 'hang', E, E], 'recycle': 2, 'consume': 'full'})
    cases.append({'behaviours': ['exit', E, D], 'recycle': 3, 'consume': 'full'})
    cases.append({'behaviours': [E, E, 'late', E, E], 'recycle': 2, 'consume': 'full'})
    cases.append({'behaviours': [E, D, E, E, E, D, E], 'recycle': 2, 'consume': 'full'})
    cases.append({'behaviours': [E, D, E, E, E], 'recycle': 3, 'consume': ['close', 2]})
    cases.append({'behaviours': [E, D, E, E, E], 'recycle': 2, 'consume': ['raise', 3]})
    cases.append({'behaviours': [E, D, E, E, E], 'recycle': 5, 'consume': ['drop', 1]})
    cases.append({'behaviours': ['hang', 'hang', E], 'recycle': 1, 'consume': 'full'})
    cases.append({'behaviours': [E, E, 'hang'], 'recycle': 3, 'consume': 'full'})
    cases.append({'behaviours': [E, 'exit', 'late', E], 'recycle': 2, 'consume': ['close', 3]})
    cases.append({'behaviours': [E, 'late', E], 'recycle': 1, 'consume': ['drop', 2]})
    cases.append({'behaviours': [E], 'recycle': 1, 'consume': 'full'})
    # a fault exactly on a worker's last allowed replay (recycle boundary), followed by more replays than the rate
    cases.append({'behaviours': [E, E, 'exit', E, E, E, E, E], 'recycle': 3, 'consume': 'full'})
    cases.append({'behaviours': [E, 'hang', E, E, E, E], 'recycle': 2, 'consume': 'full'})
    # a worker killed while it sits idle between two replays: the run must continue with a working fresh worker
    cases.append({'behaviours': [E, 'die_idle', E, D, E, E], 'recycle': 5, 'consume': 'full'})
    # a hung worker whose replayed code installed a SIGTERM handler must still be gone afterwards
    cases.append({'behaviours': [E, 'hang_sigterm_ignored', E], 'recycle': 3, 'consume': 'full'})
    # Ctrl-C: SIGINT reaches the whole process group (consumer and workers) while a replay hangs; the run is abandoned
    cases.append({'behaviours': [E, 'hang', E], 'recycle': 3, 'consume': ['sigint', 2]})
    # a host process that ignores SIGCHLD (children are reaped by the kernel, their exit status is never delivered)
    cases.append({'behaviours': [E, E, 'hang', E, E], 'recycle': 3, 'consume': 'full', 'host': 'sigchld_ignored'})
    # replays whose answer the consumer process cannot read (the worker itself is fine): still a failure verdict, the recycle rate
    # still holds, nothing is left behind
    cases.append({'behaviours': ['unpicklable_answer', 'unpicklable_answer', 'unpicklable_answer', E, 'unpicklable_answer', E, E], 'recycle': 2, 'consume': 'full'})
    cases.append({'behaviours': [E, E, 'unpicklable_answer', E, E, E], 'recycle': 5, 'consume': ['raise', 4]})
    # timeout and recycle rate tightened on the caller's configuration object after the equalizer was built (also through the studio)
    cases.append({'behaviours': [E, E, 'hang', E, E, E], 'recycle': 5, 'timeout': 60.0, 'consume': 'full', 'tighten_after': {'timeout': 1.0, 'recycle': 2}})
    cases.append({'behaviours': [E, 'hang', E], 'recycle': 5, 'timeout': 60.0, 'consume': 'full', 'tighten_after': {'timeout': 1.0, 'recycle': 1}, 'via_studio': True})
    # a worker process cannot be started (fork fails with EAGAIN) exactly when the replay it would serve hangs
    cases.append({'behaviours': ['hang', E, E], 'recycle': 3, 'consume': 'full', 'fork_fails_at': [1]})
    cases.append({'behaviours': [E, 'exit', 'hang', E], 'recycle': 3, 'consume': 'full', 'fork_fails_at': [3]})
    # replayed code starts an asynchronous cassette of its own inside the worker and never closes it
    cases.append({'behaviours': [E, 'start_async_cassette', E, E, E], 'recycle': 2, 'consume': 'full'})
    # runs started through a long-lived studio object and abandoned; a parent descheduled right after forking a worker
    cases.append({'behaviours': [E, D, E, E, E], 'recycle': 2, 'consume': ['raise', 2], 'via_studio': True})
    cases.append({'behaviours': [E, D, E, E, E], 'recycle': 3, 'consume': ['drop', 1], 'via_studio': True})
    cases.append({'behaviours': [E, E, E, E, E, E, E], 'recycle': 2, 'consume': 'full', 'slow_start': 0.4})
    # two comparison runs alive in one process (two categories consumed in lock step): the end of one must not wait for, or take away,
    # the worker of the other
    cases.append({'behaviours': [E, D, E, E, E], 'recycle': 2, 'consume': 'full', 'companion': True})
    cases.append({'behaviours': [E, 'hang', E, D], 'recycle': 3, 'consume': ['close', 3], 'companion': True})
    # a timeout that is not a small number of seconds: "within roughly that timeout" does not depend on how long the timeout is
    cases.append({'behaviours': [E, 'hang', E], 'recycle': 3, 'timeout': 16.0, 'consume': 'full'})
    # the comparison is built in one process and consumed in a process forked from it (one forked consumer per category)
    cases.append({'behaviours': [E, D, E, E, E], 'recycle': 2, 'consume': 'full', 'consume_in_fork': True})
    cases.append({'behaviours': [E, D, E, E], 'recycle': 3, 'consume': ['close', 2], 'consume_in_fork': True})
    # a replay that ends the worker process with exit status 0; a worker that is lost while it holds the lock of the terminate event;
    # a second run of the same equalizer started while its first run is suspended
    cases.append({'behaviours': [E, 'exit0', E, D], 'recycle': 3, 'consume': 'full'})
    cases.append({'behaviours': [E, 'die_holding_event_lock', E, E, D], 'recycle': 5, 'consume': 'full'})
    cases.append({'behaviours': [E, E, D, E, E], 'recycle': 2, 'consume': 'full', 'second_run_while_first_suspended': True})
    # the caller's listing is an iterator object whose next() keeps failing once its store is gone
    cases.append({'behaviours': [E, D, E, E, E], 'recycle': 2, 'consume': 'full', 'ids_iterator': 'next_keeps_raising', 'listing_fails_after': 3})
    cases.append({'behaviours': [E, E], 'recycle': 3, 'consume': 'full', 'ids_iterator': 'next_keeps_raising', 'listing_fails_after': 0})
    # the timeout given as a decimal / a fraction (settings parsed from a file)
    cases.append({'behaviours': [E, 'hang', E, E, E], 'recycle': 2, 'timeout': 1.0, 'timeout_type': 'decimal', 'consume': 'full'})
    cases.append({'behaviours': ['hang', E], 'recycle': 3, 'timeout': 1.0, 'timeout_type': 'fraction', 'consume': 'full'})
    # a timeout of zero: every replay that does not answer at once is given up at once (not "no timeout")
    cases.append({'behaviours': ['hang', 'hang'], 'recycle': 3, 'timeout': 0, 'consume': 'full'})
    # the ids come from a generator of the caller whose clean-up fails / that swallows GeneratorExit; the run is abandoned
    cases.append({'behaviours': [E, D, E, E, E], 'recycle': 3, 'consume': ['close', 2], 'ids_iterator': 'close_raises'})
    cases.append({'behaviours': [E, D, E, E, E], 'recycle': 2, 'consume': ['raise', 2], 'ids_iterator': 'ignores_generator_exit'})
    if ctx.quick:
        return cases
    cases.append({'behaviours': [E, D, E, E], 'recycle': 2, 'consume': ['drop', 1], 'ids_iterator': 'close_raises'})
    cases.append({'behaviours': [E, 'hang', E], 'recycle': 2, 'timeout': 0.0, 'consume': ['close', 2]})
    cases.append({'behaviours': [E, D, E], 'recycle': 1, 'consume': ['raise', 2], 'companion': True})
    cases.append({'behaviours': ['exit', E, 'hang'], 'recycle': 2, 'timeout': 24.0, 'consume': 'full'})
    cases.append({'behaviours': [E, 'hang', E, E], 'recycle': 2, 'consume': 'full', 'via_studio': True})
    cases.append({'behaviours': ['start_async_cassette', E, E], 'recycle': 5, 'consume': ['close', 2]})
    cases.append({'behaviours': [E, 'exit', E, E, E], 'recycle': 1, 'consume': 'full', 'slow_start': 0.3})
    cases.append({'behaviours': ['hang', E], 'recycle': 1, 'consume': ['sigint', 1]})
    cases.append({'behaviours': [E, E, E, 'hang'], 'recycle': 2, 'consume': ['sigint', 4]})
    cases.append({'behaviours': ['exit', E, 'late', E], 'recycle': 2, 'consume': 'full', 'host': 'sigchld_ignored'})
    cases.append({'behaviours': [E, 'hang_sigterm_ignored', E, 'die_idle', E, E], 'recycle': 5, 'consume': 'full', 'host': 'sigchld_ignored'})
    cases.append({'behaviours': [E, D, E, E, E], 'recycle': 2, 'consume': ['drop', 2], 'host': 'sigchld_ignored'})
    rng = ctx.rng
    for b, pos, recycle in itertools.product(H.FATAL, [0, 1, 2, 3], [1, 2, 3]):
        seq = [E, D, E, E]
        seq[pos] = b
        for consume in ('full', ['close', pos + 1], ['raise', max(1, pos)], ['drop', pos + 1]):
            cases.append({'behaviours': seq, 'recycle': recycle, 'consume': consume})
    for b1, b2 in itertools.product(H.FATAL, H.FATAL):
        cases.append({'behaviours': [b1, b2, E], 'recycle': rng.choice([1, 2, 3]), 'consume': 'full'})
        cases.append({'behaviours': [E, b1, b2], 'recycle': rng.choice([1, 2, 3]), 'consume': rng.choice(['full', ['close', 2], ['drop', 3]])})
    for i in range(60):
        n = rng.randrange(1, 13)
        seq = [rng.choice([E, E, E, D] + H.FATAL) for _ in range(n)]
        if sum(1 for b in seq if b in ('hang', 'late', 'hang_sigterm_ignored')) > 3:
            continue
        k = rng.randrange(1, n + 1)
        cases.append({'behaviours': seq, 'recycle': rng.choice([1, 2, 3]), 'consume': rng.choice(['full', 'full', ['close', k], ['raise', k], ['drop', k]])})
    return cases


def judge(ctx, case, res, w):
    beh = case['behaviours']
    if case.get('second_run_while_first_suspended'):
        beh = beh[1:]             # (the first recording went to the suspended first run; the judged second run gets the rest)
    n_expected = len(beh) if case['consume'] == 'full' else min(len(beh), case['consume'][1])
    problems = []
    if case['consume'] != 'full' and case['consume'][0] == 'sigint':
        n_expected = case['consume'][1] - 1          # the interrupt arrives while replay number k hangs
        if 'KeyboardInterrupt' not in (res['error'] or ''):
            ctx.inconclusive('harness: the interrupt did not reach the consumer (%s)' % res['error'])
            return problems
    if case.get('ids_iterator') == 'next_keeps_raising':
        # the caller's listing fails for good after k ids: the run ENDS (with the listing's own error), the ids handed out before got their
        # verdicts, nothing is left behind
        n_expected = case['listing_fails_after']
        if len(res['results']) == n_expected + 1 and res['results'][-1]['status'] == 'EqualizerFailure':
            n_expected += 1                  # (reporting the listing's failure as one more failure comparison is a way of ending, too)
        ctx.count('runs_whose_listing_fails_for_good')
        if res['error'] and 'listing failed' not in res['error']:
            problems.append(('a comparison run whose listing fails for good did not end (with the listing\'s error or normally): %s' % res['error'], {}))
    elif case['consume'] == 'full' and (not res['finished'] or res['error']):
        problems.append(('comparison run did not finish normally: %s' % (res['error'] or 'generator not exhausted'), {}))
    if len(res['results']) != n_expected:
        problems.append(('run yielded %d comparisons, %d expected' % (len(res['results']), n_expected), {}))
    comp = res.get('companion') or {}
    if case.get('companion'):
        ctx.count('runs_with_a_second_run_alive')
        if comp.get('error') or comp.get('got') != comp.get('expected'):
            problems.append(('a second comparison run alive in the same process did not get its verdicts (%s, got %r)' % (comp.get('error'), comp.get('got')), {}))
    timeout = case['tighten_after']['timeout'] if case.get('tighten_after') else case.get('timeout', TIMEOUT)
    # bounded progress per comparison
    prev = 0.0
    for i, t in enumerate(res['stamps']):
        dt = t - prev
        prev = t
        ctx.maximum('max_seconds_for_one_comparison', round(dt, 3))
        ctx.count('comparisons_timed')
        if dt > timeout + MARGIN:
            problems.append(('comparison %d (%s) took %.1f s, timeout is %.1f s' % (i, beh[i], dt, timeout), {'timing': True}))
    # failures are reported as failures (termination with the right verdict for hang/exit)
    for i, r in enumerate(res['results']):
        if beh[i] in ('hang', 'exit', 'exit0', 'hang_sigterm_ignored') and r['status'] != 'EqualizerFailure':
            problems.append(('a %s worker was not reported as a failure (%s)' % (beh[i], r['status']), {}))
    # "the run continues with a fresh worker": healthy replays after a fault get their own verdict
    # (a worker that could not be STARTED is a resource fault outside the property's fault model: which replays fail because of it is not
    #  judged - only that the run goes on, stays within the time bound and leaves nothing behind)
    # (with a timeout of zero a healthy replay that does not answer at once is legitimately given up too: its verdict is not judged)
    # (a worker lost while it holds the terminate event's lock: which of the following replays notices the loss depends on pipe timing - not judged)
    for i, r in enumerate(res['results'] if not case.get('fork_fails_at') and timeout > 0 and 'die_holding_event_lock' not in beh else []):
        if beh[i] in ('equal', 'different', 'start_async_cassette') and not (i > 0 and beh[i - 1] in (H.IDLE_DEATH, 'die_holding_event_lock')):
            if r['status'] != H.EXPECTED[beh[i]]:
                problems.append(('healthy replay %d (%s) was reported as %s: the run did not continue with a working worker' % (i, beh[i], r['status']), {}))
    # recycle rate: no worker serves more replays than the configured rate
    per_pid = {}
    for p in res['task_pid']:
        per_pid[p] = per_pid.get(p, 0) + 1
    ctx.count('workers_seen', len(res['pids']))
    ctx.count('tasks_dispatched', len(res['task_pid']))
    for p, c in per_pid.items():
        ctx.maximum('max_tasks_per_worker_pid', c)
        if c > case['recycle']:
            problems.append(('worker pid %d served %d replays, recycle rate is %d' % (p, c, case['recycle']), {}))
    if set(res['task_pid']) - set(res['pids']) - ({None} if case.get('fork_fails_at') else set()):
        problems.append(('task handed to a process the harness never saw being created', {}))
    # census
    ctx.count('census_taken')
    if res['survivors']:
        problems.append(('%d worker process(es) still alive %.0f s after the run %s' % (
            len(res['survivors']), 10.0, 'completed' if case['consume'] == 'full' else 'was abandoned (%s)' % case['consume'][0]), {}))
    elif res['gone_after'] is not None:
        ctx.maximum('max_seconds_until_workers_gone', round(res['gone_after'], 3))
    return problems


def worker_lost_in_bootstrap(ctx):
    """Start method spawn: a worker is lost BEFORE it reaches its entry point (its bootstrap dies while it imports the application's main
    module - scripted with a counter file, at the first worker / after a recycle / after both). The replay given to the lost worker is
    reported as a failure, the run goes on with a fresh worker, completes and leaves no worker behind."""
    import json
    import os
    import signal
    import subprocess
    import sys
    import tempfile
    from vlib import env
    script = os.path.join(env.VERIF, 'vlib', 'eqspawn.py')
    for dies_at, n, recycle in ((2, 5, 2), (1, 3, 2), (3, 7, 3)) if ctx.quick else ((2, 5, 2), (1, 3, 2), (3, 7, 3), (2, 4, 1), (4, 9, 2)):
        case = {'behaviours': ['equal'] * n, 'start_method': 'spawn', 'recycle': recycle, 'keep': True, 'only_dedicated': True, 'timeout': 5}
        w = {'worker_lost_in_bootstrap': dies_at, 'case': case}
        ctx.case(w)
        verdict = None
        for attempt in range(2):
            fd, counter = tempfile.mkstemp(prefix='vp-eqspawn-counter-')
            os.close(fd)
            p = subprocess.Popen([sys.executable, script, json.dumps(case)], stdout=subprocess.PIPE, stderr=subprocess.PIPE, text=True, start_new_session=True,
                                 env=dict(os.environ, VERIF_REPO=env.REPO, VP_EQSPAWN_BOOTSTRAP_COUNTER=counter, VP_EQSPAWN_BOOTSTRAP_DIES=str(dies_at),
                                          PYTHONWARNINGS='ignore'))
            try:
                out, err = p.communicate(timeout=90)
                verdict = 'ended'
            except subprocess.TimeoutExpired:
                verdict = 'watchdog'
            try:
                os.killpg(p.pid, signal.SIGKILL)
            except OSError:
                pass
            if verdict == 'watchdog':
                out, err = p.communicate()
            boots = open(counter).read()
            os.unlink(counter)
            if verdict == 'ended':
                break
        ctx.count('runs_with_a_worker_lost_in_its_bootstrap')
        if verdict == 'watchdog':
            ctx.violation('comparison run did not terminate after a worker was lost in its bootstrap (harness watchdog of 90 s fired twice; worker bootstraps: %s)' % boots, w)
            continue
        lines = [l for l in out.splitlines() if l.startswith('{')]
        if p.returncode != 0 or not lines:
            ctx.inconclusive('spawn case crashed: %s' % err[-300:])
            continue
        res = json.loads(lines[-1])
        if int(boots or 0) < dies_at:
            ctx.count('bootstrap_fault_not_reached')
            continue
        ctx.count('census_taken')
        if res['error']:
            ctx.violation('comparison run ended with an error after a worker was lost in its bootstrap: %s' % res['error'][:150], w)
            continue
        got = res['dedicated']
        if [r['recording_id'] for r in got] != res['ids']:
            ctx.violation('not exactly one comparison per id, in order, after a worker was lost in its bootstrap (%d of %d)' % (len(got), len(res['ids'])), w)
            continue
        failures = [i for i, r in enumerate(got) if r['status'] != 'Equal']
        ctx.count('comparisons_timed', len(got))
        if len(failures) != 1 or got[failures[0]]['status'] != 'EqualizerFailure':
            ctx.violation('a run that lost exactly one worker in its bootstrap reported %r' % ([r['status'] for r in got],), w)
        if res['leftover_children']:
            ctx.violation('worker processes left after the run: %r' % (res['leftover_children'],), w)


def run(ctx):
    if ctx.shard == 0:
        worker_lost_in_bootstrap(ctx)
    cases = [dict(c, dedicated=True, keep=False) for i, c in enumerate(cases_for(ctx)) if ctx.mine(i)]
    outs = H.run_cases(cases, parallel=8 if ctx.nshards == 1 else 2)
    for case, (res, status) in zip(cases, outs):
        w = {'case': case}
        ctx.case(case, nontrivial=any(b in H.FATAL for b in case['behaviours']) or case['consume'] != 'full')
        ctx.count('consume_' + (case['consume'] if case['consume'] == 'full' else case['consume'][0]))
        if status == 'ok' and res['calib_s'] > 1.0:
            ctx.count('overloaded_reruns')
            res, status = H.run_one(case)
        if status == 'ok':
            problems = judge(ctx, case, res, w)
            if problems and any(p[1].get('timing') for p in problems):
                ctx.count('timing_reruns')
                res2, status2 = H.run_one(case)
                if status2 == 'ok':
                    problems = judge(ctx, case, res2, w)
            for what, extra in problems:
                ctx.violation(what, dict(w, stamps=res.get('stamps'), pids=res.get('pids'), task_pid=res.get('task_pid')))
        elif status == 'watchdog':
            res2, status2 = H.run_one(case)      # serial second attempt
            if status2 == 'watchdog':
                ctx.violation('comparison run did not terminate (harness watchdog fired twice)', dict(w, stderr=str(res2)[-500:]))
            elif status2 == 'ok':
                for what, extra in judge(ctx, case, res2, w):
                    ctx.violation(what, w)
            else:
                ctx.inconclusive('case crashed on re-run: %s' % str(res2)[-300:])
        else:
            ctx.inconclusive('equalizer case crashed: %s' % str(res)[-300:])
    ctx.sample({'case': cases[0] if cases else None, 'monitors': ['per-comparison monotonic timestamps', 'task->pid log', '/proc census within grace 10 s']})
    if not ctx.counters.get('census_taken') and not ctx.violations:
        ctx.inconclusive('no census taken')


def replay(ctx, w):
    if w.get('worker_lost_in_bootstrap'):
        return worker_lost_in_bootstrap(ctx)
    res, status = H.run_one(w['case'])
    if status != 'ok':
        print('case', status, res)
        return
    for what, extra in judge(ctx, w['case'], res, w):
        ctx.violation(what, w)
