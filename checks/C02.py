"""C02 Replay answers every interception from the recording or an explicit policy.

Monitors: body journal (a wrapped body may run during play() only when the policy asks for it), spy cassette
(no create/save/abort during play()), store snapshot before/after play(), and a reference replay policy evaluated
for every intercepted call at the call boundary.
"""
import itertools
import random

from vlib import env
from vlib.cassettes import open_box
from vlib.programs import (gen_program, Built, World, describe, playback_function_for, clone, canon, call_outcome, outcome_teq, Outcome)
from vlib.refmodels import ref_input_policy
from vlib.spies import SpyCassette
from vlib.values import recording_in_domain, teq, in_domain

PROPERTY = 'C02'
LEVEL = 'exploration'
RULE = ('(a) exhaustive option lattice: alias situation (main present | absent x fallback none/list-hit/list-miss/list-miss-then-hit/fn-hit/fn-miss) '
        'x run_original x substitute in {None, 5, 0, "", [], {}, False, callable} x instance/static, and for outputs result present/absent x '
        'fail flag x default in {None, 5, 0, (1,2)} x instance/static, each replayed 1-3 times with recording enabled and disabled; '
        '(b) seeded random pairs (recorded P, replayed P\') where P\' renames aliases, changes arguments and attaches random missing-key options. '
        'A case = one replay; distinct = hash of (lattice row | P, P\' description, cassette); non-trivial = replay made at least one intercepted call.')
ASSUMPTIONS = ['reference policy: first present key among main alias then fallback aliases -> recorded value/exception; else run original if opted in; else '
               'substitute if it is not None (callable -> called with the call arguments); else RecordingKeyError. Outputs: recorded result, else default '
               'iff fail_on_no_recorded_result is False, else RecordingKeyError',
               'a call "is present" iff the live run made a call with the same resolved alias and equal captured argument values passed the same way']

def CALLABLE_DEFAULT(*a, **k):
    raise AssertionError('the configured default result is a value, it must not be called')


class CallableDefault(object):
    def __init__(self, *a, **k):
        raise AssertionError('the configured default result is a value, it must not be instantiated')


SUBSTITUTES = [('none',), ('lit', 5), ('lit', 0), ('lit', ''), ('lit', []), ('lit', {}), ('lit', False), ('fn',)]
FALLBACKS = [None, ['old.alias'], ['nope'], ['nope', 'old.alias'], ('fn', ['old.alias']), ('fn', ['nope']),
             # the aliases given as another kind of iterable than a list
             ('as', 'tuple', ['nope', 'old.alias']), ('as', 'dict', ['old.alias']), ('as', 'dict_values', ['nope', 'old.alias']), ('as', 'dict_keys', ['nope']),
             ('as', 'iterable', ['nope', 'old.alias']), ('as', 'getitem', ['old.alias']), ('as', 'frozenset', ['old.alias'])]


def base_prog(static):
    kind = 'static' if static else 'instance'
    return {'seed_world': 77, 'class_level': False, 'extractor': None, 'params': None, 'opts': {'raise_rate': 0},
            'inputs': [{'name': 'old', 'io': 'in', 'kind': kind, 'nparams': 1, 'resolver': None, 'capture': 'all', 'handler': None,
                        'fallback': None, 'run_original': False, 'substitute': ('none',), 'nested': [], 'alias': 'old.alias'}],
            'outputs': [{'name': 'o', 'io': 'out', 'kind': kind, 'nparams': 1, 'handler': None, 'fail_on_no_result': True, 'default': None,
                         'nested': [], 'alias': 'out.alias'}],
            'body': [{'op': 'in', 'decl': 'old', 'args': [{'lit': 1}], 'kwargs': {}, 'var': 'v1'},
                     {'op': 'out', 'decl': 'o', 'args': [{'var': 'v1'}], 'kwargs': {}, 'var': 'v2'}], 'uid': 900000}


class ReplaySession(object):
    """Records P once on a cassette, then replays variants and watches the cassette."""

    def __init__(self, ctx, prog, kind, world_seed=None, raise_rate=0.0, force_raise=None, verbose=False):
        from playback.tape_recorder import TapeRecorder
        from vlib.programs import unprintable_values
        self.ctx = ctx
        # verbose: the framework's loggers are at DEBUG, the service object and some of the values it handles can be printed by their
        # owner only (their __repr__ raises for the framework and for the logging module)
        self.verbose = verbose
        if verbose:
            prog = dict(prog, unprintable_self=True)
        self.cm = open_box(kind)
        self.box = self.cm.__enter__()
        self.spy = SpyCassette(self.box.cassette)
        self.rec = TapeRecorder(self.spy)
        self.rec.enable_recording()
        with unprintable_values(0.4 if verbose else 0.0):
            self.live = Built(prog, self.rec, World(world_seed or prog['seed_world'], raise_rate=raise_rate, force_raise=force_raise))
            self.live.run('live')
        saves = [e for e in self.spy.log if e[0] == 'save']
        self.ok = len(saves) == 1
        if self.ok:
            self.rid = saves[0][2]
            ro = self.spy.recordings[saves[0][1]]
            self.ok = recording_in_domain(ro.recording_data, ro.recording_metadata)
        self.kind = kind

    def close(self):
        self.cm.__exit__(None, None, None)

    def shared_recorder(self):
        """One recorder reused for several replays (a regression job replays many recordings on one recorder)."""
        from playback.tape_recorder import TapeRecorder
        spy2 = SpyCassette(self.box.reader())
        rec2 = TapeRecorder(spy2)
        rec2._vp_spy = spy2
        return rec2

    def replay(self, p2, w, enabled, recorder=None, faults=None, verbose=None):
        """-> (Built of the replay, exception out of play() or None). Judges the cassette-immutability part."""
        from playback.tape_recorder import TapeRecorder
        import contextlib
        ctx = self.ctx
        verbose = self.verbose if verbose is None else verbose
        if verbose:
            p2 = dict(p2, unprintable_self=True)
            ctx.count('replays_with_debug_logging_and_unprintable_objects')
        if recorder is not None:
            rec2, spy2 = recorder, recorder._vp_spy
            del spy2.log[:]
            rec2.recording_enabled = False
        else:
            spy2 = SpyCassette(self.box.reader())
            rec2 = TapeRecorder(spy2)
        if enabled:
            rec2.enable_recording()
        rep = Built(p2, rec2, World(1, poison=True), cls_name=self.live.cls.__name__, faults=faults or {})
        before = self.box.snapshot()
        err = None
        try:
            with (env.debug_logging() if verbose else contextlib.nullcontext()):
                rec2.play(self.rid, playback_function_for(rep))
        except BaseException as ex:  # noqa
            err = ex
        after = self.box.snapshot()
        ctx.count('replays')
        ctx.count('replays_recording_enabled' if enabled else 'replays_recording_disabled')
        if spy2.writes():
            ctx.violation('cassette create/save/abort reached during play()', dict(w, calls=[e[0] for e in spy2.writes()]))
        if before != after:
            ctx.violation('the stored recording changed during play()', w)
        if rec2.in_recording_mode or rec2.in_playback_mode:
            ctx.violation('recorder not idle after play()', w)
        return rep, err


def judge_input_call(ctx, sess, rep, ev, d, present, w):
    """present: {(resolved alias, captured canon, style) -> live outcome}. Compares one replayed input call with the policy."""
    from playback.exceptions import RecordingKeyError
    args, kwargs = ev['args'], ev['kwargs']
    main, cpos, ckw = rep.key_identity(d, args, kwargs)
    fb = d.get('fallback')
    fbl = (list(fb[2]) if fb[0] == 'as' else list(fb[1])) if isinstance(fb, tuple) else (list(fb) if fb else [])
    possible = [(a, cpos, ckw) for a in [main] + fbl]
    sub = d.get('substitute', ('none',))
    pol = ref_input_policy(set(present), possible, d.get('run_original'), None if sub[0] == 'none' else sub)
    got = call_outcome(ev)
    nb = len([b for b in rep.journal.bodies() if b['decl'] == d['name'] and b['n'] > ev['n'] and b['n'] < ev.get('_end', 1 << 60)])
    ctx.count('policy_' + pol[0])
    ww = dict(w, decl=d['name'], policy=pol[0], got=repr(got)[:200])
    if pol[0] == 'recorded':
        exp = present[pol[1]]
        if not outcome_teq(got, exp):
            ctx.violation('call present in the recording (via %s) was not answered with its recorded outcome' % (
                'main alias' if pol[1][0] == main else 'fallback alias'), dict(ww, expected=repr(exp)[:200]))
    elif pol[0] == 'run_original':
        gv = got.value
        if d['kind'] == 'property_inner_sub' and isinstance(gv, dict) and list(gv) == ['by_descriptor']:
            gv = gv['by_descriptor']          # the user's own descriptor wraps whatever its getter (here: the original) returned
        if got.kind != 'ret' or not (isinstance(gv, dict) and 'POISON' in gv):
            ctx.violation('run-original policy: the original was not run / its value not returned', ww)
    elif pol[0] == 'substitute':
        if sub[0] == 'lit':
            if got.kind != 'ret' or not teq(got.value, sub[1]):
                ctx.violation('substitute value %r configured for a missing input was not returned' % (sub[1],), ww)
        else:
            calls = [e for e in rep.journal.events if e['ev'] == 'substitute_fn' and e['decl'] == d['name']]
            if got.kind != 'ret' or got.value != ('SUBST-FN', d['name']) or not calls:
                ctx.violation('callable substitute for a missing input was not called / its value not returned', ww)
    else:
        if got.kind != 'exc' or not isinstance(got.value, RecordingKeyError):
            ctx.violation('missing input with no policy did not raise the missing-key error', ww)
    return pol


def lattice(ctx):
    idx = 0
    for static in (False, True):
        P = base_prog(static)
        for kind in ('memory', 'file', 's3'):
            sess = ReplaySession(ctx, P, kind)
            try:
                live_in = call_outcome(sess.live.journal.calls()[0])
                live_out = call_outcome(sess.live.journal.calls()[1])
                present = {('old.alias', canon([1]), canon({})): live_in}
                # ---- inputs
                for main_present, fb, run_orig, sub in itertools.product([True, False], FALLBACKS, [False, True], SUBSTITUTES):
                    idx += 1
                    if not ctx.mine(idx) or (kind != 'memory' and idx % 5):
                        continue
                    p2 = clone(P)
                    d = p2['inputs'][0]
                    d['alias'] = 'old.alias' if main_present else 'new.alias'
                    d['fallback'], d['run_original'], d['substitute'] = fb, run_orig, sub
                    p2['body'] = [{'op': 'try', 'body': [p2['body'][0]]}]
                    row = {'row': 'input', 'static': static, 'cassette': kind, 'main_present': main_present, 'fallback': fb,
                           'run_original': run_orig, 'substitute': sub}
                    outcomes = []
                    for r in range(1 + idx % 3):
                        ctx.case(dict(row, replay_no=r))
                        rep, err = sess.replay(p2, {'lattice_row': row}, enabled=(idx + r) % 2 == 0, verbose=(idx + r) % 4 == 1)
                        calls = rep.journal.calls()
                        if len(calls) != 1:
                            ctx.violation('lattice replay made %d calls' % len(calls), {'lattice_row': row})
                            continue
                        pol = judge_input_call(ctx, sess, rep, calls[0], rep.decls['old'], present, {'lattice_row': row})
                        nb = len(rep.journal.bodies())
                        if nb != (1 if pol[0] == 'run_original' else 0):
                            ctx.violation('wrapped body executed %d times during replay, policy %s' % (nb, pol[0]), {'lattice_row': row})
                        outcomes.append(call_outcome(calls[0]))
                    if any(not outcome_teq(outcomes[0], o) for o in outcomes[1:]):
                        ctx.violation('a second replay of the same recording differed from the first', {'lattice_row': row})
                # ---- outputs
                for res_present, fail, default in itertools.product([True, False], [True, False], [None, 5, 0, (1, 2)]):
                    idx += 1
                    if not ctx.mine(idx):
                        continue
                    from playback.exceptions import RecordingKeyError
                    p2 = clone(P)
                    d = p2['outputs'][0]
                    d['alias'] = 'out.alias' if res_present else 'out.new'
                    d['fail_on_no_result'], d['default'] = fail, default
                    p2['body'] = [{'op': 'try', 'body': [dict(p2['body'][1], args=[{'lit': 3}])]}]
                    row = {'row': 'output', 'static': static, 'cassette': kind, 'result_present': res_present, 'fail_flag': fail, 'default': default}
                    ctx.case(row)
                    rep, err = sess.replay(p2, {'lattice_row': row}, enabled=idx % 2 == 0)
                    got = call_outcome(rep.journal.calls()[0])
                    ctx.count('policy_output_' + ('recorded' if res_present else ('error' if fail else 'default')))
                    if rep.journal.bodies():
                        ctx.violation('output body executed during replay', {'lattice_row': row})
                    if res_present:
                        ok = outcome_teq(got, live_out)
                    elif fail:
                        ok = got.kind == 'exc' and isinstance(got.value, RecordingKeyError)
                    else:
                        ok = got.kind == 'ret' and teq(got.value, default)
                    if not ok:
                        ctx.violation('output call in replay not answered per the missing-result policy', {'lattice_row': row, 'got': repr(got)[:200]})
            finally:
                sess.close()
    # ---- inputs whose RECORDED outcome is an exception: present calls must re-raise it whatever the missing-key options say
    from vlib.programs import BUILTIN_EXCEPTIONS
    from vlib.values import UserError
    for exc in [UserError] + BUILTIN_EXCEPTIONS:
        P = base_prog(False)
        P['body'] = [{'op': 'try', 'body': [P['body'][0]]}]
        sess = ReplaySession(ctx, P, 'memory', force_raise=exc)
        try:
            live_in = call_outcome(sess.live.journal.calls()[0])
            present = {('old.alias', canon([1]), canon({})): live_in}
            for main_present, run_orig, sub in itertools.product([True, False], [False, True], SUBSTITUTES):
                idx += 1
                if not ctx.mine(idx):
                    continue
                p2 = clone(P)
                d = p2['inputs'][0]
                d['alias'] = 'old.alias' if main_present else 'new.alias'
                d['fallback'] = None if main_present else ['old.alias']
                d['run_original'], d['substitute'] = run_orig, sub
                row = {'row': 'input-recorded-exception', 'exception': exc.__name__, 'via': 'main' if main_present else 'fallback',
                       'run_original': run_orig, 'substitute': sub}
                ctx.case(row)
                rep, err = sess.replay(p2, {'lattice_row': row}, enabled=idx % 2 == 0)
                calls = rep.journal.calls()
                if len(calls) != 1:
                    ctx.violation('lattice replay made %d calls' % len(calls), {'lattice_row': row})
                    continue
                judge_input_call(ctx, sess, rep, calls[0], rep.decls['old'], present, {'lattice_row': row})
                ctx.count('recorded_exception_rows')
                if rep.journal.bodies():
                    ctx.violation('wrapped body executed during replay although the call is present in the recording (as an exception)', {'lattice_row': row})
        finally:
            sess.close()
    # ---- precedence among SEVERAL present keys: main alias first, then the fallback aliases in the order given
    from vlib.values import UserError as _UE
    for static in (False, True):
        P = base_prog(static)
        mk = lambda name, alias: dict(P['inputs'][0], name=name, alias=alias)
        P['inputs'] = [mk('old', 'old.alias'), mk('aaa', 'aaa.alias'), mk('zzz', 'zzz.alias')]
        P['body'] = [{'op': 'in', 'decl': n, 'args': [{'lit': 1}], 'kwargs': {}, 'var': 'v_' + n} for n in ('zzz', 'old', 'aaa')]
        for kind in ('memory', 'file', 's3'):
            sess = ReplaySession(ctx, P, kind)
            try:
                vals = {e['decl']: call_outcome(e) for e in sess.live.journal.calls()}
                present = {(n + '.alias', canon([1]), canon({})): vals[n] for n in ('old', 'aaa', 'zzz')}
                for main, fb in [('old.alias', ['aaa.alias']), ('old.alias', ['zzz.alias']), ('old.alias', ('fn', ['zzz.alias', 'aaa.alias'])),
                                 ('new.alias', ['zzz.alias', 'aaa.alias']), ('new.alias', ['aaa.alias', 'zzz.alias']), ('new.alias', ['nope', 'zzz.alias', 'old.alias']),
                                 ('aaa.alias', ['old.alias']), ('zzz.alias', ['old.alias', 'aaa.alias'])]:
                    idx += 1
                    if not ctx.mine(idx):
                        continue
                    p2 = clone(P)
                    d = dict(p2['inputs'][0], name='q', alias=main, fallback=fb, run_original=idx % 2 == 0, substitute=SUBSTITUTES[idx % len(SUBSTITUTES)])
                    p2['inputs'] = [d]
                    p2['body'] = [{'op': 'try', 'body': [{'op': 'in', 'decl': 'q', 'args': [{'lit': 1}], 'kwargs': {}, 'var': 'v'}]}]
                    row = {'row': 'precedence', 'static': static, 'cassette': kind, 'main': main, 'fallback': fb}
                    ctx.case(row)
                    rep, err = sess.replay(p2, {'lattice_row': row}, enabled=idx % 2 == 1)
                    calls = rep.journal.calls()
                    if len(calls) == 1:
                        judge_input_call(ctx, sess, rep, calls[0], rep.decls['q'], present, {'lattice_row': row})
                        ctx.count('precedence_rows')
                    if rep.journal.bodies():
                        ctx.violation('wrapped body executed during replay although a key of the call is present', {'lattice_row': row})
            finally:
                sess.close()
    # ---- run-original of an input that is new in the replayed code: its body runs, but the interceptions made FROM that body are
    #      ordinary interceptions of the replay and must be answered from the recording
    for static in (False, True):
        P = base_prog(static)
        sess = ReplaySession(ctx, P, 'memory')
        try:
            idx += 1
            if ctx.mine(idx):
                p2 = clone(P)
                nd = dict(p2['inputs'][0], name='brandnew', alias='brand.new', run_original=True, nparams=0,
                          nested=[{'op': 'in', 'decl': 'old', 'args': [{'lit': 1}], 'kwargs': {}}, {'op': 'out', 'decl': 'o', 'args': [{'lit': 'from-nested'}], 'kwargs': {}}])
                p2['inputs'] = p2['inputs'] + [nd]
                p2['body'] = [{'op': 'try', 'body': [{'op': 'in', 'decl': 'brandnew', 'args': [], 'kwargs': {}, 'var': 'v'}]}]
                row = {'row': 'run-original-with-nested-interceptions', 'static': static}
                ctx.case(row)
                rep, err = sess.replay(p2, {'lattice_row': row}, enabled=False)
                bodies = [b['decl'] for b in rep.journal.bodies()]
                ctx.count('nested_run_original_rows')
                if bodies != ['brandnew']:
                    ctx.violation('run-original of a new input: bodies executed during replay were %r, only the new input\'s own body may run' % (bodies,),
                                  {'lattice_row': row})
        finally:
            sess.close()
    ctx.note('lattice_rows', idx)


def rep_decl_has_handler(prog, name):
    return any(d['name'] == name and d.get('handler') for d in prog['outputs'])


def random_pair(ctx, case_seed):
    from playback.exceptions import RecordingKeyError
    rng = random.Random(case_seed)
    kind = ('memory', 'file', 's3')[case_seed % 3]
    # every fourth pair: the replayed operation makes some of its intercepted calls from worker threads it starts (and joins)
    prog = gen_program(rng, threads=(case_seed % 4 == 0), nested=False, explicit_raise=0.05, max_in_decls=4)
    if not prog['inputs']:
        return
    p2 = clone(prog)
    renamed = {}
    short_names = ['input', 'in', 'put', 'inp', 't', 'np', 'args', 'kwargs', 'py', 'tuple']     # new names that occur in the key format's own text
    rng.shuffle(short_names)
    for d in p2['inputs']:
        r = rng.random()
        if r < 0.4 and d.get('resolver') is None:
            renamed[d['name']] = d['alias']
            d['alias'] = d['alias'] + '.v2' if rng.random() < 0.7 or not short_names else short_names.pop()
            fr = rng.random()
            if fr < 0.3:
                d['fallback'] = [renamed[d['name']]]
            elif fr < 0.45:
                d['fallback'] = ['bogus', renamed[d['name']]]
            elif fr < 0.6:
                d['fallback'] = ('fn', [renamed[d['name']]])
            elif fr < 0.7:
                d['fallback'] = ['bogus']
        if d.get('resolver') is not None and rng.random() < 0.6:
            # an input whose alias is built from an argument AND that names fallback aliases (as a list, kept by the decorator)
            d['fallback'] = ['never.recorded.alias']
            ctx.count('resolver_inputs_with_a_fallback_list')
        d['run_original'] = rng.random() < 0.25
        d['substitute'] = rng.choice(SUBSTITUTES)
    for d in p2['outputs']:
        if rng.random() < 0.3:
            d['alias'] = d['alias'] + '.v2'
        d['fail_on_no_result'] = rng.random() < 0.5
        d['default'] = rng.choice([None, 5, 0, (1, 2), 'dflt', CALLABLE_DEFAULT, CallableDefault])      # a default may be any object, also a callable one

    def wrap_try(steps):
        out = []
        for s in steps:
            if s['op'] in ('in', 'out'):
                if s['op'] == 'in' and s['args'] and rng.random() < 0.2 and 'lit' in s['args'][0]:
                    s = dict(s, args=[{'lit': ('CHANGED', rng.randrange(100))}] + s['args'][1:])
                elif s['op'] == 'in' and len(s['kwargs']) >= 2 and rng.random() < 0.6:
                    s = dict(s, kwargs=dict(reversed(list(s['kwargs'].items()))))      # the replayed code writes its keyword arguments in another order
                out.append({'op': 'try', 'body': [s]})
            else:
                out.append(s)
        return out
    p2['body'] = wrap_try(p2['body'])
    desc = {'P': describe(prog), 'P2': describe(p2), 'cassette': kind}
    w = {'case_seed': case_seed, 'pair': desc}
    sess = ReplaySession(ctx, prog, kind, raise_rate=0.1, verbose=(case_seed % 5 == 3))
    try:
        if not sess.ok:
            ctx.count('recordings_out_of_serializer_domain_or_unsaved')
            return
        live = sess.live
        present = {}
        out_results = {}
        counters = {}
        for e in live.journal.calls():
            d = live.decls[e['decl']]
            if e['io'] == 'in':
                present[live.key_identity(d, e['args'], e['kwargs'])] = call_outcome(e)
            else:
                n = counters[d['alias']] = counters.get(d['alias'], 0) + 1
                if 'exc' not in e or isinstance(e['exc'], Exception):
                    out_results[(d['alias'], n)] = call_outcome(e)
        nrep = rng.choice([1, 1, 2, 3])
        first = None
        shared = sess.shared_recorder() if rng.random() < 0.6 else None
        for r in range(nrep):
            if r > 0 and shared is not None and rng.random() < 0.6:
                # a replay that fails out of play() in between (it requests an input that was never recorded, after making
                # its output calls) must not influence the following replays on the same recorder
                p_fail = clone(p2)
                p_fail['body'] = [s for s in p2['body']] + [{'op': 'in', 'decl': p2['inputs'][0]['name'],
                                                             'args': [{'lit': ('NEVER-RECORDED', r)}] * p2['inputs'][0]['nparams'], 'kwargs': {}, 'var': 'zz'}]
                p_fail['inputs'] = [dict(d, fallback=None, run_original=False, substitute=('none',)) for d in p_fail['inputs']]
                sess.replay(p_fail, w, enabled=rng.random() < 0.5, recorder=shared)
                ctx.count('failing_replays_in_between')
            rfaults = {}
            if rng.random() < 0.35:
                # the data handler of an output fails while the REPLAYED call is captured (e.g. the file handler when the replayed
                # code version no longer writes the file): the call is still answered from the recording, its body never runs
                from vlib.faultruns import dry_trace
                hpos = [pos for pos, op, dn in dry_trace(p2) if op == 'out' and rep_decl_has_handler(p2, dn)]
                if hpos:
                    rfaults[rng.choice(hpos)] = 'handler_raises'
                    ctx.count('replays_with_a_failing_output_handler')
            rep, err = sess.replay(p2, w, enabled=rng.random() < 0.5, recorder=shared, faults=rfaults)
            calls = rep.journal.calls()
            ctx.case(dict(desc, replay_no=r), nontrivial=bool(calls))
            counters2 = {}
            allowed_bodies = 0
            for e in calls:
                d = rep.decls[e['decl']]
                ctx.count('calls_judged')
                if e['io'] == 'in':
                    if d.get('handler') or d['kind'].startswith('property'):
                        pass
                    pol = judge_input_call(ctx, sess, rep, e, d, present, w)
                    if pol[0] == 'run_original':
                        allowed_bodies += 1
                else:
                    n = counters2[d['alias']] = counters2.get(d['alias'], 0) + 1
                    got = call_outcome(e)
                    exp = out_results.get((d['alias'], n))
                    if exp is not None:
                        ok = outcome_teq(got, exp)
                    elif d['fail_on_no_result']:
                        ok = got.kind == 'exc' and isinstance(got.value, RecordingKeyError)
                    else:
                        ok = got.kind == 'ret' and teq(got.value, d['default'])
                    if not ok:
                        ctx.violation('output call in replay not answered per the missing-result policy',
                                      dict(w, decl=d['name'], ordinal=n, got=repr(got)[:200], expected=repr(exp)[:200]))
            nb = len(rep.journal.bodies())
            if nb != allowed_bodies:
                ctx.violation('wrapped bodies executed %d times during replay, policy allows %d' % (nb, allowed_bodies), w)
            # per logical thread (worker threads of the replayed operation are scheduled by the OS: only the order within a thread is defined)
            sig = sorted((th, [(e['decl'], repr(call_outcome(e))[:80]) for e in evs]) for th, evs in rep.journal.by_thread(calls).items())
            if first is None:
                first = sig
            elif sig != first:
                ctx.violation('a later replay of the same recording differed from the first', w)
    finally:
        sess.close()


def store_changed_behind_the_cassette(ctx):
    """A long lived cassette object replays an id, the stored recording is then replaced by someone else (another handle / process, a
    restore that keeps size and timestamp), and the id is replayed again through the first object: every interception is answered from
    THE recording - the one the store holds when play() fetches it - never from what an earlier fetch saw."""
    import os
    from playback.tape_recorder import TapeRecorder
    for kind in ('file', 's3', 'memory'):
        for keep_stamp in (True, False):
            with open_box(kind) as box:
                rec = TapeRecorder(box.cassette)
                rec.enable_recording()
                state = {'answer': 'answer-AAAA', 'bodies': 0}

                class Svc(object):
                    ask = rec.intercept_input('svc.ask')(lambda self, q: (state.__setitem__('bodies', state['bodies'] + 1), state['answer'])[1])
                    tell = rec.intercept_output('svc.tell')(lambda self, v: (state.__setitem__('bodies', state['bodies'] + 1), 'told ' + v)[1])

                    @rec.operation()
                    def run(self):
                        return self.tell(self.ask('q'))
                Svc().run()
                rid = box.cassette.get_last_recording_id() if hasattr(box.cassette, 'get_last_recording_id') else None
                if rid is None:
                    ids = list(box.cassette.iter_recording_ids('Svc'))
                    rid = ids[-1]
                rec.disable_recording()
                state['bodies'] = 0
                seen = []
                play = lambda: rec.play(rid, lambda recording: seen.append(Svc().run()))   # noqa
                play()
                list(box.cassette.iter_recording_ids('Svc'))        # (a lookup reads the stored recordings as well)
                # someone else replaces the stored recording: same id, same length, another answer
                other = box.reader() if kind != 'memory' else box.cassette
                if kind == 'file':
                    path = [os.path.join(box.cassette.directory, n) for n in os.listdir(box.cassette.directory)][0]
                    st = os.stat(path)
                    with open(path, 'rb') as f:
                        raw = f.read()
                    assert raw.count(b'answer-AAAA') >= 1
                    with open(path, 'wb') as f:
                        f.write(raw.replace(b'answer-AAAA', b'answer-BBBB'))
                    if keep_stamp:
                        os.utime(path, ns=(st.st_atime_ns, st.st_mtime_ns))
                elif kind == 's3':
                    stored = other.get_recording(rid)
                    for k in stored.get_all_keys():
                        v = stored.get_data(k)
                        if v == {'value': 'answer-AAAA'}:
                            stored.set_data(k, {'value': 'answer-BBBB'})
                        elif isinstance(v, dict) and v.get('value') == 'told answer-AAAA':
                            stored.set_data(k, {'value': 'told answer-BBBB'})
                    writer = box.fake.cassette('restore-tool', read_only=False)
                    writer._save_recording(stored) if not hasattr(writer, 'save_recording') else writer.save_recording(stored)
                else:
                    stored = box.cassette.get_recording(rid)
                    for k in stored.get_all_keys():
                        v = stored.get_data(k)
                        if v == {'value': 'answer-AAAA'}:
                            stored.set_data(k, {'value': 'answer-BBBB'})
                    box.cassette.save_recording(stored)
                expected = other.get_recording(rid)
                exp_in = [expected.get_data(k) for k in expected.get_all_keys() if k.startswith('input: svc.ask')][0]['value']
                exp_res = [expected.get_data(k) for k in expected.get_all_keys() if k.startswith('output: svc.tell') and k.endswith('.result')][0]['value']
                play()
                w = {'store_changed_behind_the_cassette': True, 'cassette': kind, 'timestamp_and_size_kept': keep_stamp}
                ctx.case(w)
                ctx.count('replays')
                ctx.count('replays_after_the_stored_recording_was_replaced')
                if state['bodies']:
                    ctx.violation('a wrapped body ran during replay', w)
                if exp_in != 'answer-BBBB':
                    ctx.count('replacement_not_effective')      # (harness could not replace the stored recording: nothing to judge)
                    continue
                if seen[-1] != exp_res:
                    ctx.violation('replay answered an interception with a value that is not in the stored recording (got %r, the recording holds %r)' % (
                        seen[-1], exp_res), w)


def overlapping_output_calls(ctx):
    """Two worker threads of the replayed operation send through ONE intercepted output; the second call enters while the data handler
    of the first is still preparing its payload (entry order forced with events, so the invocation numbers are determined): each call
    is answered with the result recorded for ITS invocation - the one under which its captured output is filed."""
    import threading
    from playback.tape_recorder import TapeRecorder
    from playback.tape_cassettes.in_memory.in_memory_tape_cassette import InMemoryTapeCassette
    from playback.interception.output_interception import OutputInterceptionDataHandler
    for static in (False, True):
        for enabled in (True, False):
            for with_handler in (True, False):
                rec = TapeRecorder(InMemoryTapeCassette())
                rec.enable_recording()
                hooks = {'prepare': None}
                bodies = []

                class Payload(OutputInterceptionDataHandler):
                    def prepare_output_for_recording(self, interception_key, args, kwargs):
                        if hooks['prepare'] is not None:
                            hooks['prepare'](args[0])
                        return {'payload': args[0]}

                    def restore_output_from_recording(self, recorded_data):
                        return recorded_data['payload']

                def body(payload):
                    bodies.append(payload)
                    return 'receipt-%d-for-%s' % (len(bodies), payload)

                class Mailer(object):
                    if static:
                        send = staticmethod(rec.static_intercept_output('mailer.send', data_handler=Payload() if with_handler else None)(body))
                    else:
                        send = rec.intercept_output('mailer.send', data_handler=Payload() if with_handler else None)(lambda self, payload: body(payload))

                    def __init__(self):
                        self.receipts = {}

                    def _send(self, payload, wait_for=None):
                        if wait_for is not None and not wait_for.wait(20):
                            self.receipts['scheduling'] = 'broke'
                            return
                        self.receipts[payload] = self.send(payload)

                    @rec.operation()
                    def execute(self, sequential, second_may_start):
                        first = threading.Thread(target=self._send, args=('alpha',))
                        second = threading.Thread(target=self._send, args=('beta', second_may_start))
                        first.start()
                        if sequential:
                            first.join()
                        second.start()
                        first.join()
                        second.join()
                        return dict(self.receipts)
                go = threading.Event()
                go.set()
                expected = Mailer().execute(True, go)
                rid = rec.tape_cassette.get_last_recording_id()
                if not enabled:
                    rec.disable_recording()
                for overlapping in ((False, True, True, False) if with_handler else (False, False)):
                    alpha_preparing, beta_entered = threading.Event(), threading.Event()

                    def hook(payload):
                        if payload == 'alpha':
                            alpha_preparing.set()
                            if overlapping:
                                beta_entered.wait(20)      # alpha's handler is still busy when beta enters the same output
                        else:
                            beta_entered.set()
                    hooks['prepare'] = hook
                    got = {}
                    n0 = len(bodies)
                    try:
                        pb = rec.play(rid, lambda recording: got.update(Mailer().execute(not overlapping, alpha_preparing if with_handler else go)))
                    finally:
                        hooks['prepare'] = None
                    w = {'overlapping_output_calls': True, 'static': static, 'recording_enabled': enabled, 'overlapping': overlapping, 'handler': with_handler}
                    ctx.case(w)
                    ctx.count('replays')
                    ctx.count('replays_with_overlapping_calls_of_one_output' if overlapping else 'replays_with_two_sending_threads')
                    if 'scheduling' in got:
                        ctx.count('harness_scheduling_broke')
                        continue
                    if len(bodies) != n0:
                        ctx.violation('a wrapped output body ran during replay', w)
                    if got != expected:
                        ctx.violation('overlapping calls of one intercepted output were answered with results recorded for other invocations: %r instead of %r' % (
                            got, expected), w)
                    if with_handler:
                        sent = sorted((o.key, o.value['payload']) for o in pb.playback_outputs if 'mailer.send' in o.key)
                        if sent != [('output: mailer.send #1.output', 'alpha'), ('output: mailer.send #2.output', 'beta')]:
                            ctx.violation('captured outputs of the replay are filed under other invocation numbers than the calls were made in: %r' % (sent,), w)


def run(ctx):
    lattice(ctx)
    if ctx.shard == 0:
        overlapping_output_calls(ctx)
        store_changed_behind_the_cassette(ctx)
    n = ctx.budget(200, 10000)
    base = ctx.seed * 1000003 + ctx.shard * 1000000
    for i in range(n):
        random_pair(ctx, base + i)
    ctx.sample({'lattice_row': {'main_present': False, 'fallback': ['nope', 'old.alias'], 'run_original': True, 'substitute': ('lit', 0)},
                'expected': 'recorded value of old.alias (fallback wins over run-original and substitute)'})
    ctx.sample({'lattice_row': {'main_present': False, 'fallback': None, 'run_original': False, 'substitute': ('lit', 0)},
                'expected': 'returns 0 (a falsy substitute is still a substitute)'})
    if not ctx.counters.get('replays'):
        ctx.inconclusive('no replay was observed')


def replay(ctx, w):
    if w.get('overlapping_output_calls'):
        return overlapping_output_calls(ctx)
    if w.get('store_changed_behind_the_cassette'):
        return store_changed_behind_the_cassette(ctx)
    if 'case_seed' in w:
        random_pair(ctx, w['case_seed'])
    else:
        lattice(ctx)
