"""C12 Asynchronous recording stores exactly what synchronous recording would.

The real AsyncRecordOnlyTapeCassette / AsyncRecording code runs under the deterministic scheduler (vlib.sched) with its
Lock / Event / Thread replaced by scheduler-aware twins.  Every requested write carries a unique id; the wrapped
cassette is a spy logging applications in order; append order is read atomically in the lock's release hook (while
the lock is still held).  History checker: exactly-once, application order == append order (hence per-producer
program order), final stored state == synchronous twin, everything applied when close() returns, a failing wrapped
operation does not stop later ones, and no producer ever attempts the buffer lock while the flusher holds it inside a
storage call.
"""
import random
import threading
import time

from vlib import env
from vlib import sched as S

PROPERTY = 'C12'
LEVEL = 'exploration'
RULE = ('workloads: 1-3 producers x 1-2 recordings x 1-3 data writes + metadata + save, producers joined, then close(); optional failing '
        'wrapped operation at each position. Schedules: exhaustive DFS at source-line granularity up to K preemptions (quick K=2 on the small '
        'workloads, thorough K=3 for the smallest and K=2 for all), at most F unforced timer firings of the flush interval (quick 2, thorough 3), then '
        'seeded random schedules, then an unscheduled stress run with real threads and real primitives. A case = one execution; distinct = hash of its '
        '(thread, code, line) trace; non-trivial = at least one context switch happened.')
ASSUMPTIONS = ['line granularity; preemption bound K; timer firings bounded by F (sound under-approximation)',
               'create_new_recording is synchronous by design; writes racing with close() and timeout_on_close expiring are not judged',
               'scheduler-aware twins of Lock/Event/Thread model the primitives; a real-thread stress run guards against misrepresentation']


class Failing(Exception):
    pass


FAIL_TYPES = [None, IndexError, KeyError, StopIteration, IOError, RuntimeError]


def make_spy_store(yield_fn, fail_at=None, fail_type=None):
    """The wrapped cassette (harness code): logs applications in order; storage methods contain yield points so
    that 'the flusher is inside a storage call' is a state in which producers can be scheduled."""
    from playback.recordings.memory.memory_recording import MemoryRecording
    from playback.tape_cassette import TapeCassette

    class SpyRecording(MemoryRecording):
        def __init__(self, store, rid):
            MemoryRecording.__init__(self, rid)
            self.store = store

        def _set_data(self, key, value):
            self.store._storage_call(('set', self.id, key, value), lambda: MemoryRecording._set_data(self, key, value))

        def _add_metadata(self, metadata):
            self.store._storage_call(('meta', self.id, dict(metadata)), lambda: MemoryRecording._add_metadata(self, metadata))

    class SpyStore(TapeCassette):
        def __init__(self):
            self.applied = []
            self.saved = {}
            self.n = 0
            self.inside = None     # thread currently inside a storage call
            self.closed = False
            self.recs = {}
            self.counter = 0

        def _storage_call(self, what, fn):
            me = threading.get_ident()
            self.inside = me
            try:
                yield_fn()
                self.n += 1
                self.applied.append(what)
                if fail_at is not None and self.n == fail_at:
                    raise (fail_type or Failing)('injected: wrapped storage operation %d fails' % self.n)
                fn()
                yield_fn()
            finally:
                self.inside = None

        def create_new_recording(self, category):
            self.counter += 1
            r = SpyRecording(self, '%s/%d' % (category, self.counter))
            self.recs[r.id] = r
            return r

        def save_recording(self, recording):
            # this storage extends the PUBLIC save (it stamps what it stores and counts): whoever saves through it gets that
            self.public_saves = getattr(self, 'public_saves', 0) + 1
            recording.recording_metadata['stamped_by_the_store'] = 2
            return TapeCassette.save_recording(self, recording)

        def _save_recording(self, recording):
            self._storage_call(('save', recording.id), lambda: self.saved.__setitem__(recording.id, (dict(recording.recording_data), dict(recording.recording_metadata))))

        def get_recording(self, rid):
            raise NotImplementedError

        def iter_recording_ids(self, *a, **k):
            raise NotImplementedError

        def extract_recording_category(self, rid):
            return rid.split('/')[0]

        def close(self):
            self.closed_with = len(self.applied)
            self.closed = True

    return SpyStore()


def workload_ops(w):
    """-> per producer list of ops: ('create', r) | ('set', r, key, uid) | ('meta', r, uid) | ('save', r)"""
    out = []
    for p in range(w['producers']):
        ops = []
        if w.get('interleaved'):
            # two recordings open at once on one producer; the one touched first is saved last
            a, b = (p, 0), (p, 1)
            ops += [('create', a), ('create', b), ('set', a, 'k0', 'P%dR0W0' % p), ('set', b, 'k0', 'P%dR1W0' % p), ('meta', b, 'P%dR1M' % p), ('save', b),
                    ('set', a, 'k1', 'P%dR0W1' % p), ('meta', a, 'P%dR0M' % p), ('save', a)]
            out.append(ops)
            continue
        for r in range(w['recordings']):
            ops.append(('create', (p, r)))
            for k in range(w['writes']):
                ops.append(('set', (p, r), 'k%d' % (k % 2), 'P%dR%dW%d' % (p, r, k)))
            ops.append(('meta', (p, r), 'P%dR%dM' % (p, r)))
            if w.get('retype_meta'):
                # the same metadata key written again with a value that compares equal but is another object kind
                for key, v1, v2 in (('flag', 1, True), ('n', 0, 0.0), ('zero', False, 0)):
                    ops.append(('metav', (p, r), key, v1))
                    ops.append(('metav', (p, r), key, v2))
            # a recording that is both aborted and saved (a discard on another thread racing with the recorder's own save): an abort
            # only closes the caller-side recording, writes requested before it are still applied and the save still stores them
            if w.get('abort') == 'before_save' and r == 0:
                ops.append(('abort', (p, r)))
            ops.append(('save', (p, r)))
            if w.get('abort') == 'after_save' and r == 0:
                ops.append(('abort', (p, r)))
        out.append(ops)
    return out


def run_producer(cas, ops, recs, note=None):
    for op in ops:
        if note:
            note(op)
        if op[0] == 'create':
            recs[op[1]] = cas.create_new_recording('C%d_%d' % op[1])
        elif op[0] == 'set':
            recs[op[1]].set_data(op[2], op[3])
        elif op[0] == 'meta':
            recs[op[1]].add_metadata({'m': op[2]})
        elif op[0] == 'metav':
            recs[op[1]].add_metadata({op[2]: op[3]})
        elif op[0] == 'abort':
            cas.abort_recording(recs[op[1]])
        else:
            cas.save_recording(recs[op[1]])


def sync_twin(w):
    store = make_spy_store(lambda: None)
    recs = {}
    for ops in workload_ops(w):
        run_producer(store, ops, recs)
    store.close()
    return {rid.split('/')[0]: v for rid, v in store.saved.items()}


def requested(w):
    """The multiset of storage applications the workload requests (by content)."""
    req = []
    for ops in workload_ops(w):
        for op in ops:
            if op[0] == 'set':
                req.append(('set', 'C%d_%d' % op[1], op[2], op[3]))
            elif op[0] == 'meta':
                req.append(('meta', 'C%d_%d' % op[1], op[2]))
            elif op[0] == 'metav':
                req.append(('metav', 'C%d_%d' % op[1], op[2], type(op[3]).__name__, op[3]))
            elif op[0] == 'save':
                req.append(('save', 'C%d_%d' % op[1]))
    return req


def norm(app):
    if app[0] == 'set':
        return ('set', app[1].split('/')[0], app[2], app[3])
    if app[0] == 'meta':
        if 'm' not in app[2]:
            (k, v), = app[2].items()
            return ('metav', app[1].split('/')[0], k, type(v).__name__, v)
        return ('meta', app[1].split('/')[0], app[2]['m'])
    return ('save', app[1].split('/')[0])


def judge(ctx, w, store, append_order, blocked_while_storage, close_returned_with, witness, fail_at):
    req = requested(w)
    applied = [norm(a) for a in store.applied]
    ctx.count('operations_checked', len(req))
    # exactly once
    import collections
    counts = collections.Counter(repr(a) for a in applied)      # (linear: the backlog runs hold more than a hundred thousand operations)
    for r in req:
        c = counts.get(repr(r), 0)
        if c != 1:
            ctx.violation('requested write applied %d times (must be exactly once)' % c, dict(witness, op=r, applied=applied[:200]))
            return
    if len(applied) != len(req):
        ctx.violation('wrapped storage saw %d applications for %d requests' % (len(applied), len(req)), witness)
    # order = append order (hence program order per producer)
    if append_order is not None and len(append_order) != len(req):
        # the appends were not all observed under the buffer lock (another locking protocol): the global order is unobservable
        # for this monitor; exactly-once, per-producer order and the final state below still decide
        ctx.count('executions_with_unobserved_append_order')
    elif append_order is not None and applied != append_order:
        ctx.violation('operations applied in another order than they were appended', dict(witness, applied=applied, appended=append_order))
    for p in range(w['producers']):
        mine = [a for a in applied if a[1].startswith('C%d_' % p)]
        exp = [r for r in req if r[1].startswith('C%d_' % p)]
        if mine != exp:
            ctx.violation('operations of one producer applied out of program order', dict(witness, producer=p, applied=mine))
    # everything applied when close() returned
    if close_returned_with is not None and close_returned_with != len(req):
        ctx.violation('close() returned before every requested write was applied (%d of %d)' % (close_returned_with, len(req)), witness)
    # final state equals the synchronous twin (a failing operation only loses itself)
    if fail_at is None:
        twin = sync_twin(w)
        got = {rid.split('/')[0]: v for rid, v in store.saved.items()}
        from vlib.values import teq
        if not teq(got, twin):
            ctx.violation('stored state after close() differs from the synchronous twin', dict(witness, got=repr(got)[:600], twin=repr(twin)[:600]))
    if blocked_while_storage:
        ctx.violation('a producer had to wait for the buffer lock while the flusher was inside a wrapped-storage call', dict(witness, events=blocked_while_storage[:3]))


def make_execution(w, fail_at, holder, close_timeout=None):
    """Returns make(sched) for vlib.sched.run_once; holder receives the observation objects."""
    from playback.tape_cassettes.asynchronous import async_record_only_tape_cassette as mod

    def make(sched):
        store = make_spy_store(lambda: sched.yield_point(), fail_at=fail_at, fail_type=FAIL_TYPES[(fail_at or 0) % len(FAIL_TYPES)])
        saved = (mod.Lock, mod.Event, mod.Thread)
        mod.Lock, mod.Event, mod.Thread = sched.Lock, sched.Event, sched.Thread
        try:
            cas = mod.AsyncRecordOnlyTapeCassette(store, flush_interval=0.1, timeout_on_close=10 ** 7 if close_timeout is None else close_timeout)
        finally:
            mod.Lock, mod.Event, mod.Thread = saved
        lock = env.anchor(cas, '_lock')
        buf_name = '_recording_operation_buffer'
        env.anchor(cas, buf_name)
        current_op = {}
        append_order = []
        blocked = []
        seen_len = [0]

        def on_release(owner, lk):
            # still inside the critical section: see what was appended / swapped
            buf = getattr(cas, buf_name)
            if len(buf) > seen_len[0]:
                op = current_op.get(owner.id)
                if op is not None and op[0] != 'create':
                    append_order.append(norm_req(op))
            seen_len[0] = len(buf)

        def on_attempt(th, lk):
            if lk.owner is not None and lk.owner.name.startswith('AsyncTapeCassette') and store.inside == lk.owner.ident \
                    and not th.name.startswith('AsyncTapeCassette'):
                blocked.append((th.name, 'flusher holds lock inside storage call'))
        lock.on_release = on_release
        lock.on_acquire_attempt = on_attempt
        recs = {}
        close_with = [None]
        holder.update(store=store, append_order=append_order, blocked=blocked, close_with=close_with)

        def producer(i, ops):
            def fn():
                me = sched.me()
                run_producer(cas, ops, recs, note=lambda op: current_op.__setitem__(me.id, op))
            return fn

        def main():
            cas.start()
            ths = [sched.Thread(target=producer(i, ops), name='producer%d' % i) for i, ops in enumerate(workload_ops(w))]
            for t in ths:
                t.start()
            for t in ths:
                t.join()
            cas.close()
            close_with[0] = getattr(store, 'closed_with', None)
        return main
    return make


def norm_req(op):
    if op[0] == 'set':
        return ('set', 'C%d_%d' % op[1], op[2], op[3])
    if op[0] == 'meta':
        return ('meta', 'C%d_%d' % op[1], op[2])
    if op[0] == 'metav':
        return ('metav', 'C%d_%d' % op[1], op[2], type(op[3]).__name__, op[3])
    return ('save', 'C%d_%d' % op[1])


def targets(narrow=False):
    """Files whose source lines are preemption points. The shared state (operation buffer, lock, stop event, started flag)
    lives in the async cassette module only; lines of the other modules touch objects owned by one thread (the producer's
    AsyncRecording dicts, the flusher's wrapped recording), so interleaving there is equivalent up to commutation: the DFS
    uses the narrow set, the random exploration the wide one."""
    import playback.tape_cassettes.asynchronous.async_record_only_tape_cassette as a
    import playback.recordings.memory.memory_recording as b
    import playback.tape_cassette as c
    import playback.recording as d
    return [m.__file__ for m in ((a,) if narrow else (a, b, c, d))]


def explore(ctx, w, fail_at, K, max_fires, n_random, max_dfs=None, shard=None, close_timeout=None):
    tg = targets()
    holder = {}
    make = make_execution(w, fail_at, holder, close_timeout=close_timeout)
    stats = {'runs': 0}

    def on_run(rec, prefix):
        stats['runs'] += 1
        witness = {'workload': w, 'fail_at': fail_at, 'schedule': prefix if isinstance(prefix, tuple) else list(prefix), 'K': K, 'max_fires': max_fires}
        ctx.case(rec.trace, nontrivial=rec.preemptions > 0 or len(rec.points) > 0)
        ctx.count('executions')
        ctx.count('choice_points', len(rec.points))
        ctx.maximum('max_choice_points_in_one_execution', len(rec.points))
        if rec.aborted:
            if 'deadlock' in rec.aborted:
                ctx.violation('execution deadlocked: %s' % rec.aborted, witness)
            else:
                ctx.count('executions_over_step_budget')
            return
        if rec.error is not None:
            ctx.violation('close()/producer raised %s' % type(rec.error).__name__, dict(witness, error=repr(rec.error)[:200]))
            return
        # with a finite timeout_on_close the join may expire: then close() may return early (not judged), but every write is still
        # applied exactly once and in request order once the flusher has finished
        judge(ctx, w, holder['store'], holder['append_order'], holder['blocked'], holder['close_with'][0] if close_timeout is None else None,
              dict(witness, close_timeout=close_timeout), fail_at)
        # instances are independent: a cassette created later in the process must not touch what an earlier, closed one stored
        prev = stats.get('prev')
        if prev is not None and len(prev[0].applied) != prev[1]:
            ctx.violation('operations of an earlier, already closed cassette instance were applied again by a later instance (%d -> %d applications)' % (
                prev[1], len(prev[0].applied)), dict(witness, reapplied=[norm(a) for a in prev[0].applied[prev[1]:]][:4]))
            stats['stop'] = True
        stats['prev'] = (holder['store'], len(holder['store'].applied))
        ctx.count('instance_independence_checks')
    runs, complete = S.explore_dfs(make, targets(narrow=True), K, on_run, max_runs=max_dfs, max_fires=max_fires, shard=shard)
    ctx.count('dfs_executions', runs)
    if not complete:
        ctx.count('dfs_truncated')
    S.explore_random(make, tg, n_random, ctx.rng, on_run, max_fires=max_fires)
    ctx.count('random_executions', n_random)
    return complete


def stress(ctx, n):
    """Unscheduled: real threads, real Event/Lock, tiny flush interval, random sleeps."""
    from playback.tape_cassettes.asynchronous.async_record_only_tape_cassette import AsyncRecordOnlyTapeCassette
    rng = ctx.rng
    for _ in range(n):
        w = {'producers': rng.randrange(1, 4), 'recordings': rng.randrange(1, 3), 'writes': rng.randrange(1, 4)}
        if rng.random() < 0.3:
            w['abort'] = rng.choice(['before_save', 'after_save'])
        if rng.random() < 0.25:
            w['retype_meta'] = True
        if rng.random() < 0.2:
            w = {'producers': w['producers'], 'recordings': 2, 'writes': 1, 'interleaved': True}
        fail_at = rng.choice([None, None, rng.randrange(1, 6)])
        store = make_spy_store(lambda: time.sleep(0) if rng.random() < 0.5 else None, fail_at=fail_at, fail_type=rng.choice(FAIL_TYPES))
        cas = AsyncRecordOnlyTapeCassette(store, flush_interval=rng.choice([0.0001, 0.001, 0.01]), timeout_on_close=60)
        cas.start()
        recs = {}
        ths = [threading.Thread(target=run_producer, args=(cas, ops, recs)) for ops in workload_ops(w)]
        for t in ths:
            t.start()
        for t in ths:
            t.join()
        cas.close()
        ctx.case(('stress', w, fail_at, len(store.applied), tuple(norm(a)[1] for a in store.applied)), nontrivial=w['producers'] > 1)
        ctx.count('stress_runs')
        judge(ctx, w, store, None, [], getattr(store, 'closed_with', None), {'stress': True, 'workload': w, 'fail_at': fail_at}, fail_at)


def mutation_twin(ctx, n):
    """Values are recorded by reference and serialized when the recording is saved: an object modified in place between set_data and
    the save request is stored in its final state by the wrapped cassette. The same request sequence goes once directly into a real
    cassette (memory / file / S3-on-fake) and once through the asynchronous wrapper around another one; the stored recordings
    must be the same. Real threads, tiny flush interval, random pauses (so the flusher sometimes applies a write before the
    modification and sometimes after)."""
    from playback.tape_cassettes.asynchronous.async_record_only_tape_cassette import AsyncRecordOnlyTapeCassette
    from vlib.cassettes import open_box
    from vlib.values import teq, first_diff, Obj, recording_in_domain
    rng = ctx.rng
    for i in range(n):
        kind = ('memory', 'file', 's3')[i % 3]
        seed = rng.randrange(10 ** 9)

        def drive(cassette, pause):
            r = random.Random(seed)
            ids = {}
            for c in range(r.randrange(1, 3)):
                rec = cassette.create_new_recording('Cat%d' % c)
                ids['Cat%d' % c] = rec.id
                shared = ['shared']
                vals = []
                for k in range(r.randrange(1, 4)):
                    v = r.choice([lambda: ['created'], lambda: {'state': 'new', 'rows': [1]}, lambda: Obj(name='o', items=[]), lambda: (1, ['in-tuple']),
                                  lambda: shared])()
                    rec.set_data('key%d' % k, v)
                    vals.append(v)
                    pause(r)
                rec.add_metadata({'m': c, 'tags': shared})
                pause(r)
                for v in vals:                # the operation goes on working with the objects it was handed
                    if r.random() < 0.7:
                        if isinstance(v, list):
                            v.append('processed')
                        elif isinstance(v, dict):
                            v['state'] = 'done'
                            v['rows'].append(2)
                        elif isinstance(v, Obj):
                            v.items.append('added')
                        elif isinstance(v, tuple):
                            v[1].append('more')
                pause(r)
                if r.random() < 0.25:
                    # the recording is aborted, written to once more (item assignment) and saved after all - whatever the wrapped
                    # cassette makes of that history, the wrapper makes the same of it
                    cassette.abort_recording(rec)
                    pause(r)
                    rec['after-abort%d' % c] = ['written after the abort']
                    pause(r)
                cassette.save_recording(rec)
                if r.random() < 0.5:
                    # an interception that finishes on another thread after the operation returned still writes into the recording
                    # object (item assignment, as the recorder does): whatever the wrapped cassette does with that, the wrapper does too
                    pause(r)
                    rec['late%d' % c] = ['written after the save was requested']
            return ids
        fk = None
        if kind == 's3':
            from vlib.fakes3 import FakeS3
            fk = FakeS3()

        def pause_async(r):
            x, y = r.random(), r.random()
            if x < 0.6:
                time.sleep([0, 0, 0.001, 0.004][int(y * 4)])
        with open_box(kind, prefix='d', fake=fk) as direct, open_box(kind, prefix='a', fake=fk) as wrapped:
            flavour = ('plain', 'stamped', 'sized', 'plain')[i % 4]
            if flavour != 'plain':
                # the wrapped cassette is the service's own flavour: it stamps every new recording (schema version, host) / hands out
                # recordings of a class that has a length (an empty one is falsy)
                from vlib.values import sized_recording_class
                for c_ in (direct.cassette, wrapped.cassette):
                    def create(category, _orig=c_.create_new_recording):
                        r_ = _orig(category)
                        if flavour == 'stamped':
                            r_.set_data('schema', 2)
                            r_.add_metadata({'host': 'h1', 'tags_of_the_store': ['x']})
                        else:
                            r_.__class__ = sized_recording_class()
                        return r_
                    c_.create_new_recording = create
                ctx.count('mutation_twin_runs_on_a_%s_cassette' % flavour)
            ids_d = drive(direct.cassette, lambda r: (r.random(), r.random()))
            a = AsyncRecordOnlyTapeCassette(wrapped.cassette, flush_interval=0.05 if flavour == 'sized' else rng.choice([0.0002, 0.002]), timeout_on_close=60)
            a.start()
            try:
                ids_a = drive(a, pause_async if flavour != 'sized' else (lambda r: (r.random(), r.random())))
            except Exception as ex:
                ctx.violation('a request sequence the wrapped cassette accepts raised %s in the calling thread when sent through the asynchronous wrapper' % type(ex).__name__,
                              {'mutation_twin': True, 'cassette': kind, 'seed': seed, 'error': repr(ex)[:200]})
                a.close()
                continue
            a.close()
            ctx.case(('mutation_twin', kind, seed))
            ctx.count('mutation_twin_runs')
            rd, ra = direct.reader(), wrapped.reader()
            for cat in ids_d:
                try:
                    x = rd.get_recording(ids_d[cat])
                    dx = {k: x.get_data(k) for k in x.get_all_keys()}
                    if not recording_in_domain(dx, {}):
                        ctx.count('mutation_twin_out_of_serializer_domain')
                        continue
                    y = ra.get_recording(ids_a[cat])
                    dy = {k: y.get_data(k) for k in y.get_all_keys()}
                    mx, my = x.get_metadata(), y.get_metadata()
                except Exception as ex:
                    ctx.violation('recording stored through the asynchronous wrapper cannot be read back: %s' % type(ex).__name__,
                                  {'mutation_twin': True, 'cassette': kind, 'seed': seed, 'category': cat, 'error': repr(ex)[:200]})
                    continue
                ctx.count('mutation_twin_recordings_compared')
                if not teq(dx, dy) or not teq(mx.get('tags'), my.get('tags')):
                    ctx.violation('recording stored through the asynchronous wrapper differs from the one stored directly (objects modified '
                                  'in place between set_data and save)', {'mutation_twin': True, 'cassette': kind, 'seed': seed, 'category': cat,
                                                                          'diff': first_diff(dx, dy)})


def backlog(ctx, n):
    """The wrapped storage stalls (slow disk, throttled bucket) while the service keeps recording: thousands of operations pile up;
    the storage recovers and the wrapper is closed. Everything requested before close must still be applied exactly once, in order."""
    from playback.tape_cassettes.asynchronous.async_record_only_tape_cassette import AsyncRecordOnlyTapeCassette
    rng = ctx.rng
    for i in range(n + 1):
        gate = threading.Event()
        store = make_spy_store(lambda: gate.wait(60))
        w = {'producers': rng.choice([1, 2]), 'recordings': rng.choice([6, 14]), 'writes': rng.choice([100, 250])}
        if i == n:
            # one very long stall: more than a hundred thousand operations pending (past 2**16, 10**5 and 2**17) when the storage recovers
            w = {'producers': 1, 'recordings': 2, 'writes': 70000 if ctx.quick else 550000}
        cas = AsyncRecordOnlyTapeCassette(store, flush_interval=rng.choice([0.001, 0.02]), timeout_on_close=120)
        cas.start()
        recs = {}
        t0 = time.time()
        ths = [threading.Thread(target=run_producer, args=(cas, ops, recs)) for ops in workload_ops(w)]
        for t in ths:
            t.start()
        for t in ths:
            t.join(60)
        stalled_producer = any(t.is_alive() for t in ths)
        gate.set()
        for t in ths:
            t.join()
        cas.close()
        ctx.case(('backlog', i, tuple(sorted(w.items())), len(store.applied)), nontrivial=True)
        ctx.count('backlog_runs')
        ctx.maximum('max_operations_pending_when_the_storage_recovered', len(requested(w)))
        wit = {'backlog': True, 'workload': w, 'fail_at': None}
        if stalled_producer:
            ctx.violation('a caller waited for the stalled wrapped storage', wit)
        judge(ctx, w, store, None, [], getattr(store, 'closed_with', None), wit, None)


def clock_jump_during_close(ctx):
    """The wall clock is stepped forward (NTP correction, a resumed VM) while close() waits for a slow storage to take the backlog: the
    timeout of close() is a duration, not a date - everything requested before close is applied when it returns."""
    import sys
    import time as _time
    from playback.tape_cassettes.asynchronous.async_record_only_tape_cassette import AsyncRecordOnlyTapeCassette
    store = make_spy_store(lambda: _time.sleep(0.12))
    w = {'producers': 1, 'recordings': 1, 'writes': 5}
    cas = AsyncRecordOnlyTapeCassette(store, flush_interval=0.01, timeout_on_close=300)
    cas.start()
    recs = {}
    for ops in workload_ops(w):
        run_producer(cas, ops, recs)
    real_time = _time.time
    offset = [0.0]

    def wall_clock():
        return real_time() + offset[0]
    # every name through which library code may read the wall clock: time.time itself and `from time import time` bindings
    patched = [(_time, 'time')]
    for name, mod in list(sys.modules.items()):
        if name.startswith('playback') and mod is not None and getattr(mod, 'time', None) is real_time:
            patched.append((mod, 'time'))
    for mod, attr in patched:
        setattr(mod, attr, wall_clock)

    def jump():
        _time.sleep(0.3)
        offset[0] = 86400.0 * 3
    t = threading.Thread(target=jump)
    t.start()
    try:
        cas.close()
    finally:
        for mod, attr in patched:
            setattr(mod, attr, real_time)
        t.join()
    ctx.case(('clock_jump_during_close',), nontrivial=True)
    ctx.count('closes_with_a_wall_clock_jump')
    judge(ctx, w, store, None, [], getattr(store, 'closed_with', None), {'clock_jump_during_close': True, 'workload': w, 'fail_at': None}, None)


def flush_only_on_close(ctx):
    """flush_interval=None: nothing is flushed periodically, everything when the cassette is closed."""
    from playback.tape_cassettes.asynchronous.async_record_only_tape_cassette import AsyncRecordOnlyTapeCassette
    for interval in (None, 0, 0.0):
        store = make_spy_store(lambda: None)
        w = {'producers': 1, 'recordings': 2, 'writes': 3}
        wit = {'flush_only_on_close': True, 'flush_interval': interval, 'workload': w, 'fail_at': None}
        try:
            cas = AsyncRecordOnlyTapeCassette(store, flush_interval=interval, timeout_on_close=60)
            cas.start()
            time.sleep(0.05)
            recs = {}
            for ops in workload_ops(w):
                run_producer(cas, ops, recs)
            cas.close()
        except Exception as ex:
            ctx.violation('recording through an asynchronous cassette with flush_interval=%r raised %s' % (interval, type(ex).__name__), wit)
            continue
        ctx.case(('flush_only_on_close', interval), nontrivial=True)
        ctx.count('runs_with_flush_interval_none_or_zero')
        judge(ctx, w, store, None, [], getattr(store, 'closed_with', None), wit, None)


def failed_save_then_more_requests(ctx):
    """The storage refuses the first save of a recording; the service writes once more into the recording (item assignment) and saves it
    again - at once (both save requests inside one flush interval) or after the flusher had its turn. The same request sequence goes
    directly into the storage and through the asynchronous cassette around an identical one: what is stored in the end is the same."""
    from playback.tape_cassettes.asynchronous.async_record_only_tape_cassette import AsyncRecordOnlyTapeCassette
    from playback.tape_cassettes.in_memory.in_memory_tape_cassette import InMemoryTapeCassette

    class FlakyStore(InMemoryTapeCassette):
        def __init__(self, fail_first):
            super(FlakyStore, self).__init__()
            self.fail_first, self.attempts = fail_first, 0

        def _save_recording(self, recording):
            self.attempts += 1
            if self.attempts <= self.fail_first:
                raise IOError('storage refused the save (injected)')
            return super(FlakyStore, self)._save_recording(recording)

    def drive(cassette, late_write, wait):
        rec = cassette.create_new_recording('Cat')
        rec.set_data('input', {'value': [1, 2]})
        rec.add_metadata({'m': 1})
        try:
            cassette.save_recording(rec)
        except IOError:
            pass
        wait()
        if late_write:
            try:
                rec['late output'] = {'value': 'written after the refused save'}
            except Exception:
                return 'late write refused'
        try:
            cassette.save_recording(rec)
        except IOError:
            pass
        return None

    def stored(store):
        out = []
        for rid in store.get_all_recording_ids():
            r = store.get_recording(rid)
            out.append((sorted(r.get_all_keys()), r.get_metadata().get('m')))
        return sorted(out)
    for fail_first in (1, 0, 2):
        for late_write in (True, False):
            for interval, wait_s in ((30, 0.0), (0.002, 0.08)):
                direct = FlakyStore(fail_first)
                note_d = drive(direct, late_write, lambda: None)
                wrapped = FlakyStore(fail_first)
                cas = AsyncRecordOnlyTapeCassette(wrapped, flush_interval=interval, timeout_on_close=60)
                cas.start()
                try:
                    note_a = drive(cas, late_write, lambda: time.sleep(wait_s))
                finally:
                    cas.close()
                wit = {'failed_save_then_more_requests': True, 'saves_refused_first': fail_first, 'late_write': late_write, 'flush_interval': interval}
                ctx.case(('failed_save', fail_first, late_write, interval), nontrivial=True)
                ctx.count('request_sequences_with_a_refused_save_compared_with_direct_recording')
                if note_d is not None:
                    ctx.count('direct_twin_refused_the_late_write')       # (then there is nothing to compare the asynchronous run with)
                    continue
                sd, sa = stored(direct), stored(wrapped)
                if fail_first == 0 and late_write and note_a is None and len(sd) == len(sa) == 1 and sd[0][1] == sa[0][1] and \
                        sd[0][0] == ['input', 'late output'] and sa[0][0] == ['input']:
                    # classified by mechanism: healthy storage, the recording is saved, written to by ITEM ASSIGNMENT and saved again
                    ctx.finding('async-item-assignment-after-save-dropped',
                                'a recording that was saved, then written to by item assignment (recording[key] = value) and saved again is stored '
                                'WITH that write when recording directly and WITHOUT it through the asynchronous cassette (the wrapper forwards the '
                                'write through the public set_data of the wrapped recording, which refuses writes after its save)', wit)
                    continue
                if stored(wrapped) != stored(direct) or note_a is not None:
                    ctx.violation('after a refused save followed by %s another save the asynchronous cassette stored %r, recording directly stores %r' % (
                        'a late write and' if late_write else '', stored(wrapped), stored(direct)), wit)


def idle_start_then_clock_jump(ctx):
    """The asynchronous cassette is started and stays idle; the wall clock moves on by three days (a long quiet week-end, or a clock step);
    then recordings are made. Whatever the flusher thread does periodically must survive a long stretch in which nothing was flushed."""
    import sys
    import time as _time
    from playback.tape_cassettes.asynchronous.async_record_only_tape_cassette import AsyncRecordOnlyTapeCassette
    real_time = _time.time
    offset = [0.0]

    def wall_clock():
        return real_time() + offset[0]
    patched = [(_time, 'time')]
    for name, mod in list(sys.modules.items()):
        if name.startswith('playback') and mod is not None and getattr(mod, 'time', None) is real_time:
            patched.append((mod, 'time'))
    for mod, attr in patched:
        setattr(mod, attr, wall_clock)
    try:
        store = make_spy_store(lambda: None)
        w = {'producers': 1, 'recordings': 2, 'writes': 2}
        cas = AsyncRecordOnlyTapeCassette(store, flush_interval=0.005, timeout_on_close=60)
        cas.start()
        _time.sleep(0.05)
        offset[0] = 86400.0 * 3
        _time.sleep(0.1)                      # several idle rounds of the flusher after the jump
        recs = {}
        for ops in workload_ops(w):
            run_producer(cas, ops, recs)
        cas.close()
    finally:
        for mod, attr in patched:
            setattr(mod, attr, real_time)
    ctx.case(('idle_start_then_clock_jump',), nontrivial=True)
    ctx.count('runs_after_a_long_idle_start')
    judge(ctx, w, store, None, [], getattr(store, 'closed_with', None), {'idle_start_then_clock_jump': True, 'workload': w, 'fail_at': None}, None)


class _NoneTimeoutRun(object):
    """timeout_on_close=None (wait as long as it takes) with a storage that needs more than ten seconds for the backlog at close(); runs in
    the background for the duration of the check, judged at the end."""

    def __init__(self, ctx):
        import time as _time
        from playback.tape_cassettes.asynchronous.async_record_only_tape_cassette import AsyncRecordOnlyTapeCassette
        self.ctx = ctx
        self.store = make_spy_store(lambda: _time.sleep(0.93))
        self.w = {'producers': 1, 'recordings': 1, 'writes': 4}        # 6 storage operations, two pauses each: a bit over eleven seconds
        self.cas = AsyncRecordOnlyTapeCassette(self.store, flush_interval=0.01, timeout_on_close=None)
        self.error = None
        self.thread = threading.Thread(target=self._run)
        self.thread.start()

    def _run(self):
        try:
            self.cas.start()
            recs = {}
            for ops in workload_ops(self.w):
                run_producer(self.cas, ops, recs)
            self.cas.close()
        except BaseException as ex:  # noqa
            self.error = ex

    def finish(self):
        self.thread.join(120)
        ctx = self.ctx
        wit = {'none_timeout_on_close': True, 'workload': self.w, 'fail_at': None}
        ctx.case(('none_timeout_on_close',), nontrivial=True)
        ctx.count('closes_without_a_timeout')
        if self.thread.is_alive() or self.error is not None:
            ctx.violation('close() with timeout_on_close=None did not return / raised: %r' % (self.error,), wit)
            return
        judge(ctx, self.w, self.store, None, [], getattr(self.store, 'closed_with', None), wit, None)


def steady_pace(ctx, n_writes):
    """Steady load with a storage that just keeps up: while the flusher is inside the storage call for one write, the service requests
    exactly one more - for more than a thousand consecutive rounds. Real threads, paced by a handshake at the storage call."""
    from playback.tape_cassettes.asynchronous.async_record_only_tape_cassette import AsyncRecordOnlyTapeCassette
    inside, enqueued = threading.Semaphore(0), threading.Semaphore(0)
    calls = [0]
    active = [True]

    def hook():
        calls[0] += 1
        if active[0] and calls[0] % 2 == 1:
            inside.release()
            enqueued.acquire(timeout=5)
    store = make_spy_store(hook)
    w = {'producers': 1, 'recordings': 1, 'writes': n_writes}
    ops = workload_ops(w)[0]
    hook_errors = []
    old_hook = threading.excepthook
    threading.excepthook = lambda a: hook_errors.append(repr(a.exc_value)[:200])
    try:
        cas = AsyncRecordOnlyTapeCassette(store, flush_interval=0.0003, timeout_on_close=120)
        cas.start()
        recs = {}
        run_producer(cas, ops[:2], recs)                     # create + the first write
        for op in ops[2:]:
            if not inside.acquire(timeout=5):                # the flusher is not in a storage call (it died, or it is idle): go on unpaced
                active[0] = False
            run_producer(cas, [op], recs)
            enqueued.release()
        active[0] = False
        for _ in range(4):
            enqueued.release()
        cas.close()
    finally:
        threading.excepthook = old_hook
    ctx.case(('steady_pace', n_writes, len(store.applied)), nontrivial=True)
    ctx.count('steady_pace_runs')
    wit = {'backlog': True, 'steady_pace': n_writes, 'workload': w, 'fail_at': None}
    if hook_errors:
        ctx.violation('the background thread of the asynchronous cassette died under steady load: %s' % hook_errors[0][:80], wit)
    judge(ctx, w, store, None, [], getattr(store, 'closed_with', None), wit, None)


def run(ctx):
    from playback.tape_cassettes.asynchronous.async_record_only_tape_cassette import AsyncRecordOnlyTapeCassette
    for a in ('_recording_loop', '_flush_recording', '_add_async_operation'):
        env.anchor(AsyncRecordOnlyTapeCassette, a)
    shard = (ctx.shard, ctx.nshards) if ctx.nshards > 1 else None
    if ctx.quick:
        # (workload, failing storage op, K, F, random executions, DFS cap)
        plan = [({'producers': 1, 'recordings': 1, 'writes': 1}, None, 1, 2, 100, 2000),      # complete: 641 executions
                ({'producers': 1, 'recordings': 1, 'writes': 2}, 2, 1, 2, 100, 2000),         # complete
                ({'producers': 2, 'recordings': 1, 'writes': 1}, None, 1, 1, 300, 2500),      # truncated in quick (5395 complete)
                ({'producers': 2, 'recordings': 1, 'writes': 1}, 3, 1, 1, 200, 800),
                ({'producers': 3, 'recordings': 2, 'writes': 2}, None, 0, 2, 300, 50)]
    else:
        plan = [({'producers': 1, 'recordings': 1, 'writes': 1}, None, 2, 2, 2000, 40000),    # complete: ~26k executions
                ({'producers': 2, 'recordings': 1, 'writes': 1}, None, 1, 2, 5000, 30000),    # complete: ~13k executions
                ({'producers': 1, 'recordings': 1, 'writes': 1}, None, 3, 1, 0, 150000),
                ({'producers': 1, 'recordings': 2, 'writes': 2}, None, 1, 2, 2000, 40000),
                ({'producers': 3, 'recordings': 1, 'writes': 1}, None, 1, 1, 5000, 60000),
                ({'producers': 2, 'recordings': 2, 'writes': 3}, None, 1, 1, 5000, 40000),
                ({'producers': 3, 'recordings': 2, 'writes': 3}, None, 0, 2, 8000, 5000)]
        for fail_at in range(1, 7):
            plan.append(({'producers': 2, 'recordings': 1, 'writes': 2}, fail_at, 1, 1, 1500, 20000))
    plan.append(({'producers': 1, 'recordings': 1, 'writes': 2, 'abort': 'before_save'}, None, 1, 2, 100 if ctx.quick else 2000, 600 if ctx.quick else 20000))
    plan.append(({'producers': 2, 'recordings': 1, 'writes': 1, 'abort': 'after_save'}, None, 1 if not ctx.quick else 0, 1, 100 if ctx.quick else 2000, 200 if ctx.quick else 20000))
    plan.append(({'producers': 1, 'recordings': 1, 'writes': 1, 'retype_meta': True}, None, 0, 1, 60 if ctx.quick else 1000, 50 if ctx.quick else 5000))
    plan.append(({'producers': 1, 'recordings': 2, 'writes': 1, 'interleaved': True}, None, 1, 2, 100 if ctx.quick else 2000, 400 if ctx.quick else 20000))
    plan.append(({'producers': 2, 'recordings': 2, 'writes': 1, 'interleaved': True}, None, 0, 1, 100 if ctx.quick else 3000, 50 if ctx.quick else 5000))
    plan = [p + (None,) for p in plan]
    # timeout_on_close expiring (the join of the flusher is a timed wait whose timer may fire): exactly-once and order still hold
    plan.append(({'producers': 1, 'recordings': 1, 'writes': 2}, None, 1, 2, 150 if ctx.quick else 3000, 400 if ctx.quick else 20000, 5.0))
    plan.append(({'producers': 2, 'recordings': 1, 'writes': 1}, None, 1 if not ctx.quick else 0, 2, 150 if ctx.quick else 3000, 300 if ctx.quick else 20000, 5.0))
    all_complete = True
    for w, fail_at, K, F, nrand, maxdfs, close_timeout in plan:
        nr = nrand // ctx.nshards + (1 if ctx.shard < nrand % ctx.nshards else 0)
        c = explore(ctx, w, fail_at, K, F, nr, max_dfs=(maxdfs // ctx.nshards + 1) if shard else maxdfs, shard=shard, close_timeout=close_timeout)
        all_complete = all_complete and c
        ctx.sample({'workload': w, 'fail_at': fail_at, 'K': K, 'F': F, 'timeout_on_close': close_timeout, 'dfs_complete': c})
    # bytecode granularity (random + PCT): interpreters older than 3.10 may switch threads between any two bytecodes, e.g. between
    # loading the buffer attribute and calling append on it
    for w in ({'producers': 1, 'recordings': 1, 'writes': 2}, {'producers': 2, 'recordings': 1, 'writes': 2}):
        holder = {}
        make = make_execution(w, None, holder)
        ninst = ctx.budget(400, 40000)

        def on_run_i(rec, desc, w=w, holder=holder):
            ctx.case(rec.trace, nontrivial=len(rec.points) > 0)
            ctx.count('executions')
            ctx.count('instruction_level_executions')
            witness = {'workload': w, 'fail_at': None, 'schedule': desc, 'granularity': 'instruction'}
            if rec.aborted or rec.error is not None:
                if rec.aborted and 'deadlock' in rec.aborted:
                    ctx.violation('execution deadlocked: %s' % rec.aborted, witness)
                elif rec.error is not None:
                    ctx.violation('close()/producer raised %s' % type(rec.error).__name__, witness)
                return
            judge(ctx, w, holder['store'], holder['append_order'], holder['blocked'], holder['close_with'][0], witness, None)
        S.explore_random(make, targets(narrow=True), ninst, ctx.rng, on_run_i, granularity='instruction', step_budget=300000)
    ctx.note('bounded_dfs_complete_for_all_workloads', all_complete)
    none_timeout = _NoneTimeoutRun(ctx) if ctx.shard == 0 else None     # (real threads only from here on: runs in the background meanwhile)
    if ctx.shard == 0:
        stress(ctx, 100 if ctx.quick else 2000)
    mutation_twin(ctx, ctx.budget(60, 3000))
    if ctx.shard == 0:
        backlog(ctx, 2 if ctx.quick else 12)
        clock_jump_during_close(ctx)
        idle_start_then_clock_jump(ctx)
        flush_only_on_close(ctx)
        failed_save_then_more_requests(ctx)
        steady_pace(ctx, 1300 if ctx.quick else 2500)
        none_timeout.finish()
    if not ctx.counters.get('operations_checked'):
        ctx.inconclusive('no operation was checked')


def replay(ctx, wit):
    if wit.get('failed_save_then_more_requests'):
        return failed_save_then_more_requests(ctx)
    if wit.get('flush_only_on_close'):
        return flush_only_on_close(ctx)
    if wit.get('idle_start_then_clock_jump'):
        return idle_start_then_clock_jump(ctx)
    if wit.get('none_timeout_on_close'):
        return _NoneTimeoutRun(ctx).finish()
    if wit.get('clock_jump_during_close'):
        return clock_jump_during_close(ctx)
    if wit.get('mutation_twin') or wit.get('backlog'):
        print('real-thread witness, re-run the check')
        return
    if wit.get('stress'):
        print('stress witness, re-run the check')
        return
    w, fail_at = wit['workload'], wit['fail_at']
    holder = {}
    make = make_execution(w, fail_at, holder, close_timeout=wit.get('close_timeout'))
    sch = wit['schedule']
    strat = S.strategy_from(sch)
    rec = S.run_once(make, strat, targets(narrow=wit.get('granularity') == 'instruction'), max_fires=wit.get('max_fires', 2),
                     granularity=wit.get('granularity', 'line'), step_budget=300000)
    judge(ctx, w, holder['store'], holder['append_order'], holder['blocked'], holder['close_with'][0] if wit.get('close_timeout') is None else None, wit, fail_at)
