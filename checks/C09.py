"""C09 The recorder returns to idle; every run is independent of history.

State predicates after every run of a history + differential of a probe run against the same probe on a fresh
recorder (same RNG seed; probes record with rate >= 1 so RNG consumption cannot differ legitimately).
"""
import itertools
import random

from vlib import env
from vlib import faultruns as fr
from vlib.cassettes import open_box
from vlib.programs import Built, World, describe, gen_program, playback_function_for, clone
from vlib.spies import SpyCassette, SpyRandom
from vlib.values import teq, UserError, InterruptLike

PROPERTY = 'C09'
LEVEL = 'exploration'
RULE = ('histories on one recorder drawn from 17 run kinds {success, raises, interrupted, interrupted inside an intercepted body, discarded, sampled out, forced, '
        'data-handler fault, key fault, save fails, kill switch flipped mid-operation and released afterwards, replay ok, replay of a missing id, replay hitting a missing key, replay whose playback function raises / is '
        'interrupted}: all length-2 histories x 3 probes exhaustively, then seeded random histories of length 1-8, on memory/file/S3 cassettes; after every '
        'element the idle predicates are evaluated; the probe (record with repeated output aliases | replay | another invocation of a rate-0 class used in the history) is compared with the same probe on a fresh recorder. '
        'A case = one history + probe; distinct = hash of (kinds, probe, cassette); non-trivial = history length >= 1.')
ASSUMPTIONS = ['ids, durations and timestamps are excluded from the comparison with the fresh recorder',
               'internal anchors _invoke_counter / _currently_in_interception are read only if they exist (otherwise the behavioural probe alone decides)']

KINDS = ['success', 'raises', 'interrupt', 'interrupt_in_body', 'discarded', 'sampled_out', 'forced', 'handler_fault', 'key_fault', 'save_fails', 'kill_switch',
         'replay_ok', 'replay_missing_id', 'replay_missing_key', 'replay_fn_raises', 'replay_fn_interrupted', 'replay_imported',
         'raises_unencodable', 'extractor_raises', 'extractor_interrupted', 'rate0_discarded', 'generator_kept', 'noop_discard', 'double_discard', 'equal_hash_args', 'forced_discarded', 'nested_play_discards_outer', 'replay_outputs_post_processed', 'context_kept_by_an_input']


def hist_program(seed):
    rng = random.Random(seed)
    p = gen_program(rng, threads=False, max_steps=4, max_in_decls=2, max_out_decls=2, explicit_raise=0, raise_rate=0.0, nested=False, record_data=False,
                    extractor=False, properties=False, class_level=False, resolvers=False, capture=False)
    # make sure there is an input with a handler and one parameter, and an output called repeatedly
    p['inputs'] = [d for d in p['inputs']][:1]
    if not p['inputs']:
        p['inputs'] = [{'name': 'in0', 'io': 'in', 'kind': 'instance', 'nparams': 1, 'resolver': None, 'capture': 'all', 'handler': None,
                        'fallback': None, 'run_original': False, 'substitute': ('none',), 'nested': [], 'alias': 'h.in'}]
    d = p['inputs'][0]
    d['nparams'], d['handler'], d['kind'], d['capture'] = 1, 'wrap', 'instance', 'all'
    p['outputs'] = p['outputs'][:1] or [{'name': 'out0', 'io': 'out', 'kind': 'instance', 'nparams': 1, 'handler': None, 'fail_on_no_result': True,
                                         'default': None, 'nested': [], 'alias': 'h.out'}]
    o = p['outputs'][0]
    o['nparams'] = 1
    p['body'] = [{'op': 'in', 'decl': d['name'], 'args': [{'lit': seed % 5}], 'kwargs': {}, 'var': 'a'},
                 {'op': 'out', 'decl': o['name'], 'args': [{'var': 'a'}], 'kwargs': {}, 'var': 'b'},
                 {'op': 'out', 'decl': o['name'], 'args': [{'lit': 'second'}], 'kwargs': {}, 'var': 'c'},
                 {'op': 'in', 'decl': d['name'], 'args': [{'lit': 7}], 'kwargs': {}, 'var': 'e'},
                 {'op': 'out', 'decl': o['name'], 'args': [{'var': 'e'}], 'kwargs': {}, 'var': 'f'}]
    p['params'] = None
    p['extractor'] = None
    p['gen_seed'] = seed
    return p


class CachingSpy(SpyCassette):
    """A read cache in front of the store: repeated fetches of an id hand out the SAME Recording object (legal: get_data copies)."""

    def get_recording(self, recording_id):
        cache = self.__dict__.setdefault('_fetched', {})
        if recording_id not in cache:
            cache[recording_id] = SpyCassette.get_recording(self, recording_id)
        else:
            self._add('get', recording_id)
        return cache[recording_id]


class Session(object):
    def __init__(self, kind, rng_seed=11, caching=False):
        from playback.tape_recorder import TapeRecorder
        self.cm = open_box(kind)
        self.box = self.cm.__enter__()
        self.spy = (CachingSpy if caching else SpyCassette)(self.box.cassette)
        self.rec = TapeRecorder(self.spy)
        self.rec._random = SpyRandom(rng_seed)
        self.rec.enable_recording()
        self.saved = []   # (recording id, program)
        self.builts = {}

    def close(self):
        self.cm.__exit__(None, None, None)


def idle_check(ctx, rec, w, after):
    ctx.count('idle_predicate_evaluations')
    bad = []
    if rec.in_recording_mode:
        bad.append('in_recording_mode')
    if rec.in_playback_mode:
        bad.append('in_playback_mode')
    if rec.current_recording_id is not None:
        bad.append('current_recording_id=%r' % rec.current_recording_id)
    if rec.is_recording_sample_forced:
        bad.append('is_recording_sample_forced')
    ic = getattr(rec, '_invoke_counter', None)
    if ic is not None and len(ic) != 0:
        bad.append('output numbering not restarted: %r' % dict(ic))
    if getattr(rec, '_currently_in_interception', False):
        bad.append('nested-interception suppression still set on this thread')
    po = getattr(rec, '_playback_outputs', None)
    if po:
        bad.append('playback outputs left over: %d' % len(po))
    if bad:
        ctx.violation('recorder not idle after a run that %s: %s' % (after, '; '.join(bad)), dict(w, after=after))


def do_element(ctx, sess, kind, seed, w):
    """Runs one history element on sess.rec."""
    from playback.exceptions import TapeRecorderException
    prog = hist_program(seed)
    rec = sess.rec
    if kind in ('success', 'raises', 'raises_unencodable', 'interrupt', 'interrupt_in_body', 'discarded', 'sampled_out', 'forced', 'handler_fault', 'key_fault', 'save_fails', 'kill_switch'):
        faults, cfg = {}, {}
        if kind == 'raises':
            faults = {('main', 2): 'raise_user'}
        elif kind == 'raises_unencodable':
            faults = {('main', 2): 'raise_user_unencodable'}      # same exception class, but this instance carries a live resource
        elif kind == 'interrupt':
            faults = {('main', 3): 'raise_interrupt'}
        elif kind == 'interrupt_in_body':
            faults = {('main', 1): 'body_raise_interrupt'}
        elif kind == 'discarded':
            faults = {('main', 2): 'discard'}
        elif kind == 'sampled_out':
            cfg = {'rate': 0}
        elif kind == 'forced':
            faults = {('main', 1): 'force'}
            cfg = {'rate': 0}
        elif kind == 'handler_fault':
            faults = {('main', 0): 'handler_raises'}
        elif kind == 'key_fault':
            faults = {('main', 0): 'badkey'}
        elif kind == 'save_fails':
            cfg = {'fail_save': True}
        elif kind == 'kill_switch':
            faults = {('main', 2): 'disable'}      # recording switched off mid-flight; execute() switches it on again afterwards
        # the same service class is invoked again and again: one Built (= one class, its parameters registered once) per
        # (program, sampling configuration)
        ck = (seed, cfg.get('rate'))
        res = fr.execute(prog, faults, recorder=rec, spy=sess.spy, box=sess.box, with_twin=False, built=sess.builts.get(ck), **cfg)
        sess.builts[ck] = res.live
        saves = [e for e in res.spy_events if e[0] == 'save']
        if saves and not any(e[0] == 'save_failed' for e in res.spy_events) and kind in ('success', 'raises', 'forced'):
            sess.saved.append((saves[0][2], prog, faults))
        return
    if kind == 'replay_imported':
        from vlib.history import replay_imported
        replay_imported(rec)
        return
    if kind in ('extractor_raises', 'extractor_interrupted'):
        # the run is over and kept; the user's metadata extractor then fails with an ordinary / an interrupt-style exception
        ek = (seed, 'extractor')
        res = fr.execute(prog, {}, recorder=rec, spy=sess.spy, box=sess.box, with_twin=False, built=sess.builts.get(ek),
                         extractor='raises' if kind == 'extractor_raises' else 'interrupts')
        sess.builts[ek] = res.live
        return
    if kind == 'rate0_discarded':
        # an operation of a class with sampling rate 0 discards its recording explicitly
        ek = (seed, 0)
        res = fr.execute(prog, {('main', 2): 'discard'}, recorder=rec, spy=sess.spy, box=sess.box, with_twin=False, built=sess.builts.get(ek), rate=0)
        sess.builts[ek] = res.live
        return
    if kind == 'generator_kept':
        # an intercepted input hands out a generator (a cursor); the operation takes two rows and the service keeps the cursor for later
        from vlib import genclasses

        class Cursor(object):
            rows = rec.intercept_input('cursor.rows')(lambda self: (('row', i) for i in range(6)))

            def execute(self):
                g = self.rows()
                first = [next(g), next(g)]
                sess.kept_generator = g
                return first
        Cursor.execute = rec.operation()(Cursor.execute)
        genclasses.register(type('Cursor%d' % (seed % 1000), (Cursor,), {}))().execute()
        return
    if kind == 'noop_discard':
        # a discard with nothing to discard: outside any operation (cleanup code, a signal handler, a request that was not recorded)
        rec.discard_recording()
        return
    if kind == 'context_kept_by_an_input':
        res = fr.execute(prog, {('main', 0): 'body_keep_context'}, recorder=rec, spy=sess.spy, box=sess.box, with_twin=False,
                         built=sess.builts.get((seed, None)))
        sess.builts[(seed, None)] = res.live
        sess.kept_context = getattr(res.live, 'kept_context', None) or getattr(sess, 'kept_context', None)
        return
    if kind in ('discarded_by_a_helper_thread', 'discarded_by_a_helper_thread_then_interrupted'):
        # the recording of an operation in flight is discarded from ANOTHER thread (a watchdog, a helper thread of the operation on which
        # a capture fails) - discard_recording is documented to be callable from interceptions that run on other threads
        import threading

        def from_helper(built):
            t = threading.Thread(target=rec.discard_recording)
            t.start()
            t.join()
        p2 = clone(prog)
        p2['body'] = p2['body'][:2] + [{'op': 'py', 'fn': from_helper}] + p2['body'][2:]
        faults = {('main', 4): 'raise_interrupt'} if kind.endswith('interrupted') else {}
        fr.execute(p2, faults, recorder=rec, spy=sess.spy, box=sess.box, with_twin=False)
        return
    if kind == 'forced_discarded':
        # sampling is enforced and the recording is discarded afterwards in the same operation
        res = fr.execute(prog, {('main', 1): 'force', ('main', 3): 'discard'}, recorder=rec, spy=sess.spy, box=sess.box, with_twin=False,
                         built=sess.builts.get((seed, None)))
        sess.builts[(seed, None)] = res.live
        return
    if kind == 'double_discard':
        res = fr.execute(prog, {('main', 1): 'discard', ('main', 3): 'discard'}, recorder=rec, spy=sess.spy, box=sess.box, with_twin=False,
                         built=sess.builts.get((seed, None)))
        sess.builts[(seed, None)] = res.live
        return
    if kind == 'equal_hash_args':
        # the very calls of the probe were made before on this recorder with arguments that are equal but of another type
        # (1 / True / 1.0 compare and hash equal; their keys differ)
        p2 = clone(hist_program(getattr(sess, 'pseed', seed)))
        swap = random.Random(seed).choice([lambda v: bool(v) if v in (0, 1) else float(v), lambda v: float(v)])
        for st in p2['body']:
            st['args'] = [({'lit': swap(a['lit'])} if 'lit' in a and type(a['lit']) is int else a) for a in st['args']]
        res = fr.execute(p2, {}, recorder=rec, spy=sess.spy, box=sess.box, with_twin=False)
        return
    if kind == 'nested_play_discards_outer' and not sess.saved:
        res = fr.execute(prog, {}, recorder=rec, spy=sess.spy, box=sess.box, with_twin=False)
        sess.saved.append(([e for e in res.spy_events if e[0] == 'save'][0][2], prog, {}))
    if kind == 'nested_play_discards_outer':
        # a recorded operation that has already made output calls replays a stored recording itself (a self-check); the replayed code
        # discards "the current recording" - which is the enclosing one. Afterwards the operation ends normally.
        rid, rprog, rfaults = sess.saved[-1]

        def nested(built):
            rep = Built(rprog, rec, World(1, poison=True), faults={('main', 1): 'discard'})
            try:
                rec.play(rid, playback_function_for(rep))
            except (TapeRecorderException, UserError, InterruptLike, AssertionError):
                pass
        p2 = clone(prog)
        p2['body'] = p2['body'][:3] + [{'op': 'py', 'fn': nested}] + p2['body'][3:]
        fr.execute(p2, {}, recorder=rec, spy=sess.spy, box=sess.box, with_twin=False)
        return
    # replays
    if not sess.saved:
        res = fr.execute(prog, {}, recorder=rec, spy=sess.spy, box=sess.box, with_twin=False)
        sess.saved.append(([e for e in res.spy_events if e[0] == 'save'][0][2], prog, {}))
        idle_check(ctx, rec, w, 'recorded (setup)')
    rid, rprog, rfaults = sess.saved[-1]
    try:
        if kind == 'replay_outputs_post_processed':
            # the caller of play() normalises / completes the outputs it was handed IN PLACE
            from vlib.values import mutate_deep
            rep = Built(rprog, rec, World(1, poison=True), faults=fr.service_faults(rfaults))
            pb = rec.play(rid, playback_function_for(rep))
            for o in list(pb.playback_outputs) + list(pb.recorded_outputs):
                mutate_deep(o.value, 'POST')
        elif kind == 'replay_ok':
            rep = Built(rprog, rec, World(1, poison=True), faults=fr.service_faults(rfaults))
            rec.play(rid, playback_function_for(rep))
        elif kind == 'replay_missing_id':
            rep = Built(rprog, rec, World(1, poison=True))
            rec.play(rid.rsplit('/', 1)[0] + '/0000missing', playback_function_for(rep))
        elif kind == 'replay_missing_key':
            p2 = clone(rprog)
            p2['body'] = [dict(p2['body'][0], args=[{'lit': 'never-recorded'}])] + p2['body'][1:]
            rep = Built(p2, rec, World(1, poison=True))
            rec.play(rid, playback_function_for(rep))
        elif kind == 'replay_fn_raises':
            def fn(recording):
                raise UserError('playback function raises')
            rec.play(rid, fn)
        elif kind == 'replay_fn_interrupted':
            rep = Built(rprog, rec, World(1, poison=True), faults={('main', 2): 'raise_interrupt'})
            rec.play(rid, playback_function_for(rep))
    except (TapeRecorderException, UserError, InterruptLike):
        ctx.count('history_elements_ending_in_exception')


def probe(ctx, rec, spy, box, which, seed, replay_source=None, builts=None, during=None):
    """A probe that ends in an exception of the framework is a summary too (it is compared with the fresh recorder's)."""
    from playback.exceptions import TapeRecorderException
    try:
        return _probe(ctx, rec, spy, box, which, seed, replay_source, builts, during)
    except TapeRecorderException as ex:
        return ('probe raised', type(ex).__name__)


def _probe(ctx, rec, spy, box, which, seed, replay_source=None, builts=None, during=None):
    """Returns a comparable summary of the probe run. ``during`` runs as a plain step inside the probe's operation (the service finishing
    off something it kept from an earlier run)."""
    prog = hist_program(seed)
    if which == 'record':
        prog = dict(prog, body=prog['body'][:2] + [{'op': 'py', 'fn': (lambda built: (during or (lambda: None))())}] + prog['body'][2:])
    if which == 'explicit_scope':
        # a recording scope opened directly (public context manager) for a class with default parameters
        from playback.tape_recorder import TapeRecorder as _TR
        from vlib import genclasses
        cls = genclasses.register(type('ProbeScope%d' % (seed % 1000), (object,), {}))
        n0 = len(spy.log)
        try:
            with rec.start_recording('ProbeScope', {_TR.OPERATION_CLASS: cls}):
                rec.record_data('probe', ['scope', seed % 7])
            out = 'completed'
        except BaseException as ex:  # noqa
            out = 'raised ' + type(ex).__name__
        ev = [e[0] for e in spy.log[n0:] if e[0] in ('create', 'save', 'abort')]
        return ('scope', ev, out)
    if which == 'record_rate0':
        # an invocation of a class with sampling rate 0 that forces nothing: must be sampled out whatever earlier invocations did
        b = (builts or {}).get((seed, 0))
        res = fr.execute(prog, {}, recorder=rec, spy=spy, box=box, with_twin=False, rate=0, built=b)
        return ('rate0', [e[0] for e in res.spy_events if e[0] in ('create', 'save', 'abort')], repr(res.outcome))
    if which in ('record', 'record_raises', 'record_raises_unencodable'):
        pf = {'record': {}, 'record_raises': {('main', 2): 'raise_user'}, 'record_raises_unencodable': {('main', 2): 'raise_user_unencodable'}}[which]
        res = fr.execute(prog, pf, recorder=rec, spy=spy, box=box, with_twin=False)
        saves = [e for e in res.spy_events if e[0] == 'save']
        if len(saves) != 1 or any(e[0] == 'save_failed' for e in res.spy_events):
            return ('not-saved', len(saves), [e[0] for e in res.spy_events])
        got = box.reader().get_recording(saves[0][2])
        data = {k: got.get_data(k) for k in got.get_all_keys()}
        md = {k: v for k, v in got.get_metadata().items() if 'duration' not in k and 'recorded_at' not in k and 'operation_class' not in k}
        return ('saved', data, md, repr(res.outcome))
    rid, rprog = replay_source
    rep = Built(rprog, rec, World(1, poison=True))
    pb = rec.play(rid, playback_function_for(rep))
    return ('played', [(o.key, o.value) for o in pb.playback_outputs], [(o.key, o.value) for o in pb.recorded_outputs],
            [(e['decl'], repr(e.get('ret'))[:100]) for e in rep.journal.calls()])


def run_history(ctx, kinds, which, kind_cassette, seed):
    from playback.tape_recorder import TapeRecorder
    desc = {'history': kinds, 'probe': which, 'cassette': kind_cassette}
    w = dict(desc, seed=seed)
    ctx.case(desc, nontrivial=len(kinds) >= 1)
    sess = Session(kind_cassette, caching=(seed % 5 == 3))
    if seed % 5 == 3:
        ctx.count('histories_on_a_cassette_with_a_read_cache')
    try:
        # a recording to replay in the probe, made before the history
        setup = fr.execute(hist_program(seed + 999), {}, recorder=sess.rec, spy=sess.spy, box=sess.box, with_twin=False)
        src = ([e for e in setup.spy_events if e[0] == 'save'][0][2], hist_program(seed + 999))
        if seed % 5 == 3:
            sess.saved.append((src[0], src[1], {}))      # (the history replays the very recording the probe will replay: repeated fetches of one id)
        draws_before = len(sess.rec._random.draws)
        sess.pseed = seed if which == 'record_rate0' else seed + 500
        for i, k in enumerate(kinds):
            do_element(ctx, sess, k, seed + (i % 2), w)
            ctx.count('history_elements')
            ctx.count('element_' + k)
            idle_check(ctx, sess.rec, w, k)
        pseed = seed if which == 'record_rate0' else seed + 500
        kept_gen = getattr(sess, 'kept_generator', None)
        finish_kept = (lambda: [x for x in kept_gen]) if kept_gen is not None else None     # the service drains the cursor it kept, inside the probe's operation
        kept = getattr(sess, 'kept_context', None)
        if kept is not None:
            # the follow-up request runs in the execution context an intercepted function of an earlier operation kept
            ctx.count('probes_in_a_kept_context')
            got = kept.run(lambda: probe(ctx, sess.rec, sess.spy, sess.box, which, pseed, src, builts=sess.builts, during=finish_kept))
        elif seed % 2 == 0:
            got = probe(ctx, sess.rec, sess.spy, sess.box, which, pseed, src, builts=sess.builts, during=finish_kept)
        else:
            # the next request is served by another thread of the process than the history was
            import threading
            boxed = {}

            def _probe():
                try:
                    boxed['got'] = probe(ctx, sess.rec, sess.spy, sess.box, which, pseed, src, builts=sess.builts, during=finish_kept)
                except BaseException as ex:  # noqa
                    boxed['err'] = ex
            t = threading.Thread(target=_probe, daemon=True)
            t.start()
            t.join(30)
            ctx.count('probes_on_another_thread')
            if t.is_alive():
                ctx.violation('probe (%s) on another thread after history %s did not finish within 30 s: the recorder blocks it' % (which, kinds), w)
                ctx.count('probes_blocked')
                if ctx.counters.get('probes_blocked', 0) >= 3:
                    raise env.EnoughViolations()      # every further blocked probe would cost another 30 s
                return
            if 'err' in boxed:
                raise boxed['err']
            got = boxed['got']
        idle_check(ctx, sess.rec, w, 'probe ' + which)
        if which == 'record' and got and got[0] == 'saved':
            # absolute part of the probe (a fresh recorder of the same process shares whatever is process-wide)
            for k, v in got[1].items():
                if k.startswith('output: _tape_recorder_operation') and isinstance(v, dict) and v.get('kwargs') not in ({}, None):
                    ctx.violation('the operation entry of a recording made after history %s carries keyword arguments nobody passed' % kinds,
                                  dict(w, kwargs=repr(v.get('kwargs'))[:200]))
        # the same probe on a fresh recorder over the same cassette contents
        spy2 = SpyCassette(sess.box.cassette)
        fresh = TapeRecorder(spy2)
        fresh._random = SpyRandom(11)
        fresh.enable_recording()
        exp = probe(ctx, fresh, spy2, sess.box, which, pseed, src)
        ctx.count('probes_compared')
        if which != 'replay' and (which.startswith('record_raises') or ctx.counters['probes_compared'] % 16 == 0):
            # ... and on a fresh recorder in a FRESH PROCESS (what is process-wide is shared by every recorder of this process)
            from vlib.programs import canon
            XPROC.append(((which, pseed, kind_cassette), canon(got), w))
        if not teq(got, exp):
            ctx.violation('probe (%s) after history %s differs from the same probe on a fresh recorder' % (which, kinds),
                          dict(w, got=repr(got)[:600], fresh=repr(exp)[:600]))
    finally:
        sess.close()


XPROC = []


def reference_main():
    """Runs in a fresh process: every requested probe on a fresh recorder; prints the canonical summaries."""
    import json
    import sys
    from playback.tape_recorder import TapeRecorder
    from vlib.programs import canon
    out = []
    for which, pseed, kind in json.loads(sys.stdin.read()):
        with open_box(kind) as box:
            spy = SpyCassette(box.cassette)
            rec = TapeRecorder(spy)
            rec._random = SpyRandom(11)
            rec.enable_recording()
            out.append(canon(probe(None, rec, spy, box, which, pseed)))
    print('REFERENCE ' + json.dumps(out))


def compare_with_fresh_process(ctx):
    import json
    import os
    import subprocess
    import sys
    if not XPROC:
        return
    # one fresh process per probe kind (probes of different kinds in one process would give that process a history of its own)
    code = "import sys; sys.path.insert(0, %r); from vlib import env; env.bootstrap(); from checks import C09; C09.reference_main()" % env.VERIF
    ref = {}
    procs = []
    for which in sorted(set(x[0][0] for x in XPROC)):
        reqs = sorted(set(x[0] for x in XPROC if x[0][0] == which))
        p = subprocess.Popen([sys.executable, '-c', code], stdin=subprocess.PIPE, stdout=subprocess.PIPE, stderr=subprocess.PIPE, text=True,
                             env=dict(os.environ, VERIF_REPO=env.REPO, PYTHONHASHSEED='0'))
        procs.append((p, reqs))
    try:
        for p, reqs in procs:
            so, se = p.communicate(json.dumps(reqs), timeout=900)
            line = [l for l in so.splitlines() if l.startswith('REFERENCE ')][-1]
            ref.update(zip(reqs, json.loads(line[len('REFERENCE '):])))
    except Exception as ex:
        for p, _ in procs:
            p.kill()
        ctx.inconclusive('reference probes in a fresh process failed: %r' % (ex,))
        return
    for key, got, w in XPROC:
        ctx.count('probes_compared_with_a_fresh_process')
        if got != ref[key]:
            ctx.violation('probe (%s) after history %s differs from the same probe on a fresh recorder in a fresh process' % (key[0], w['history']),
                          dict(w, got=got[:500], fresh_process=ref[key][:500]))
    del XPROC[:]


def run(ctx):
    idx = 0
    for a, b in itertools.product(KINDS, KINDS):
        for which in ('record', 'replay', 'record_rate0'):
            idx += 1
            if ctx.mine(idx):
                run_history(ctx, [a, b], which, ('memory', 'file', 's3')[idx % 3], 1000 + idx)
    ctx.note('length2_histories_exhaustive', True)
    # operations that fail, probed after histories in which the same exception class was seen in its other form
    for hi, hist in enumerate([['raises'], ['raises_unencodable'], ['raises', 'raises_unencodable'], ['raises_unencodable', 'raises'], ['success'],
                               ['raises', 'replay_ok', 'raises'], ['raises_unencodable', 'discarded', 'raises_unencodable']]):
        for which in ('record_raises', 'record_raises_unencodable'):
            idx += 1
            if ctx.mine(idx):
                run_history(ctx, hist, which, ('memory', 'file', 's3')[idx % 3], 4000 + hi)
    # recording scopes opened directly, after histories that end in discards of classes with parameters of their own
    for hi, hist in enumerate([['rate0_discarded'], ['discarded'], ['rate0_discarded', 'rate0_discarded'], ['sampled_out'], ['forced_discarded'], ['success', 'rate0_discarded'],
                               ['rate0_discarded', 'replay_ok'], ['generator_kept'], ['handler_fault', 'rate0_discarded']]):
        idx += 1
        if ctx.mine(idx):
            run_history(ctx, hist, 'explicit_scope', ('memory', 'file', 's3')[idx % 3], 5000 + hi)
    # a recording discarded from another thread than the one that runs the operation; the next request is served by the SAME thread
    # (even seeds) and by another one (odd seeds)
    for hi, hist in enumerate([['discarded_by_a_helper_thread'], ['discarded_by_a_helper_thread_then_interrupted'], ['success', 'discarded_by_a_helper_thread'],
                               ['discarded_by_a_helper_thread', 'replay_ok'], ['discarded_by_a_helper_thread', 'discarded_by_a_helper_thread']]):
        for which in ('record', 'replay', 'record_rate0', 'explicit_scope'):
            for par in (0, 1):
                idx += 1
                if ctx.mine(idx):
                    run_history(ctx, hist, which, ('memory', 'file', 's3')[idx % 3], 6000 + 10 * hi + par)
    n = ctx.budget(300, 20000)
    rng = ctx.rng
    for i in range(n):
        kinds = [rng.choice(KINDS) for _ in range(rng.randrange(1, 9))]
        run_history(ctx, kinds, rng.choice(['record', 'replay', 'record_rate0']), rng.choice(['memory', 'memory', 'file', 's3']), rng.randrange(1 << 20))
    compare_with_fresh_process(ctx)
    if not ctx.quick and ctx.shard == 0:
        # auxiliary workload: the repository's own tests with the idle predicates evaluated at every test teardown
        from vlib.repo_tests import run_under_monitors
        res, tail = run_under_monitors()
        if res is None:
            ctx.count('repo_tests_under_monitors_unavailable')
        else:
            ctx.count('repo_tests_idle_predicate_evaluations', res['idle_evaluations'])
            ctx.note('repo_tests_summary', tail)
            for v in res['idle_violations']:
                ctx.violation('recorder not idle at teardown of a repository test: %s' % v['what'], v)
    ctx.sample({'history': ['interrupt_in_body', 'replay_missing_key'], 'probe': 'record', 'probe_program': describe(hist_program(1500))})
    if not ctx.counters.get('probes_compared'):
        ctx.inconclusive('no probe was compared')


def replay(ctx, w):
    run_history(ctx, w['history'], w['probe'], w['cassette'], w['seed'])
    compare_with_fresh_process(ctx)
