"""C04 Recording is transparent to the recorded service.

Differential monitor: the decorated run is compared with an undecorated twin of the same program against the same
world under the same service-level faults: same returned object (identity with what the body returned), same
exception object, every wrapped body executed exactly once with the same arguments.  Part (a) enumerates fault
placements single-threaded; part (b) explores thread interleavings of worker-thread programs with the deterministic
scheduler (vlib.sched).
"""
import random

from vlib import env
from vlib import faultruns as fr
from vlib.programs import describe, call_outcome
from vlib.values import teq

PROPERTY = 'C04'
LEVEL = 'fault_enumeration'
RULE = ('(a) for each base program (seeded, every decorator feature) every single placement and (sampled) every pair of placements of '
        '{raise user/interrupt, discard, force before a step; unencodable argument, failing data handler / alias resolver, discard / force / raise '
        'inside the intercepted body, unserializable value on an intercepted call} x {extractor none/ok/raises/junk, save fails, sampling rate 0/0.5/1, '
        'copy-on-interception} and recording disabled (pure pass-through); (b) worker-thread programs under the deterministic scheduler: all '
        'schedules up to the preemption bound, then random schedules. A case = one (program, placement, config) or one schedule; distinct = its hash; '
        'non-trivial = at least one fault was actually triggered or at least one preemption happened.')
ASSUMPTIONS = ['the twin is the same generated program built with identity decorators, run against the same pure world',
               'schedules: source-line granularity, preemption bound K (quick 1, thorough 2), random beyond',
               'user code does not catch interrupt-style exceptions and does not raise playback.exceptions itself']


def compare_with_twin(ctx, res, w):
    """The C04 oracle. Returns number of calls compared."""
    D, T = res.live, res.twin
    # operation outcome
    od, ot = res.outcome, res.twin_outcome
    body = [e for e in D.journal.events if e['ev'] == 'op_body']
    if len(body) != 1:
        ctx.violation('operation body executed %d times' % len(body), w)
        return 0
    body = body[0]
    if od.kind != ot.kind or (od.kind == 'exc' and type(od.value) is not type(ot.value)):
        ctx.violation('decorated operation ended differently from the undecorated twin: %r vs %r' % (od, ot), dict(w, decorated=repr(od)[:300], twin=repr(ot)[:300]))
    elif od.kind == 'ret':
        if od.value is not body.get('returned'):
            ctx.violation('decorated operation did not return the very object its body returned', w)
        if not teq(od.value, ot.value):
            ctx.violation('decorated operation returned a different value than the twin', dict(w, decorated=repr(od.value)[:300], twin=repr(ot.value)[:300]))
    else:
        if od.value is not body.get('raised'):
            ctx.violation('decorated operation raised another exception object than its body raised (%s)' % type(od.value).__name__, w)
    # intercepted calls, per logical thread
    n = 0
    dt = D.journal.by_thread(D.journal.calls())
    tt = T.journal.by_thread(T.journal.calls())
    for th in sorted(set(dt) | set(tt)):
        a, b = dt.get(th, []), tt.get(th, [])
        if len(a) != len(b):
            ctx.violation('decorated run made %d intercepted calls on thread %s, twin made %d' % (len(a), th, len(b)), w)
        for x, y in zip(a, b):
            n += 1
            if x['decl'] != y['decl']:
                ctx.violation('decorated run diverged from the twin', dict(w, decorated=x['decl'], twin=y['decl']))
                break
            ox, oy = call_outcome(x), call_outcome(y)
            bodies = [e for e in D.journal.events if e['ev'] == 'body' and e.get('call_n') == x['n'] and e['decl'] == x['decl']]
            if len(bodies) != 1:
                ctx.violation('wrapped body of an intercepted %s executed %d times (must be exactly once)' % (x['io'], len(bodies)), dict(w, decl=x['decl']))
                break
            be = bodies[0]
            tbodies = [e for e in T.journal.events if e['ev'] == 'body' and e.get('call_n') == y['n'] and e['decl'] == y['decl']]
            if len(tbodies) == 1 and tbodies[0].get('ambient') != be.get('ambient'):
                ctx.violation('the wrapped body ran while another exception was being handled than in the twin (sys.exc_info() visible to the service differs)',
                              dict(w, decl=x['decl'], decorated=be.get('ambient'), twin=tbodies[0].get('ambient')))
            if not teq(list(be['args']), list(x['args'])) or not teq(be['kwargs'], x['kwargs']):
                ctx.violation('wrapped body received other arguments than the caller passed', dict(w, decl=x['decl']))
            if ox.kind != oy.kind or (ox.kind == 'exc' and type(ox.value) is not type(oy.value)):
                ctx.violation('intercepted %s call ended differently from the twin: %s vs %s' % (x['io'], _short(ox), _short(oy)),
                              dict(w, decl=x['decl'], decorated=repr(ox)[:300], twin=repr(oy)[:300]))
                break
            if ox.kind == 'ret':
                got = ox.value
                if D.decls[x['decl']]['kind'] == 'property_inner_sub':
                    # the user's own descriptor wraps what the getter returned - in the twin exactly the same way
                    ctx.count('calls_through_a_property_subclass')
                    if not (isinstance(got, dict) and list(got) == ['by_descriptor']) or not (isinstance(oy.value, dict) and list(oy.value) == ['by_descriptor']):
                        ctx.violation('an intercepted property of a property SUBCLASS no longer goes through the subclass\'s own __get__', dict(w, decl=x['decl']))
                        break
                    got = got['by_descriptor']
                if got is not be.get('returned'):
                    ctx.violation('intercepted call did not return the very object the wrapped body returned', dict(w, decl=x['decl']))
                if not teq(ox.value, oy.value):
                    ctx.violation('intercepted call returned another value than in the twin', dict(w, decl=x['decl']))
            elif ox.value is not be.get('raised'):
                ctx.violation('intercepted call raised another exception object than the wrapped body raised (%s)' % type(ox.value).__name__, dict(w, decl=x['decl']))
            elif x.get('exc_origin') != y.get('exc_origin'):
                # the same object, but is it still the service's exception as an error report shows it? (innermost traceback frame)
                ctx.violation('the exception of an intercepted call reaches the caller with another origin (innermost traceback frame) than in the twin',
                              dict(w, decl=x['decl'], decorated=x.get('exc_origin'), twin=y.get('exc_origin')))
            else:
                ctx.count('exception_origins_compared')
    # process-wide interpreter / host settings are the same after the decorated run as before it
    if getattr(res, 'process_state_before', None) is not None:
        ctx.count('process_state_snapshots_compared')
        changed = sorted(k for k in res.process_state_before if res.process_state_before[k] != res.process_state_after.get(k))
        if changed:
            ctx.violation('the decorated run changed process-wide state: %s' % ', '.join(changed)[:120],
                          dict(w, before=repr([res.process_state_before[k] for k in changed])[:200], after=repr([res.process_state_after.get(k) for k in changed])[:200]))
    # the process-wide random generator is the service's: after the run it must be where the undecorated run leaves it
    if getattr(res, 'global_random_after', None) is not None and getattr(res, 'twin_global_random_after', None) is not None:
        ctx.count('global_random_stream_compared')
        if res.global_random_after != res.twin_global_random_after:
            ctx.violation('the framework drew from (or reseeded) the process-wide random generator while recording: the service\'s own random numbers differ from '
                          'the undecorated run', w)
    # a mapping the service owns and hands to the framework (the extractor's return value) must come back untouched
    ls = getattr(D, 'live_stats', None)
    if ls is not None:
        ctx.count('live_mappings_checked')
        if set(ls) != {'u_tag', 'u_n'}:
            ctx.violation('a mapping owned by the service (returned by its metadata extractor) was modified by the framework',
                          dict(w, foreign_keys=sorted(str(k) for k in set(ls) - {'u_tag', 'u_n'})[:5]))
    # nested (suppressed) interceptions: bodies must equal the twin's as a multiset per thread
    db = [(e['thread'], e['decl']) for e in D.journal.bodies()]
    tb = [(e['thread'], e['decl']) for e in T.journal.bodies()]
    if sorted(db) != sorted(tb):
        ctx.violation('wrapped bodies executed in the decorated run differ from the twin (%d vs %d)' % (len(db), len(tb)), w)
    # uncaught exceptions inside worker threads must match
    de = sorted((e['thread'], type(e['exc']).__name__) for e in D.journal.events if e['ev'] == 'thread_exc')
    te = sorted((e['thread'], type(e['exc']).__name__) for e in T.journal.events if e['ev'] == 'thread_exc')
    if de != te:
        ctx.violation('worker thread ended differently from the twin: %r vs %r' % (de, te), w)
    return n


def _short(o):
    return o.kind if o.kind == 'ret' else 'raises ' + type(o.value).__name__


def repeated_fetch_part(ctx):
    """The same input fetched several times with equal arguments inside one operation, every fetch returning a new array-like
    object (its == is not a bool): on every cassette type, synchronous and asynchronous."""
    from playback.tape_recorder import TapeRecorder
    from vlib.cassettes import open_box, async_over
    from vlib.programs import Built, World
    from vlib.spies import SpyCassette
    from checks.C04_sched import _in, _out, _call
    for kind in ('memory', 'file', 's3', 'async'):
        for static in (False, True):
            prog = {'seed_world': 99, 'class_level': False, 'extractor': None, 'params': {'copy': static}, 'opts': {'raise_rate': 0.0}, 'uid': 960000 + static,
                    'inputs': [_in('in0', 'rf.in', kind='static' if static else 'instance')], 'outputs': [_out('out0', 'rf.out')],
                    'body': [_call('in', 'in0', 1), dict(_call('in', 'in0', 1), var='again'), dict(_call('in', 'in0', 1), var='again2'),
                             {'op': 'out', 'decl': 'out0', 'args': [{'var': 'again'}], 'kwargs': {}, 'var': 'o1'},
                             {'op': 'out', 'decl': 'out0', 'args': [{'var': 'again2'}], 'kwargs': {}, 'var': 'o2'}]}
            with open_box('memory' if kind == 'async' else kind) as box:
                inner = async_over(box.cassette) if kind == 'async' else box.cassette
                rec = TapeRecorder(SpyCassette(inner))
                rec.enable_recording()
                res = fr.RunResult()
                res.live = Built(prog, rec, World(99, raise_rate=0.0, hostile_rate=1.0))
                res.outcome = res.live.run('live')
                res.twin = Built(prog, None, World(99, raise_rate=0.0, hostile_rate=1.0))
                res.twin_outcome = res.twin.run('live')
                if kind == 'async':
                    inner.close()
                ctx.case(('repeated-fetch', kind, static))
                ctx.count('repeated_fetch_runs')
                ctx.count('calls_compared', compare_with_twin(ctx, res, {'repeated_fetch': True, 'cassette': kind, 'static': static}))


def fault_part(ctx):
    repeated_fetch_part(ctx)
    nprog = 12 if ctx.quick else 60
    progs = fr.base_programs(ctx.seed + 1, nprog)
    rng = ctx.rng
    idx = 0
    for pi, prog in enumerate(progs):
        if pi % 3 == 1:
            # the service keeps an audit note in the recording under a key of its own that happens to start like the framework's output keys
            prog['body'].insert(0, {'op': 'record_data', 'key': ['output: audit summary', 'output:', 'input: cached', 'output: x #1', 'output: y #one.output'][pi % 5],
                                    'value': {'lit': {'note': pi}}})
            ctx.count('programs_recording_data_under_framework_like_keys')
        pls = fr.all_placements(prog, pairs=True, max_pairs=25 if ctx.quick else 400, rng=random.Random(pi))
        # recording switched off while the operation is in flight (kill switch), alone and together with one other fault
        steps = [pos for pos, op, dn in fr.dry_trace(prog) if pos[0] == 'main']
        for pos in steps:
            pls.append({pos: 'disable'})
        prng = random.Random(pi + 17)
        for f in [f for f in pls if len(f) == 1 and list(f.values())[0] != 'disable'][:60]:
            pos = prng.choice(steps)
            if pos not in f:
                g = dict(f)
                g[pos] = 'disable'
                pls.append(g)
        for faults in pls:
            idx += 1
            if not ctx.mine(idx):
                continue
            cfg = {'extractor': rng.choice([e for e in fr.EXTRACTORS if e != 'ok_calls_output']), 'fail_save': rng.random() < 0.15, 'rate': rng.choice([None, None, 0, 0.5, 1]),
                   'copy': rng.choice([None, True, False]), 'kind': rng.choice(['memory', 'memory', 'async', 'file', 's3', 's3calc']),
                   'caller_context': fr.CALLER_CONTEXTS[idx % 9] if idx % 9 < 4 else 'plain'}     # also called from except / finally blocks
            if idx % 13 == 6:
                cfg['extractor'] = 'discards'      # the metadata extractor itself asks for the recording to be discarded (after the fact)
                ctx.count('runs_whose_extractor_discards')
            if idx % 7 == 3:
                cfg['verbose'] = True        # DEBUG logging on, service object and some values printable by their owner only
                ctx.count('runs_with_debug_logging_and_unprintable_values')
            if idx % 5 == 0 and cfg['kind'] != 'async':
                # the recorder has a past (earlier operations, replays, a failed replay of an imported recording ...)
                from playback.tape_recorder import TapeRecorder
                from vlib.cassettes import open_box
                from vlib.spies import SpyCassette, SpyRandom
                from vlib.history import give_past
                cm = open_box('s3' if cfg['kind'] == 's3calc' else cfg['kind'])
                box = cm.__enter__()
                spy = SpyCassette(box.cassette)
                rec0 = TapeRecorder(spy)
                rec0._random = SpyRandom(5)
                rec0.enable_recording()
                give_past(rec0, spy, idx, ctx)
                res = fr.execute(prog, faults, recorder=rec0, spy=spy, box=box, **{k: v for k, v in cfg.items() if k != 'kind'})
                res.box_cm = cm
                ctx.count('runs_on_a_recorder_with_a_past')
            else:
                res = fr.execute(prog, faults, **cfg)
            try:
                w = {'gen_seed': prog['gen_seed'], 'program': describe(prog), 'faults': fr.faults_json(faults), 'config': cfg}
                triggered = fr.fault_summary(res)
                ctx.case({'p': prog['gen_seed'], 'f': fr.faults_json(faults), 'c': cfg}, nontrivial=bool(triggered) or not faults)
                for k in triggered:
                    ctx.count('fault_' + k)
                ctx.count('calls_compared', compare_with_twin(ctx, res, w))
                ctx.count('runs_single_fault' if len(faults) == 1 else ('runs_fault_pair' if faults else 'runs_fault_free'))
                if 'disable' in faults.values():
                    # from the kill switch on the decorators are pure pass-through: the framework no longer calls the service's data
                    # handlers for calls made afterwards on the same thread
                    evs = res.live.journal.events
                    off = [i for i, e in enumerate(evs) if e['ev'] == 'recording_disabled']
                    if off:
                        ctx.count('runs_switched_off_in_flight_inspected')
                        late = [e for e in evs[off[0] + 1:] if e['ev'] == 'handler' and e.get('thread', 'main') == evs[off[0]].get('thread', 'main')]
                        if late:
                            ctx.violation('after recording was switched off in mid-operation the framework still ran the service\'s data handler (%s of %s): '
                                          'the decorators are not pure pass-through' % (late[0].get('what'), late[0].get('decl')), w)
                if 'disable' in faults.values() or idx % 7 == 0:
                    # the recorder lives on: recording is switched on again and the service is invoked once more
                    res2 = fr.execute(prog, {}, recorder=res.recorder, spy=res.spy, box=res.box)
                    ctx.count('calls_compared', compare_with_twin(ctx, res2, dict(w, second_invocation_after=fr.faults_json(faults))))
                    ctx.count('second_invocations_on_the_same_recorder')
            finally:
                fr.close(res)
        # recording disabled: pure pass-through, the cassette must see nothing
        if ctx.mine(pi):
            for fi, faults in enumerate(pls[:6]):
                res = fr.execute(prog, fr.service_faults(faults), enabled=False, verbose=fi % 3 == 2)
                try:
                    w = {'gen_seed': prog['gen_seed'], 'program': describe(prog), 'faults': fr.faults_json(faults), 'config': 'recording disabled'}
                    ctx.case({'p': prog['gen_seed'], 'f': fr.faults_json(faults), 'c': 'disabled'})
                    compare_with_twin(ctx, res, w)
                    ctx.count('runs_recording_disabled')
                    if res.spy.log:
                        ctx.violation('cassette touched although recording is disabled', dict(w, calls=[e[0] for e in res.spy.log]))
                finally:
                    fr.close(res)
    ctx.sample({'program': describe(progs[0]), 'placements': [fr.faults_json(f) for f in fr.all_placements(progs[0], pairs=False)[:8]]})


def disabled_passthrough_part(ctx):
    """Recording disabled (never enabled / switched off again): every decorator is a pure pass-through, whatever the shape of the
    decorated callable and of the call - plain functions called with keywords only or without arguments, self / cls passed by
    keyword, instances of a class that cannot be hashed (its metaclass defines __eq__)."""
    from playback.tape_recorder import TapeRecorder
    from playback.tape_cassettes.in_memory.in_memory_tape_cassette import InMemoryTapeCassette
    from vlib.spies import SpyCassette
    from vlib.values import UserError

    class EqMeta(type):
        def __eq__(cls, other):
            return getattr(other, '__name__', None) == cls.__name__
        # (defining __eq__ without __hash__ makes the classes of this metaclass unhashable)

    def build(rec):
        ident = (lambda: (lambda f: f))
        op = rec.operation if rec else ident
        cop = rec.class_operation if rec else ident
        inp = (lambda alias: rec.intercept_input(alias)) if rec else (lambda alias: (lambda f: f))
        sinp = (lambda alias: rec.static_intercept_input(alias)) if rec else (lambda alias: (lambda f: f))
        outp = (lambda alias: rec.intercept_output(alias)) if rec else (lambda alias: (lambda f: f))
        soutp = (lambda alias: rec.static_intercept_output(alias)) if rec else (lambda alias: (lambda f: f))

        @op()
        def send_report(customer='nobody', period='day'):
            if customer == 'bad':
                raise UserError('no such customer')
            return ('report', customer, period)

        @sinp('dp.rate')
        def rate(currency='eur'):
            return {'rate': len(currency)}

        @soutp('dp.emit')
        def emit(what='nothing'):
            return ('emitted', what)

        class Importer(object):
            @op()
            def run(self, source='default', dry_run=False):
                return ('ran', source, dry_run, self.load(key=source), self.store(row=1))

            @inp('dp.load')
            def load(self, key=None):
                return ['loaded', key]

            @outp('dp.store')
            def store(self, row=None):
                return ('stored', row)

        def rebuild(cls, index='main'):
            return ('rebuilt', cls.__name__, index)
        Importer.rebuild_func = staticmethod(cop()(rebuild))
        Importer.rebuild = classmethod(cop()(rebuild))

        class Model(EqMeta('ModelBase', (object,), {})):
            @op()
            def refresh(self, deep=False):
                return ('refreshed', deep, rate(currency='usd'), emit('x'))
        imp, model = Importer(), Model()
        return [('function, no arguments', lambda: send_report()),
                ('function, keywords only', lambda: send_report(customer='acme', period='month')),
                ('function, keywords only, raises', lambda: send_report(customer='bad')),
                ('function, positional', lambda: send_report('acme')),
                ('method, keywords', lambda: imp.run(source='s3://in', dry_run=True)),
                ('method, self by keyword', lambda: Importer.run(self=imp, source='s3://in')),
                ('class operation', lambda: Importer.rebuild(index='aux')),
                ('class operation, cls by keyword', lambda: Importer.rebuild_func(cls=Importer, index='aux')),
                ('instance of an unhashable class', lambda: model.refresh(True)),
                ('static input, keywords only', lambda: rate(currency='usd')),
                ('static input, no arguments', lambda: rate()),
                ('static output, no arguments', lambda: emit()),
                ('input, self by keyword', lambda: Importer.load(self=imp, key='k')),
                ('output, self by keyword', lambda: Importer.store(self=imp, row=3))]

    def outcome(fn):
        try:
            return ('returned', fn())
        except BaseException as ex:  # noqa
            return ('raised', type(ex).__name__)
    expected = [(n, outcome(f)) for n, f in build(None)]
    for state in ('never enabled', 'enabled and disabled again'):
        spy = SpyCassette(InMemoryTapeCassette())
        rec = TapeRecorder(spy)
        if state != 'never enabled':
            rec.enable_recording()
            rec.disable_recording()
        for (name, fn), (_, exp) in zip(build(rec), expected):
            got = outcome(fn)
            ctx.case(('disabled-shape', state, name))
            ctx.count('disabled_call_shapes_compared')
            if got != exp:
                ctx.violation('recording disabled, yet the decorated callable behaves differently from the undecorated one',
                              {'disabled_shapes': True, 'state': state, 'call': name, 'decorated': repr(got)[:200], 'undecorated': repr(exp)[:200]})
        if spy.log:
            ctx.violation('cassette touched although recording is disabled', {'disabled_shapes': True, 'state': state, 'calls': [e[0] for e in spy.log][:5]})


def interrupt_while_the_framework_works(ctx):
    """An interrupt-style exception (Ctrl-C, a watchdog derived from BaseException) arrives while the framework does its own work on the
    service's thread - here: while it encodes the finished recording for the cassette. It is the service's interrupt: it reaches the
    caller, it is never swallowed (the undecorated run has no such work, so the oracle is stated directly)."""
    from playback.tape_recorder import TapeRecorder
    from vlib.cassettes import open_box
    from vlib.values import InterruptLike

    class ArrivesDuringEncoding(object):
        """Stands for the signal: the first time the serializer asks for this object's state, the interrupt is raised."""
        fired = 0

        def __getstate__(self):
            type(self).fired += 1
            raise InterruptLike('interrupt delivered while the recording is being encoded')
    for kind in ('memory', 'file', 's3'):
        for via in ('output', 'record_data'):
            with open_box(kind) as box:
                rec = TapeRecorder(box.cassette)
                rec.enable_recording()
                ArrivesDuringEncoding.fired = 0

                class Report(object):
                    @rec.intercept_output('report.publish')
                    def publish(self, what):
                        return 'published'

                    @rec.operation()
                    def run(self):
                        if via == 'output':
                            self.publish(ArrivesDuringEncoding())
                        else:
                            rec.record_data('attachment', ArrivesDuringEncoding())
                        return 'report done'
                try:
                    outcome = ('returned', Report().run())
                except BaseException as ex:  # noqa
                    outcome = ('raised', type(ex).__name__)
                w = {'interrupt_during_encoding': True, 'cassette': kind, 'via': via}
                ctx.case(w)
                ctx.count('interrupts_delivered_while_the_framework_encodes', ArrivesDuringEncoding.fired)
                if ArrivesDuringEncoding.fired and outcome != ('raised', 'InterruptLike'):
                    ctx.violation('an interrupt-style exception raised while the framework was working on the service\'s thread did not reach the caller: %r' % (outcome,), w)


def callable_objects_part(ctx):
    """The decorated callable is not a function: a functools.partial, an instance with __call__, a builtin (no __name__ / no code object).
    With a working data handler and with one that fails (the recording is discarded), with recording on and off: the service gets
    exactly what the callable returns."""
    import functools
    from playback.tape_recorder import TapeRecorder
    from playback.tape_cassettes.in_memory.in_memory_tape_cassette import InMemoryTapeCassette
    from playback.interception.input_interception import InputInterceptionDataHandler
    from playback.interception.output_interception import OutputInterceptionDataHandler

    class FailingIn(InputInterceptionDataHandler):
        def prepare_input_for_recording(self, interception_key, result, args, kwargs):
            raise RuntimeError('input data handler fails')

        def restore_input_from_recording(self, recorded_data, args, kwargs):
            return recorded_data

    class FailingOut(OutputInterceptionDataHandler):
        def prepare_output_for_recording(self, interception_key, args, kwargs):
            raise RuntimeError('output data handler fails')

        def restore_output_from_recording(self, recorded_data):
            return recorded_data

    def send(prefix, message):
        return (prefix, 'sent', message)

    class Sender(object):
        def __call__(self, message):
            return ('instance', 'sent', message)
    for enabled in (True, False):
        for handler_fails in (False, True):
            for shape in ('partial', 'callable_instance', 'builtin'):
                rec = TapeRecorder(InMemoryTapeCassette())
                if enabled:
                    rec.enable_recording()
                raw = {'partial': functools.partial(send, 'partial'), 'callable_instance': Sender(), 'builtin': len}[shape]
                kw_out = {'data_handler': FailingOut()} if handler_fails else {}
                kw_in = {'data_handler': FailingIn()} if handler_fails else {}
                out_fn = rec.static_intercept_output('co.out', **kw_out)(raw)
                in_fn = rec.static_intercept_input('co.in', **kw_in)(raw)

                class Svc(object):
                    @rec.operation()
                    def run(self):
                        return [out_fn('m1'), in_fn('m2'), out_fn('m3')]
                try:
                    got = ('returned', Svc().run())
                except BaseException as ex:  # noqa
                    got = ('raised', type(ex).__name__, str(ex)[:80])
                exp = ('returned', [raw('m1'), raw('m2'), raw('m3')])
                w = {'callable_objects': True, 'shape': shape, 'handler_fails': handler_fails, 'recording_enabled': enabled}
                ctx.case(w)
                ctx.count('calls_through_decorated_callable_objects', 3)
                if got != exp:
                    ctx.violation('an interception decorated onto a callable object behaves differently from the callable itself', dict(w, decorated=repr(got)[:200], plain=repr(exp)[:200]))


def import_side_effects(ctx):
    """Importing the library (every module of it) is transparent too: process-wide settings of the interpreter and of the third-party
    serializer the service may use itself are the same before and after. Asked of a fresh interpreter."""
    import json
    import os
    import subprocess
    import sys
    script = os.path.join(env.VERIF, 'vlib', 'import_probe.py')
    try:
        p = subprocess.run([sys.executable, script], stdout=subprocess.PIPE, stderr=subprocess.PIPE, text=True, timeout=300,
                           env=dict(os.environ, VERIF_REPO=env.REPO, PYTHONHASHSEED='0'))
        res = json.loads([l for l in p.stdout.splitlines() if l.startswith('IMPORT ')][-1][7:])
    except Exception as ex:
        ctx.inconclusive('import side effect probe failed: %r' % (ex,))
        return
    ctx.case(('import_side_effects', res['imported']))
    ctx.count('library_modules_imported_in_a_fresh_interpreter', res['imported'])
    if res['changed']:
        ctx.violation('importing the library changed process-wide state: %s' % ', '.join(res['changed'])[:150], {'import_side_effects': True})
    if res['serializer_changed']:
        ctx.violation('importing the library changed process-wide options of the serializer the service shares with it (jsonpickle)',
                      {'import_side_effects': True, 'before': res['before'], 'after': res['after']})


def skipped_helper_operations(ctx):
    """A recorded operation whose body calls ANOTHER decorated operation of a class that is excluded from recording (skipped=True):
    the helper is pure pass-through wherever it is called from - the twin decides what it returns / raises and how often it runs."""
    import random as _r
    progs = fr.base_programs(ctx.seed + 911, 6 if ctx.quick else 40)
    for pi, prog in enumerate(progs):
        raises = pi % 3 == 2
        prog['inner_prog'] = {'seed_world': 7, 'class_level': pi % 2 == 1, 'extractor': None, 'params': {'skipped': True},
                              'inputs': [], 'outputs': [], 'opts': {'raise_rate': 0.0}, 'uid': prog.get('uid', 0) + 900000,
                              'body': [{'op': 'raise', 'exc': 'KeyError'}] if raises else [{'op': 'return', 'expr': {'lit': 'helper-result-%d' % pi}}]}
        body = prog['body']
        last = len(body) - (1 if body and body[-1]['op'] in ('return', 'raise') else 0)
        for _ in range(1 + pi % 2):
            body.insert(_r.Random(pi).randrange(last + 1), {'op': 'inner_op'})
        for ci, cfg in enumerate([{}, {'kind': 'file'}, {'rate': 0.5}, {'enabled': False}]):
            res = fr.execute(prog, {}, **cfg)
            try:
                w = {'skipped_helpers': True, 'gen_seed': prog['gen_seed'], 'program': describe(prog), 'config': cfg}
                ctx.case({'skipped_helper': pi, 'c': ci})
                ctx.count('calls_compared', compare_with_twin(ctx, res, w))
                d = [e['outcome'] for e in res.live.journal.events if e['ev'] == 'inner_op']
                t = [e['outcome'] for e in res.twin.journal.events if e['ev'] == 'inner_op']
                ctx.count('skipped_helper_operations_called_inside_recorded_ones', len(d))
                if d != t:
                    ctx.violation('an operation of a class excluded from recording, called inside a recorded operation, ended differently from the twin: %r vs %r' % (d, t), w)
                db = [e for e in res.live.journal.events if e['ev'] == 'op_body']
                tb = [e for e in res.twin.journal.events if e['ev'] == 'op_body']
                if len(db) != len(tb):
                    ctx.violation('operation bodies executed %d times, in the twin %d times' % (len(db), len(tb)), w)
            finally:
                fr.close(res)


def storage_location_lost(ctx):
    """File cassette whose directory is lost AFTER the cassette was built (the volume went away, a cleaner replaced the directory by a
    file, a dangling link, only the directory removed): recordings cannot be stored any more, the recorded service must not notice."""
    import os
    import shutil
    import tempfile
    from playback.tape_recorder import TapeRecorder
    from playback.tape_cassettes.file_based.file_based_tape_cassette import FileBasedTapeCassette
    from vlib.spies import SpyCassette, SpyRandom
    progs = fr.base_programs(ctx.seed + 613, 3 if ctx.quick else 16)
    for pi, prog in enumerate(progs):
        for how in ('parent_removed', 'replaced_by_a_file', 'dangling_link', 'directory_removed', 'lost_between_two_operations'):
            d0 = tempfile.mkdtemp(prefix='vp-lostdir-')
            try:
                d = os.path.join(d0, 'volume', 'recordings')
                os.makedirs(os.path.dirname(d))
                spy = SpyCassette(FileBasedTapeCassette(d))
                rec = TapeRecorder(spy)
                rec._random = SpyRandom(5)
                rec.enable_recording()
                w = {'storage_location_lost': how, 'gen_seed': prog['gen_seed'], 'program': describe(prog)}
                if how == 'lost_between_two_operations':
                    ctx.count('calls_compared', compare_with_twin(ctx, fr.execute(prog, {}, recorder=rec, spy=spy, box=None), w))
                if how in ('parent_removed', 'lost_between_two_operations'):
                    shutil.rmtree(os.path.dirname(d))
                else:
                    shutil.rmtree(d)
                    if how == 'replaced_by_a_file':
                        with open(d, 'w') as f:
                            f.write('not a directory')
                    elif how == 'dangling_link':
                        os.symlink(os.path.join(d0, 'gone'), d)
                for _ in range(2):
                    res = fr.execute(prog, {}, recorder=rec, spy=spy, box=None)
                    ctx.case({'lost_dir': how, 'p': pi})
                    ctx.count('runs_after_the_storage_location_was_lost')
                    ctx.count('calls_compared', compare_with_twin(ctx, res, w))
            finally:
                shutil.rmtree(d0, ignore_errors=True)


def async_dead_flusher(ctx):
    """Asynchronous cassette whose background thread is gone (killed by a storage error that derives from BaseException; the same
    state a worker forked from a pre-fork master is in): recordings are lost, the recorded service must not notice."""
    import threading
    import time
    from playback.tape_recorder import TapeRecorder
    from playback.tape_cassettes.in_memory.in_memory_tape_cassette import InMemoryTapeCassette
    from playback.tape_cassettes.asynchronous.async_record_only_tape_cassette import AsyncRecordOnlyTapeCassette
    from vlib.spies import SpyCassette, SpyRandom
    from vlib.values import InterruptLike

    class TimingOutStorage(InMemoryTapeCassette):
        def _save_recording(self, recording):
            raise InterruptLike('storage client gave up (not an Exception subclass)')
    hook = threading.excepthook
    threading.excepthook = lambda args: None          # the dying flusher's traceback is expected here
    try:
        for prog in fr.base_programs(ctx.seed + 31, 3 if ctx.quick else 25):
            a = AsyncRecordOnlyTapeCassette(TimingOutStorage(), flush_interval=0.002, timeout_on_close=1)
            a.start()
            spy = SpyCassette(a)
            rec = TapeRecorder(spy)
            rec._random = SpyRandom(5)
            rec.enable_recording()
            fr.execute(prog, {}, recorder=rec, spy=spy, box=None)
            t0 = time.time()
            th = getattr(a, '_update_recording_thread', None)
            while th is not None and th.is_alive() and time.time() - t0 < 5:
                time.sleep(0.005)
            if th is None or th.is_alive():
                ctx.count('flusher_not_killed')        # (no such thread / it survived: nothing to observe)
                continue
            res = fr.execute(prog, {}, recorder=rec, spy=spy, box=None)
            w = {'gen_seed': prog['gen_seed'], 'program': describe(prog), 'faults': [], 'config': 'asynchronous cassette whose background thread died'}
            ctx.case({'p': prog['gen_seed'], 'c': 'dead flusher'})
            ctx.count('runs_with_a_dead_flusher')
            ctx.count('calls_compared', compare_with_twin(ctx, res, w))
            try:
                a.close()
            except BaseException:  # noqa
                pass
    finally:
        threading.excepthook = hook


def run(ctx):
    fault_part(ctx)
    if ctx.shard == 0:
        async_dead_flusher(ctx)
        disabled_passthrough_part(ctx)
        interrupt_while_the_framework_works(ctx)
        callable_objects_part(ctx)
        import_side_effects(ctx)
        skipped_helper_operations(ctx)
        storage_location_lost(ctx)
    try:
        from checks import C04_sched
    except ImportError:
        C04_sched = None
    if C04_sched is not None:
        C04_sched.schedule_part(ctx)
    if not ctx.counters.get('calls_compared'):
        ctx.inconclusive('no call was compared with the twin')


def replay(ctx, w):
    if w.get('skipped_helpers'):
        return skipped_helper_operations(ctx)
    if w.get('storage_location_lost'):
        return storage_location_lost(ctx)
    if w.get('callable_objects'):
        return callable_objects_part(ctx)
    if w.get('import_side_effects'):
        return import_side_effects(ctx)
    if w.get('interrupt_during_encoding'):
        return interrupt_while_the_framework_works(ctx)
    if w.get('disabled_shapes'):
        return disabled_passthrough_part(ctx)
    if 'schedule' in w:
        from checks import C04_sched
        return C04_sched.replay(ctx, w)
    prog = fr.base_programs(0, 1)[0]
    import random as _r
    from vlib.programs import gen_program
    o = dict(threads=False, max_steps=5, max_in_decls=3, max_out_decls=2, explicit_raise=0.1, raise_rate=0.1)
    prog = gen_program(_r.Random(w['gen_seed']), **o)
    prog['gen_seed'] = w['gen_seed']
    faults = {tuple(k): v for k, v in w['faults']}
    cfg = w['config'] if isinstance(w['config'], dict) else {'enabled': False}
    res = fr.execute(prog, faults, **cfg)
    try:
        compare_with_twin(ctx, res, w)
    finally:
        fr.close(res)
