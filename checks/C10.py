"""C10 Lookup returns exactly the matching recordings, identically on all cassettes.

Reference-lookup monitor + cross-cassette differential.  The same set of recordings (identified by a token in the
metadata, because ids are minted by each cassette) is saved into memory, file and S3-on-fake cassettes; every
listing is compared with {saved | category equal and ref_match(filter, metadata)}.
"""
import random

from vlib import env
from vlib.refmodels import ref_match, UNSPEC
from vlib.cassettes import open_box
from checks.C14 import gen_filter_value, op

PROPERTY = 'C10'
LEVEL = 'exploration'
RULE = ('seeded random stores of 1-25 recordings over categories Op/OpX/Op_x/Op_x_y/A/Job[v2]/A*/Q?x (prefixes of each other, underscores, shell-pattern metacharacters; the directory name of the file cassette has such characters in every second store) with JSON-native metadata (absent keys, '
        'incomplete flag True/False/absent) saved identically on memory, file, S3 prefix "" / p / pp / svc/metadata / full (segments named like the key parts of the cassette itself); per store ~30 queries '
        '(category x filter x limit in {None,1,2,n-1,n,n+1,1000} x ordered/random) through iter_recording_ids, '
        'iter_recordings_metadata and find_matching_recording_ids. A case = one query on one store; distinct = hash of '
        '(store metadata, category, filter, limit, path); non-trivial = the store holds >=2 categories or the filter is non-empty.')
ASSUMPTIONS = ['limit=0 not judged (in-memory/file read it as "no limit", S3 as zero; undocumented)',
               'metadata is JSON-native so that the S3 content filter (JSON view) and the other cassettes see the same values',
               'reference matcher as in C14; unspecified cases may or may not be listed']

CATS = ['Op', 'OpX', 'Op_x', 'Op_x_y', 'A', 'Job[v2]', 'A*', 'Q?x']
CONFIGS = [('memory', ''), ('file', ''), ('s3', ''), ('s3', 'p'), ('s3', 'pp'), ('s3', 'svc/metadata'), ('s3', 'full'),
           ('s3', 'jobs}{v2}'), ('s3', '${DEPLOY_ENV}/{{x}}/{0}')]      # key prefixes that hold format-string metacharacters
INC = '_tape_recorder_incomplete_recording'


def gen_md(rng, tok):
    md = {'tok': tok}
    for k in ('k', 'j'):
        c = rng.randrange(7)
        if c == 0:
            continue
        md[k] = [None, rng.randrange(4), 'a', 'ab', 2.5, True, [1], {'x': 1}][rng.randrange(8)] if c < 5 else rng.randrange(10)
    c = rng.randrange(3)
    if c == 0:
        md[INC] = True
    elif c == 1:
        md[INC] = False
    return md


def gen_filter(rng):
    r = rng.random()
    if r < 0.25:
        return None
    if r < 0.3:
        return {}
    flt = {}
    for k in rng.sample(['k', 'j', INC], rng.randrange(1, 3)):
        c = rng.random()
        if c < 0.4:
            flt[k] = rng.choice([0, 1, 2, 3, 'a', 'a*', 2.5, True, None, [False, None], [1, 'a*'], op('<', 2), op('>=', 1), op('=', 'a')])
        else:
            flt[k] = gen_filter_value(rng)
    return flt


def run_case(ctx, case_seed):
    from playback.tape_recorder import TapeRecorder
    from playback.studio.recordings_lookup import find_matching_recording_ids, RecordingLookupProperties
    rng = random.Random(case_seed)
    n = rng.choice([1, 2, 3, 5, 8, 13, 25])
    cats_used = rng.sample(CATS, rng.randrange(1, len(CATS) + 1))
    specs = [(rng.choice(cats_used), gen_md(rng, i)) for i in range(n)]
    queries = []
    for _ in range(6):
        cat = rng.choice(CATS)
        flt = gen_filter(rng)
        nm = len([1 for c, m in specs if c == cat])
        for limit in rng.sample([None, None, 1, 2, max(nm - 1, 1), max(nm, 1), nm + 1, 1000], 3):
            queries.append((cat, flt, limit, rng.random() < 0.3, rng.choice(['ids', 'ids', 'metadata', 'lookup', 'lookup_all'])))
    # string filters that are shell patterns WITHOUT '*' or '?' (bracket classes only), from a stream of their own
    qr = random.Random(case_seed * 7 + 3)
    for _ in range(2):
        queries.append((qr.choice(cats_used), {qr.choice(['k', 'j']): qr.choice(['[a]', 'a[b]', '[!b]', 'a[!c]', ['[ab]b', 3], '[a-c]b'])},
                        qr.choice([None, 1, 2]), False, qr.choice(['ids', 'metadata', 'lookup_all'])))
    per_cassette_tokens = {}
    moved_dirs = []
    for kind, prefix in CONFIGS:
        with open_box(kind, prefix=prefix, hostile_dir=(case_seed % 2 == 0)) as box:
            lookup_start = None
            if box.fake is not None and case_seed % 2:
                # a process that has been running for a long time: its clock is past the time its modules were imported; lookups give
                # a start date (as the studio does) and no end
                import datetime as _dt
                box.fake.now = _dt.datetime.utcnow().replace(microsecond=0) + _dt.timedelta(days=300 + case_seed % 50, hours=case_seed % 24)
                lookup_start = box.fake.now - _dt.timedelta(days=2)
                ctx.count('s3_cases_with_a_clock_after_import')
            saved = []
            reader = box.reader()
            hrng = random.Random(case_seed + 77)
            half = len(specs) // 2
            for si, (cat, md) in enumerate(specs):
                rec = box.cassette.create_new_recording(cat)
                foreign_id, foreign_day = hrng.random() < 0.2, hrng.choice(['20260101', '20251231'])     # (drawn for every cassette alike)
                if kind != 's3' and foreign_id:
                    # a recording made elsewhere and copied here under the id it was given there (S3 style '<category>/<day>/<unique>')
                    import uuid
                    from playback.recordings.memory.memory_recording import MemoryRecording as _MR
                    rec = _MR(u'%s/%s/%s' % (cat, foreign_day, uuid.uuid1().hex))
                    ctx.count('recordings_with_foreign_style_ids')
                rec.set_data('x', md['tok'])
                rec.add_metadata(dict(md))
                box.cassette.save_recording(rec)
                saved.append((rec.id, cat, md))
                step_h = hrng.choice([0, 0, 0, 7, 25])        # (drawn for every cassette alike)
                if lookup_start is not None and step_h:
                    # ... and time goes on while it records: the recordings of one store are filed under several utc days
                    box.fake.now = box.fake.now + _dt.timedelta(hours=step_h)
                    ctx.count('s3_clock_steps_between_saves')
                if si == half - 1:
                    # history: listings (with filters) happen between saves, and a recording may be saved again under its id
                    # with other metadata; later listings must reflect the current store
                    for cat2, flt2, limit2, rnd2, path2 in queries[:4]:
                        try:
                            list(reader.iter_recording_ids(cat2, metadata=flt2 or {'k': [1, 'a*']}, limit=limit2))
                        except Exception:
                            pass
                    ctx.count('mid_history_listings', 4)
            if saved and hrng.random() < 0.5:
                from playback.recordings.memory.memory_recording import MemoryRecording
                for _ in range(hrng.randrange(1, 3)):
                    j = hrng.randrange(len(saved))
                    rid, cat, md = saved[j]
                    md2 = gen_md(hrng, md['tok'])
                    again = MemoryRecording(rid)
                    again.set_data('x', md['tok'])
                    again.add_metadata(dict(md2))
                    box.cassette.save_recording(again)
                    saved[j] = (rid, cat, md2)
                    ctx.count('resaves_under_same_id')
            if kind == 'file' and case_seed % 3 == 1 and saved:
                # an operator moved some recording files to another volume and left symbolic links behind
                import os
                import shutil
                import tempfile
                elsewhere = tempfile.mkdtemp(prefix='vp-c10-moved-')
                moved_dirs.append(elsewhere)
                for j, (rid, _, _) in enumerate(saved):
                    if j % 2 == 0:
                        pth = box.cassette._get_recording_file_path(rid)
                        if os.path.isfile(pth) and not os.path.islink(pth):
                            dst = os.path.join(elsewhere, '%d.json' % j)
                            shutil.move(pth, dst)
                            os.symlink(dst, pth)
                            ctx.count('recording_files_replaced_by_symlinks')
            tok_of = {rid: md['tok'] for rid, _, md in saved}
            for qi, (cat, flt, limit, rnd, path) in enumerate(queries):
                desc = {'store': [(c, m) for c, m in specs], 'cassette': kind + ':' + prefix, 'category': cat,
                        'filter': flt, 'limit': limit, 'random': rnd, 'path': path}
                ctx.case(desc, nontrivial=len(cats_used) > 1 or bool(flt))
                w = {'case_seed': case_seed, 'cassette': kind, 'prefix': prefix, 'query': desc}
                eff = flt
                random.seed(case_seed + qi)
                try:
                    if path == 'ids':
                        got = list(reader.iter_recording_ids(cat, metadata=flt, limit=limit, random_results=rnd))
                    elif path == 'metadata':
                        mds = list(reader.iter_recordings_metadata(cat, metadata=flt, limit=limit))
                        got = None
                    else:
                        skip = path == 'lookup'
                        props = RecordingLookupProperties(lookup_start, metadata=(dict(flt) if flt is not None else None), limit=limit,
                                                          random_sample=rnd, skip_incomplete=skip)
                        got = list(find_matching_recording_ids(TapeRecorder(reader), cat, props))
                        if skip:
                            eff = dict(flt or {})
                            eff[INC] = [False, None]   # documented meaning: exclude those flagged incomplete, and only those
                except Exception as ex:
                    ctx.violation('listing (%s) on %s cassette (prefix %r) raised %s: %s' % (path, kind, prefix, type(ex).__name__, str(ex)[:120]), w)
                    continue
                ctx.count('listings_' + path)
                verdicts = [(rid, ref_match(eff or {}, md)) for rid, c, md in saved if c == cat]
                must = set(r for r, v in verdicts if v is True)
                may = set(r for r, v in verdicts if v == UNSPEC)
                if got is None:
                    # metadata path: compare tokens
                    toks = [m.get('tok') for m in mds]
                    got = [rid for rid in tok_of if tok_of[rid] in toks]
                    if len(toks) != len(set(toks)) or len(got) != len(toks):
                        ctx.violation('iter_recordings_metadata on %s cassette returned duplicates or foreign metadata' % kind, w)
                        continue
                judge_listing(ctx, reader, got, must, may, limit, kind, w, tok_of)
                if limit is None and not may:
                    per_cassette_tokens.setdefault(qi, {})[kind + ':' + prefix] = sorted(tok_of[r] for r in got if r in tok_of)
            # one RecordingLookupProperties object reused for two lookups: the first lookup is created, the properties are changed
            # for the second one, and only then the first is consumed - each lookup answers for the settings it was made with
            if len(queries) >= 2 and saved:
                prng = random.Random(case_seed + 123)
                qa, qb = prng.sample(queries, 2)
                props = RecordingLookupProperties(lookup_start, metadata=(dict(qa[1]) if qa[1] is not None else None), limit=qa[2], skip_incomplete=True)
                w = {'case_seed': case_seed, 'cassette': kind, 'prefix': prefix, 'shared_lookup_properties': [list(qa[:3]), list(qb[:3])]}
                try:
                    it_a = find_matching_recording_ids(TapeRecorder(reader), qa[0], props)
                    props.metadata = dict(qb[1]) if qb[1] is not None else None
                    props.limit = qb[2]
                    props.skip_incomplete = False
                    it_b = find_matching_recording_ids(TapeRecorder(reader), qb[0], props)
                    got_b, got_a = list(it_b), list(it_a)
                except Exception as ex:
                    ctx.violation('lookups sharing one properties object raised %s on %s cassette' % (type(ex).__name__, kind), w)
                else:
                    ctx.count('lookups_sharing_a_properties_object', 2)
                    eff_a = dict(qa[1] or {})
                    eff_a[INC] = [False, None]
                    for name, got_, c_, f_, lim_ in (('first', got_a, qa[0], eff_a, qa[2]), ('second', got_b, qb[0], qb[1] or {}, qb[2])):
                        verdicts = [(rid, ref_match(f_, md)) for rid, c, md in saved if c == c_]
                        must = set(r for r, v in verdicts if v is True)
                        may = set(r for r, v in verdicts if v == UNSPEC)
                        judge_listing(ctx, reader, got_, must, may, lim_, kind, dict(w, lookup=name), tok_of)
            # two lazily evaluated lookups with different filters in flight on one cassette object, consumed alternately
            if len(queries) >= 2 and saved:
                irng = random.Random(case_seed + 99)
                (cat_a, flt_a), (cat_b, flt_b) = [(q[0], q[1]) for q in irng.sample(queries, 2)]
                w = {'case_seed': case_seed, 'cassette': kind, 'prefix': prefix, 'interleaved': [[cat_a, flt_a], [cat_b, flt_b]]}
                try:
                    gens = [iter(reader.iter_recording_ids(cat_a, metadata=flt_a)), iter(reader.iter_recording_ids(cat_b, metadata=flt_b))]
                    got2 = [[], []]
                    alive = [0, 1]
                    while alive:
                        g = irng.choice(alive)
                        try:
                            got2[g].append(next(gens[g]))
                        except StopIteration:
                            alive.remove(g)
                except Exception as ex:
                    ctx.violation('interleaved listings on %s cassette raised %s' % (kind, type(ex).__name__), w)
                else:
                    ctx.count('interleaved_listings', 2)
                    for g, (c_, f_) in enumerate(((cat_a, flt_a), (cat_b, flt_b))):
                        verdicts = [(rid, ref_match(f_ or {}, md)) for rid, c, md in saved if c == c_]
                        must = set(r for r, v in verdicts if v is True)
                        may = set(r for r, v in verdicts if v == UNSPEC)
                        if not (must <= set(got2[g]) <= (must | may)) or len(got2[g]) != len(set(got2[g])):
                            ctx.violation('a listing consumed while another listing of the same %s cassette was in flight is not exact' % kind, dict(w, listing=g))
    for d_ in moved_dirs:
        import shutil
        shutil.rmtree(d_, ignore_errors=True)
    for qi, by in per_cassette_tokens.items():
        vals = list(by.values())
        ctx.count('cross_cassette_comparisons')
        if any(v != vals[0] for v in vals):
            ctx.violation('cassettes disagree on the same saved set', {'case_seed': case_seed, 'query': queries[qi][:4], 'tokens_by_cassette': by})


def judge_listing(ctx, reader, got, must, may, limit, kind, w, tok_of):
    ctx.count('ids_listed', len(got))
    if len(got) != len(set(got)):
        ctx.violation('listing on %s cassette contains duplicates' % kind, w)
    foreign = [r for r in got if r not in must and r not in may]
    if foreign:
        what = 'other category or filter not satisfied' if all(r in tok_of for r in foreign) else 'unknown id'
        ctx.violation('listing on %s cassette contains an id that should not match (%s)' % (kind, what), dict(w, foreign=foreign[:3]))
    lo, hi = len(must), len(must) + len(may)
    if limit is None:
        if not must <= set(got):
            ctx.violation('listing without limit on %s cassette misses %d matching recording(s)' % (kind, len(must - set(got))), w)
    elif limit > 0:
        if not (min(limit, lo) <= len(got) <= min(limit, hi)):
            ctx.violation('listing with limit %d on %s cassette returned %d ids, %d..%d match' % (limit, kind, len(got), lo, hi), w)
    for rid in got[:5]:
        try:
            rec = reader.get_recording(rid)
            assert rec is not None and rec.id == rid
            ctx.count('listed_ids_fetched')
        except Exception as ex:
            ctx.violation('listed id not fetchable on %s cassette: %s' % (kind, type(ex).__name__), dict(w, id=rid))


def shared_objects_listing(ctx):
    """The metadata extractor reports part of what the operation recorded as data - the SAME object sits in the recording's data and in
    its metadata (stored once, referenced twice by the serializer). Lookups by that value find the recording on every cassette."""
    per = {}
    for kind, prefix in CONFIGS:
        with open_box(kind, prefix=prefix) as box:
            saved = []
            for i in range(6):
                lines = [['sku-%d' % i, i], ['sku-x', 1]]
                order = {'customer': 'c%d' % (i % 2), 'lines': [['sku-%d' % i, i], ['sku-x', 1]]}
                # (each metadata value is shared with the DATA, not with another metadata value: the S3 cassette matches on the stored
                #  JSON form of the metadata document, see C14's assumptions)
                rec = box.cassette.create_new_recording('Orders')
                rec.set_data('input: orders.load args=[], kwargs=[]', {'value': order})
                rec.set_data('output: orders.store #1.output', {'args': [lines], 'kwargs': {}})
                md = {'order': order, 'lines': lines, 'n': i, 'tok': 't%d' % i} if i % 3 else {'order': {'customer': 'c%d' % (i % 2), 'lines': [['sku-%d' % i, i], ['sku-x', 1]]},
                                                                                           'lines': [['sku-%d' % i, i], ['sku-x', 1]], 'n': i, 'tok': 't%d' % i}
                rec.add_metadata(md)
                box.cassette.save_recording(rec)
                saved.append((rec.id, {'order': {'customer': 'c%d' % (i % 2), 'lines': [['sku-%d' % i, i], ['sku-x', 1]]}, 'lines': [['sku-%d' % i, i], ['sku-x', 1]], 'n': i, 'tok': 't%d' % i}))
            reader = box.reader()
            for qi, flt in enumerate([{'order': saved[1][1]['order']}, {'order': saved[3][1]['order']}, {'lines': {'operator': '=', 'value': saved[2][1]['lines']}},
                                      {'order': {'operator': '=', 'value': saved[4][1]['order']}}, {'n': 1}, {'order': {'customer': 'nobody', 'lines': []}}]):
                w = {'shared_objects_listing': True, 'cassette': kind, 'prefix': prefix, 'filter': flt}
                ctx.case(w)
                ctx.count('listings_by_a_value_shared_between_data_and_metadata')
                try:
                    got = list(reader.iter_recording_ids('Orders', metadata=flt))
                except Exception as ex:
                    ctx.violation('listing on %s cassette raised %s' % (kind, type(ex).__name__), dict(w, error=repr(ex)[:120]))
                    continue
                must = set(r for r, m in saved if ref_match(flt, m) is True)
                if set(got) != must or len(got) != len(set(got)):
                    ctx.violation('listing by a value that the recording holds in its data AND its metadata: %d ids on %s cassette, %d match' % (len(got), kind, len(must)), w)
                per.setdefault(qi, {})[kind + ':' + prefix] = sorted(m['tok'] for r, m in saved if r in got)
    for qi, by in per.items():
        vals = list(by.values())
        ctx.count('cross_cassette_comparisons')
        if any(v != vals[0] for v in vals):
            ctx.violation('cassettes disagree on the same saved set', {'shared_objects_listing': True, 'query': qi, 'tokens_by_cassette': by})


def custom_id_scheme(ctx):
    """Cassette subclasses with their own id layout (documented extension points create_new_recording / extract_recording_category):
    '<category>@<deployment>/<unique>' and '<deployment>/<category>/<unique>'. Lookups go by what extract_recording_category says."""
    import uuid
    from playback.tape_cassettes.in_memory.in_memory_tape_cassette import InMemoryTapeCassette
    from playback.tape_cassettes.file_based.file_based_tape_cassette import FileBasedTapeCassette
    from playback.recordings.memory.memory_recording import MemoryRecording
    from playback.tape_recorder import TapeRecorder
    from playback.studio.recordings_lookup import find_matching_recording_ids, RecordingLookupProperties
    import shutil
    import tempfile
    for scheme in ('category@deployment', 'deployment/category'):
        def mixin(base):
            class Custom(base):
                def create_new_recording(self, category):
                    if scheme == 'category@deployment':
                        return MemoryRecording(u'%s@eu-1/%s' % (category, uuid.uuid1().hex))
                    return MemoryRecording(u'eu-1/%s/%s' % (category, uuid.uuid1().hex))

                def extract_recording_category(self, recording_id):
                    return recording_id.split('@')[0] if scheme == 'category@deployment' else recording_id.split('/')[1]
            return Custom
        d = tempfile.mkdtemp(prefix='vp-c10-custom-')
        try:
            # (the file cassette finds candidates by file NAME prefix: only layouts that start with the category can be served by a subclass of it)
            for kind, cas in (('memory', mixin(InMemoryTapeCassette)()),) + ((('file', mixin(FileBasedTapeCassette)(d)),) if scheme == 'category@deployment' else ()):
                saved = []
                for i, cat in enumerate(['Op', 'OpX', 'Op', 'eu-1', 'Op', 'A']):
                    rec = cas.create_new_recording(cat)
                    rec.set_data('x', i)
                    rec.add_metadata({'n': i, TapeRecorder.INCOMPLETE_RECORDING: i == 4})
                    cas.save_recording(rec)
                    saved.append((rec.id, cat, i))
                for cat in ('Op', 'OpX', 'eu-1', 'A', 'Op@eu-1', 'nope'):
                    for path in ('ids', 'lookup'):
                        w = {'custom_id_scheme': scheme, 'cassette': kind, 'category': cat, 'path': path}
                        ctx.case(w)
                        ctx.count('listings_on_cassettes_with_their_own_id_layout')
                        try:
                            if path == 'ids':
                                got = list(cas.iter_recording_ids(cat))
                                must = set(r for r, c, i in saved if c == cat)
                            else:
                                got = list(find_matching_recording_ids(TapeRecorder(cas), cat, RecordingLookupProperties(None)))
                                must = set(r for r, c, i in saved if c == cat and i != 4)
                        except Exception as ex:
                            ctx.violation('listing on a %s cassette with its own id layout raised %s' % (kind, type(ex).__name__), dict(w, error=repr(ex)[:120]))
                            continue
                        if set(got) != must or len(got) != len(set(got)):
                            ctx.violation('listing on a %s cassette subclass with its own id layout: %d ids, %d recordings belong to the category' % (kind, len(got), len(must)), w)
        finally:
            shutil.rmtree(d, ignore_errors=True)


def file_save_faults(ctx, n):
    """History with storage faults on the file cassette: while one recording is saved, moving / renaming files in the directory fails
    (disk full, permission, the process is killed at that point). Whatever the save did, later listings hold only ids of saved
    recordings, each fetchable, without duplicates."""
    import os
    from playback.exceptions import NoSuchRecording
    rng = ctx.rng
    for i in range(n):
        with open_box('file') as box:
            c = box.cassette
            saved, failed = [], []
            for k in range(rng.randrange(2, 7)):
                rec = c.create_new_recording(rng.choice(['Op', 'OpX']))
                rec.add_metadata({'k': k})
                faulty = rng.random() < 0.4
                orig = (os.rename, os.replace)
                if faulty:
                    def boom(*a, **kw):
                        raise OSError(28, 'No space left on device (injected)')
                    os.rename = os.replace = boom
                try:
                    c.save_recording(rec)
                    saved.append(rec.id)
                    if not faulty or rng.random() < 0.5:
                        c.save_recording(_again(rec.id, k))          # saved again under its id (fault-free)
                except OSError:
                    failed.append(rec.id)
                    ctx.count('file_saves_failed_by_a_storage_fault')
                finally:
                    os.rename, os.replace = orig
            if saved and i % 2 == 0:
                # the process is interrupted (Ctrl-C, a kill) while a recording that is already stored is saved again: an interrupt-style
                # exception, not an error the save can clean up after, arrives at the point where a file would be moved into place
                from vlib.values import InterruptLike
                orig = (os.rename, os.replace, os.link)

                def interrupted(*a, **kw):
                    raise InterruptLike('the process is interrupted here (injected)')
                os.rename = os.replace = os.link = interrupted
                try:
                    c.save_recording(_again(saved[i % len(saved)], 99))
                except InterruptLike:
                    ctx.count('file_resaves_interrupted')
                finally:
                    os.rename, os.replace, os.link = orig
                ctx.count('file_resaves_with_an_interrupt_armed')
            ctx.case(('file_save_faults', i, len(saved), len(failed)))
            ctx.count('file_save_fault_histories')
            reader = box.reader()
            for cat in ('Op', 'OpX'):
                try:
                    got = list(reader.iter_recording_ids(cat))
                except Exception as ex:
                    ctx.violation('listing on the file cassette raised %s after a save was hit by a storage fault' % type(ex).__name__, {'file_save_faults': True})
                    continue
                want = sorted(r for r in saved if r.split('/')[0] == cat)
                listed_failed = [r for r in got if r in failed]
                for rid in got:
                    try:
                        reader.get_recording(rid)
                    except NoSuchRecording:
                        ctx.violation('file cassette lists an id that is not fetchable after a save was hit by a storage fault', {'file_save_faults': True, 'id_of_failed_save': rid in failed})
                        break
                if sorted(set(got) - set(failed)) != want or len(got) != len(set(got)):
                    ctx.violation('listing on the file cassette after a storage fault during a save: %d ids, %d saved (duplicates: %s)' % (
                        len(got), len(want), len(got) != len(set(got))), {'file_save_faults': True, 'failed_listed': len(listed_failed)})


def _again(rid, k):
    from playback.recordings.memory.memory_recording import MemoryRecording
    r = MemoryRecording(rid)
    r.add_metadata({'k': k, 'again': True})
    return r


def judge_concurrent(ctx, cassette, ids, kind, w):
    ctx.count('listings_after_concurrent_saves')
    try:
        got = list(cassette.iter_recording_ids('Op'))
        flt = list(cassette.iter_recording_ids('Op', metadata={'who': 0}))
    except Exception as ex:
        ctx.violation('listing after concurrent saves on one %s cassette raised %s' % (kind, type(ex).__name__), dict(w, error=repr(ex)[:200]))
        return
    want = sorted(ids.values())
    if sorted(got) != want:
        ctx.violation('listing after concurrent saves through one %s cassette: %d ids listed, %d recordings were saved (duplicates: %s)' % (
            kind, len(got), len(want), len(got) != len(set(got))), dict(w, unknown=len(set(got) - set(want)), missing=len(set(want) - set(got))))
    elif sorted(flt) != sorted(rid for (i, k), rid in ids.items() if i == 0):
        ctx.violation('filtered listing after concurrent saves through one %s cassette is not exact' % kind, w)


def run(ctx):
    if ctx.shard == 0:
        from vlib import concsaves
        for kind, nt, per in (('memory', 2, 2), ('file', 2, 1), ('memory', 3, 1)):
            concsaves.explore(ctx, kind, nt, per, judge_concurrent, ctx.quick)
    file_save_faults(ctx, ctx.budget(20, 1000))
    if ctx.shard == 0:
        shared_objects_listing(ctx)
        custom_id_scheme(ctx)
    n = ctx.budget(150, 5000)
    base = ctx.seed * 1000003 + ctx.shard * 100000
    for i in range(n):
        run_case(ctx, base + i)
    rng = random.Random(base)
    ctx.sample({'case_seed': base, 'store': [(rng.choice(CATS), gen_md(rng, i)) for i in range(3)], 'filter': gen_filter(rng),
                'cassettes': CONFIGS})


def replay(ctx, w):
    if w.get('custom_id_scheme'):
        return custom_id_scheme(ctx)
    if w.get('shared_objects_listing'):
        return shared_objects_listing(ctx)
    if w.get('concurrent_saves') or w.get('file_save_faults'):
        print('scheduler / fault-history witness: re-run the check (the exploration is deterministic)')
        return
    run_case(ctx, w['case_seed'])
