"""C15 S3 cassette writes are confined: read-only, own prefix, complete-before-visible.

Monitors: (1) attributed mutation log of the fake bucket behind the real S3BasicFacade; (2) invariant at a hook:
after EVERY put performed by a save, a fresh read-only cassette checks "discoverable => completely fetchable";
(3) crash injection before each individual bucket mutation of a save, invariant re-checked afterwards.
"""
import random

from vlib import env
from vlib.fakes3 import FakeS3, InjectedCrash, ClientError

REJECT_CODES = ['SlowDown', 'ServiceUnavailable', 'InternalError', 'RequestLimitExceeded', 'Throttling', '503', 'RequestTimeout']

PROPERTY = 'C15'
LEVEL = 'fault_enumeration'
RULE = ('seeded random call sequences (create, set, save, get, metadata, list, close, with-exit) of 12-40 steps over 2-4 cassettes '
        'sharing one bucket, each with random read_only x transient x key prefix in "", a, ab, a/b (+ optional sampling calculator), '
        'foreign objects next to and between the prefixes; for every save in every sequence additionally one run per crash point '
        '(crash before its 1st / 2nd bucket mutation). A case = one executed sequence (or crash variant); distinct = hash of '
        '(cassette configs, step list, crash point); non-trivial = at least one save reached the bucket.')
ASSUMPTIONS = ['a key prefix literally named "full" or "metadata" together with an empty-prefix cassette is not generated (same namespace by construction)',
               'clean-up performed by a transient close is not required to keep discoverable recordings fetchable (excluded by the property)',
               'fake bucket = the six boto3 calls the facade uses']

PREFIXES = ['', 'a', 'ab', 'a/b', 'nightly builds', u'caf\u00e9', 'r&d+x', 'imports/metadata']
ROOT = 'tape_recorder_recordings/'
CATS = ['Op', 'OpX', '/orders', '', 'a/b', 'FetchMetadata']      # a request path, the empty name and a nested name are legal categories too


ARCHIVE_ROOT = 'archive/'
_archive = []


def archive_cls():
    """A user's subclass that files its recordings under another root by overriding the public key templates."""
    if not _archive:
        from playback.tape_cassettes.s3.s3_tape_cassette import S3TapeCassette

        class ArchiveCassette(S3TapeCassette):
            FULL_KEY = ARCHIVE_ROOT + '{key_prefix}full/{id}'
            METADATA_KEY = ARCHIVE_ROOT + '{key_prefix}metadata/{id}'
        _archive.append(ArchiveCassette)
    return _archive[0]


def own_namespaces(prefix, layout=None):
    kp = (prefix + '/') if prefix else ''
    root = ARCHIVE_ROOT if layout == 'archive' else ROOT
    return (root + kp + 'full/', root + kp + 'metadata/')


def in_ns(key, prefix, layout=None):
    return any(key.startswith(ns) for ns in own_namespaces(prefix, layout))


class Case(object):
    def __init__(self, ctx, seed, crash=None):
        self.ctx, self.seed, self.crash = ctx, seed, crash
        self.rng = random.Random(seed)
        self.saves_seen = 0
        self.witness = {'case_seed': seed, 'crash': crash}
        self.steps_log = []

    def gen(self):
        rng = self.rng
        self.configs = []
        for i in range(rng.randrange(2, 5)):
            self.configs.append({'tag': 'c%d' % i, 'prefix': rng.choice(PREFIXES), 'read_only': rng.random() < 0.4,
                                 'transient': rng.random() < 0.5, 'sampler': rng.choice([None, None, None, 0.0, 0.5, 1.0]),
                                 'layout': 'archive' if rng.random() < 0.15 else None})
        if not any(not c['read_only'] for c in self.configs):
            self.configs[0]['read_only'] = False
        steps = []
        for _ in range(rng.randrange(12, 41)):
            c = rng.randrange(len(self.configs))
            op = rng.choices(['create', 'save', 'get', 'meta', 'list', 'close', 'exit', 'save_foreign_rec', 'toggle_read_only', 'toggle_transient', 'use_copy', 'resave', 'save_again'],
                             [6, 8, 3, 2, 3, 1, 1, 1, 0.5, 0.4, 0.5, 2.5, 2.5])[0]
            steps.append((op, c, rng.randrange(1000)))
        self.steps = steps
        self.witness['configs'] = self.configs
        self.witness['steps'] = steps

    # ---- invariant at the hook ------------------------------------------------------------------
    def invariant(self, fake, where):
        """discoverable => fetchable, asked by fresh read-only cassettes for every prefix."""
        for prefix, layout in [(p, None) for p in PREFIXES] + [(p, 'archive') for p in PREFIXES if any(c.get('layout') for c in self.configs)]:
            rd = fake.cassette('inv', key_prefix=prefix, read_only=True, cls=archive_cls() if layout else None)
            for cat in CATS:
                try:
                    ids = list(rd.iter_recording_ids(cat))
                except Exception as ex:
                    self.ctx.violation('listing failed at an intermediate point (%s): %s' % (where, type(ex).__name__),
                                       dict(self.witness, at=where, error=repr(ex)[:200]))
                    continue
                for rid in ids:
                    self.ctx.count('invariant_discovered_ids')
                    try:
                        rec = rd.get_recording(rid)
                        md = rd.get_recording_metadata(rid)
                        assert rec is not None and rec.id == rid and isinstance(md, dict)
                    except Exception as ex:
                        self.ctx.violation('a discoverable recording is not completely fetchable (%s): %s' % (where, type(ex).__name__),
                                           dict(self.witness, at=where, id=rid, prefix=prefix))
        self.ctx.count('invariant_evaluations')

    def after_crash_reads(self, fake, crashed_id):
        """Other processes keep reading the bucket the crashed save left behind (possibly a full object without its metadata
        object): read-only cassettes must still never write, whatever they are asked by id."""
        from playback.exceptions import NoSuchRecording
        for prefix in PREFIXES:
            n0 = len(fake.log)
            before = fake.snapshot()
            ro = fake.cassette('ro-after-crash', key_prefix=prefix, read_only=True)
            for call in (ro.get_recording_metadata, ro.get_recording):
                try:
                    call(crashed_id)
                except NoSuchRecording:
                    pass
                except Exception as ex:
                    self.ctx.count('after_crash_read_errors_' + type(ex).__name__)
            try:
                list(ro.iter_recording_ids(CATS[0]))
                ro.close()
            except Exception:
                pass
            self.ctx.count('after_crash_read_only_probes')
            if len(fake.log) != n0 or fake.snapshot() != before:
                self.ctx.violation('read-only cassette performed a bucket %s while reading what a crashed save left behind' % (fake.log[n0][1] if len(fake.log) > n0 else 'change'),
                                   dict(self.witness, prefix=prefix, id=crashed_id, mutations=[m[1:] for m in fake.log[n0:]][:3]))

    def run(self):
        ctx, rng = self.ctx, self.rng
        self.gen()
        fake = FakeS3()
        with fake.installed():
            # foreign objects next to and between the prefixes
            foreign = ['other/file', 'tape_recorder_recordings_x/full/Op/1', ROOT + 'abc/full/Op/20240310/ff',
                       ROOT + 'abc/metadata/Op/20240310/ff', ROOT + 'a/zzz', ROOT + 'zz', 'tape_recorder_recording', ROOT + 'a/b/c/full/Op/x']
            for k in foreign:
                fake.put('foreign', 'bkt', k, b'foreign:' + k.encode(), {})
            cass = []
            for cfg in self.configs:
                kw = {}
                if cfg['sampler'] is not None:
                    kw['sampling_calculator'] = (lambda r: (lambda category, size, recording: r))(cfg['sampler'])
                if cfg['read_only'] and (self.seed + len(cass)) % 3 == 0:
                    # read-only by the documented DEFAULT: the argument is left out (whatever else is passed, e.g. transient=True)
                    self.ctx.count('cassettes_read_only_by_default')
                else:
                    kw['read_only'] = cfg['read_only']
                cass.append(fake.cassette(cfg['tag'], key_prefix=cfg['prefix'], transient=cfg['transient'],
                                          cls=archive_cls() if cfg.get('layout') else None, **kw))
            by_tag = {cfg['tag']: cfg for cfg in self.configs}
            log_start = len(fake.log)
            in_save = [None]

            def hook(owner, op, bucket, key):
                if op == 'put' and in_save[0] is not None:
                    self.invariant(fake, 'after put #%d of a save by %s' % (in_save[0], owner))
                    in_save[0] += 1
            fake.on_mutation = hook
            pool = []      # live recordings (cfg index, recording)
            last_saved = {}
            saved_ids = []
            reached_bucket = False
            for si, (op, ci, r) in enumerate(self.steps):
                c, cfg = cass[ci], self.configs[ci]
                before = fake.snapshot()
                nlog = len(fake.log)
                try:
                    if op == 'create':
                        rec = c.create_new_recording(CATS[r % len(CATS)])
                        rec.set_data('k', r)
                        rec.add_metadata({'r': r})
                        pool.append((ci, rec))
                    elif op in ('save', 'save_foreign_rec', 'resave', 'save_again'):
                        if op == 'save_again':
                            # the very recording object this cassette saved last is saved once more, unchanged (a retry, an idempotent flush)
                            if ci not in last_saved or cfg['read_only']:
                                continue
                            pi, rec = ci, last_saved[ci]
                            ctx.count('unchanged_resaves')
                        elif op == 'resave':
                            # a recording that is already stored is fetched, completed and saved again under its id
                            mine = [rid for cj, rid in saved_ids if self.configs[cj]['prefix'] == cfg['prefix'] and self.configs[cj].get('layout') == cfg.get('layout')]
                            if not mine or cfg['read_only']:
                                continue
                            try:
                                rec = c.get_recording(mine[r % len(mine)])
                            except Exception:
                                continue
                            rec.add_metadata({'saved_again': r})
                            pi = ci
                            ctx.count('resaves')
                        else:
                            cands = [p for p in pool if (p[0] == ci) == (op == 'save')]
                            if not cands:
                                continue
                            pi, rec = cands[r % len(cands)]
                            pool.remove((pi, rec))
                        self.saves_seen += 1
                        crash_now = self.crash is not None and self.crash[0] == self.saves_seen
                        reject = crash_now and len(self.crash) > 2
                        if reject:
                            # not a crash: the bucket refuses put number m of this save k consecutive times (an error response shaped like
                            # the real client's); the process lives on whatever the save does about it
                            fake.reject_puts = {'at': fake.mutations + self.crash[1], 'times': self.crash[3], 'code': REJECT_CODES[self.crash[3] % len(REJECT_CODES)]}
                        elif crash_now:
                            fake.crash_at = fake.mutations + self.crash[1]
                        in_save[0] = 0
                        try:
                            try:
                                c.save_recording(rec)
                            except ClientError:
                                ctx.count('saves_that_passed_on_a_refused_put')
                                self.invariant(fake, 'after a save that raised because put %d was refused %d times' % (self.crash[1], self.crash[3]))
                                continue
                            finally:
                                if reject:
                                    if fake.reject_puts.get('rejected'):
                                        ctx.count('puts_refused', fake.reject_puts['rejected'])
                                    fake.reject_puts = None
                            if reject:
                                self.invariant(fake, 'after a save during which put %d was refused %d times' % (self.crash[1], self.crash[3]))
                            last_saved[ci] = rec
                            if len(fake.log) > nlog:
                                saved_ids.append((ci, rec.id))
                                reached_bucket = True
                        except InjectedCrash:
                            ctx.count('crashes_injected')
                            fake.crash_at = None
                            in_save[0] = None
                            self.invariant(fake, 'after crash before mutation %d of save %d' % (self.crash[1], self.crash[0]))
                            self.after_crash_reads(fake, rec.id)
                            break     # the process died; the bucket is what it is
                        finally:
                            in_save[0] = None
                            fake.crash_at = None
                    elif op == 'get' and saved_ids:
                        c.get_recording(saved_ids[r % len(saved_ids)][1])
                    elif op == 'meta' and saved_ids:
                        c.get_recording_metadata(saved_ids[r % len(saved_ids)][1])
                    elif op == 'list':
                        list(c.iter_recording_ids(CATS[r % len(CATS)], limit=[None, 1, 3][r % 3]))
                    elif op == 'toggle_read_only':
                        # the public attributes of a long-lived cassette are changed after construction ("freeze" a writer, open a reader for writing)
                        c.read_only = not c.read_only
                        cfg['read_only'] = c.read_only
                        ctx.count('attribute_toggles')
                    elif op == 'toggle_transient':
                        c.transient = not c.transient
                        cfg['transient'] = c.transient
                        ctx.count('attribute_toggles')
                    elif op == 'use_copy':
                        # the cassette object is (shallow) copied, e.g. together with an object that holds it; the copy is used from now on
                        import copy as _copy
                        with fake.owner(cfg['tag']):      # (a copy that builds its own storage client is still this cassette's)
                            cass[ci] = c = _copy.copy(c)
                        ctx.count('cassette_copies')
                    elif op == 'close':
                        c.close()
                    elif op == 'exit':
                        if r % 2:
                            # the with block is left by an exception (a failing assertion, a service error, an interrupt)
                            exc = (KeyError, ZeroDivisionError, KeyboardInterrupt)[r % 3]
                            try:
                                with c:
                                    raise exc('the block fails')
                            except exc:
                                ctx.count('context_manager_exits_by_exception')
                        else:
                            with c:
                                pass
                except AssertionError:
                    ctx.count('write_refused_read_only')
                except Exception as ex:
                    from playback.exceptions import NoSuchRecording
                    if not isinstance(ex, NoSuchRecording):
                        ctx.violation('cassette call %s raised %s' % (op, type(ex).__name__), dict(self.witness, step=si, error=repr(ex)[:200]))
                # ---- judge the mutations of this step --------------------------------------------
                muts = fake.log[nlog:]
                ctx.count('steps')
                ctx.count('bucket_mutations_observed', len(muts))
                for owner, mop, bucket, key in muts:
                    ocfg = by_tag.get(owner)
                    if ocfg is None:
                        ctx.violation('mutation by unknown owner %r' % owner, dict(self.witness, step=si))
                        continue
                    if ocfg['read_only']:
                        ctx.violation('read-only cassette performed a bucket %s' % mop, dict(self.witness, step=si, op=op, key=key))
                    if not in_ns(key, ocfg['prefix'], ocfg.get('layout')):
                        ctx.violation('writable cassette (prefix %r) touched a key outside its own prefix (%s)' % (ocfg['prefix'], mop),
                                      dict(self.witness, step=si, op=op, key=key))
                    if mop == 'delete' and not (op in ('close', 'exit') and ocfg['transient']):
                        ctx.violation('delete outside a transient close', dict(self.witness, step=si, op=op, key=key))
                after = fake.snapshot()
                if op in ('close', 'exit'):
                    ctx.count('closes')
                    expect_cleanup = cfg['transient'] and not cfg['read_only']
                    for k, v in before.items():
                        if expect_cleanup and in_ns(k, cfg['prefix'], cfg.get('layout')):
                            if k in after:
                                ctx.violation('transient close left one of its own recordings behind', dict(self.witness, step=si, key=k))
                        elif after.get(k) != v:
                            ctx.violation('close (transient=%s, read_only=%s) removed or changed a key that is not its own' % (
                                cfg['transient'], cfg['read_only']), dict(self.witness, step=si, key=k))
                    if expect_cleanup:
                        ctx.count('transient_cleanups')
                elif op in ('get', 'meta', 'list', 'create') and after != before:
                    ctx.violation('a non-writing call (%s) changed the bucket' % op, dict(self.witness, step=si))
            for k in foreign:
                if not any(in_ns(k, cfg['prefix'], cfg.get('layout')) for cfg in self.configs if cfg['transient'] and not cfg['read_only']):
                    if fake.snapshot().get(k) != b'foreign:' + k.encode():
                        ctx.violation('foreign object changed or deleted', dict(self.witness, key=k))
            ctx.count('foreign_objects_checked', len(foreign))
            self.reached_bucket = reached_bucket
        return self.saves_seen


def run_case(ctx, seed, with_crashes=True):
    c = Case(ctx, seed)
    nsaves = c.run()
    ctx.case({'seed': seed, 'configs': c.configs, 'steps': c.steps, 'crash': None}, nontrivial=c.reached_bucket)
    if with_crashes:
        for s in range(1, nsaves + 1):
            for m in (0, 1):
                cc = Case(ctx, seed, crash=(s, m))
                cc.run()
                ctx.case({'seed': seed, 'configs': cc.configs, 'steps': cc.steps, 'crash': (s, m)}, nontrivial=True)
                ctx.count('crash_variants')
        # one save of the sequence meets a bucket that refuses one of its puts 1..6 consecutive times
        s = 1 + seed % max(nsaves, 1)
        for m in (0, 1):
            for k in ((1, 3, 6) if ctx.quick else (1, 2, 3, 4, 5, 6)):
                cc = Case(ctx, seed, crash=(s, m, 'reject', k))
                cc.run()
                ctx.case({'seed': seed, 'configs': cc.configs, 'steps': cc.steps, 'crash': (s, m, 'reject', k)}, nontrivial=True)
                ctx.count('refused_put_variants')
    return c


def concurrent_saves(ctx):
    """Several threads save their own recordings through ONE writable cassette (a cassette object is shared by everything that
    records in a process). Explored with the deterministic scheduler at source-line granularity of the S3 modules: afterwards every
    recording must be completely fetchable and every bucket key must belong to one of the saved recordings."""
    from vlib import sched as S
    import playback.tape_cassettes.s3.s3_basic_facade as fmod
    import playback.tape_cassettes.s3.s3_tape_cassette as cmod
    tg = [fmod.__file__, cmod.__file__]
    for nthreads, prefix in ((2, 'a'), (3, '')):
        holder = {}

        def make(sched, nthreads=nthreads, prefix=prefix, holder=holder):
            fake = FakeS3()
            cm = fake.installed()
            cm.__enter__()
            c = fake.cassette('w', key_prefix=prefix, read_only=False, infrequent_access_kb_threshold=0.001)
            ids = {}
            holder.update(fake=fake, cm=cm, ids=ids)

            def worker(i):
                def fn():
                    rec = c.create_new_recording('Op')
                    rec.set_data('who', 'thread-%d' % i)
                    rec.add_metadata({'who': i})
                    ids[i] = rec.id
                    c.save_recording(rec)
                return fn

            def main():
                ths = [sched.Thread(target=worker(i), name='saver%d' % i) for i in range(nthreads)]
                for t in ths:
                    t.start()
                for t in ths:
                    t.join()
            return main

        def on_run(rec, desc, nthreads=nthreads, prefix=prefix, holder=holder):
            fake, ids = holder['fake'], holder['ids']
            w = {'concurrent_saves': nthreads, 'prefix': prefix, 'schedule': desc if isinstance(desc, tuple) else list(desc)}
            try:
                ctx.case(rec.trace, nontrivial=len(rec.points) > 0)
                ctx.count('concurrent_save_schedules')
                if rec.aborted or rec.error is not None:
                    if rec.aborted and 'deadlock' in rec.aborted:
                        ctx.violation('concurrent saves deadlocked', w)
                    elif rec.error is not None:
                        ctx.violation('concurrent save raised %s' % type(rec.error).__name__, dict(w, error=repr(rec.error)[:200]))
                    return
                rd = fake.cassette('r', key_prefix=prefix, read_only=True)
                listed = set(rd.iter_recording_ids('Op'))
                for i, rid in ids.items():
                    try:
                        got = rd.get_recording(rid)
                        md = rd.get_recording_metadata(rid)
                        ok = got.get_data('who') == 'thread-%d' % i and md == {'who': i} and got.get_metadata() == {'who': i}
                    except Exception as ex:
                        ok = False
                    if not ok or rid not in listed:
                        ctx.violation('recording saved concurrently with another one is not completely / correctly stored', dict(w, thread=i))
                        break
                if len(fake.snapshot()) != 2 * len(ids):
                    ctx.violation('concurrent saves left %d objects for %d recordings' % (len(fake.snapshot()), len(ids)), w)
            finally:
                holder['cm'].__exit__(None, None, None)
        shard = (ctx.shard, ctx.nshards) if ctx.nshards > 1 else None
        runs, complete = S.explore_dfs(make, tg, 1, on_run, max_runs=250 if ctx.quick else 4000, shard=shard)
        ctx.count('concurrent_save_dfs', runs)
        S.explore_random(make, tg, ctx.budget(40, 3000), ctx.rng, on_run)


def wipe_then_resave(ctx):
    """A recorder's cassette P saves R; the prefix is wiped by a second, transient cassette object that is closed (the clean-up idiom
    `with S3TapeCassette(..., transient=True, read_only=False): pass`); P saves the same, unchanged R again. Whatever lookup discovers
    afterwards must be completely fetchable (and R, just saved, must be there)."""
    from playback.exceptions import NoSuchRecording
    for prefix in PREFIXES:
        for between in ('wipe', 'nothing', 'other_save'):
            fake = FakeS3()
            with fake.installed():
                p = fake.cassette('p', key_prefix=prefix, read_only=False)
                r = p.create_new_recording('Op')
                r.set_data('k', 'v')
                r.add_metadata({'m': 1})
                p.save_recording(r)
                if between == 'wipe':
                    with fake.cassette('t', key_prefix=prefix, read_only=False, transient=True):
                        pass
                elif between == 'other_save':
                    o = p.create_new_recording('Op')
                    p.save_recording(o)
                p.save_recording(r)
                ctx.case(('wipe_then_resave', prefix, between))
                ctx.count('wipe_then_resave_histories')
                rd = fake.cassette('r', key_prefix=prefix, read_only=True)
                listed = list(rd.iter_recording_ids('Op'))
                w = {'wipe_then_resave': True, 'prefix': prefix, 'between': between}
                if r.id not in listed:
                    ctx.violation('a recording saved (again) after the prefix was cleaned is not discoverable', w)
                for rid in listed:
                    try:
                        rd.get_recording(rid)
                        rd.get_recording_metadata(rid)
                    except NoSuchRecording:
                        ctx.violation('a discoverable recording is not completely fetchable after an unchanged recording was saved again (%s in between)' % between, w)
                        break


def refused_delete_then_close_again(ctx):
    """The bucket refuses one of the deletes of a transient cassette's close() (the close raises); the close is repeated - explicitly, by a
    with-exit, or by a fresh clean-up cassette on the same prefix. After a close that RETURNED, none of the cassette's own recordings is left
    (neither their full nor their metadata objects), and foreign objects are untouched."""
    for prefix in ('', 'ab', 'a/b'):
        for how in ('same_object', 'with_exit', 'fresh_cleanup_cassette'):
            probe = FakeS3()
            with probe.installed():
                c0 = probe.cassette('t', key_prefix=prefix, read_only=False, transient=True)
                for i in range(3):
                    r = c0.create_new_recording('Op')
                    r.set_data('k', i)
                    c0.save_recording(r)
                n0 = probe.mutations
                c0.close()
                n_deletes = probe.mutations - n0
            for d in range(n_deletes):
                fake = FakeS3()
                with fake.installed():
                    fake.put('foreign', 'bkt', 'other/file', b'foreign', {})
                    c = fake.cassette('t', key_prefix=prefix, read_only=False, transient=True)
                    for i in range(3):
                        r = c.create_new_recording('Op')
                        r.set_data('k', i)
                        c.save_recording(r)
                    fake.reject_deletes = {'at': fake.mutations + d, 'times': 1}
                    w = {'refused_delete': True, 'prefix': prefix, 'delete_number': d, 'repeated_by': how}
                    ctx.case(w)
                    ctx.count('closes_with_a_refused_delete')
                    try:
                        c.close()
                        first_close_raised = False
                    except ClientError:
                        first_close_raised = True
                    fake.reject_deletes = None
                    try:
                        if how == 'same_object':
                            c.close()
                        elif how == 'with_exit':
                            with c:
                                pass
                        else:
                            fake.cassette('t', key_prefix=prefix, read_only=False, transient=True).close()
                    except Exception as ex:
                        ctx.violation('repeating the close of a transient cassette after a refused delete raised %s' % type(ex).__name__, w)
                        continue
                    left = [k for k in fake.snapshot() if k != 'other/file']
                    if left:
                        ctx.violation('a close that returned normally (after an earlier close was refused a delete) left %d of the cassette\'s own objects in the bucket' % len(left),
                                      dict(w, first_close_raised=first_close_raised, left=sorted(left)[:3]))
                    if fake.snapshot().get('other/file') != b'foreign':
                        ctx.violation('foreign object changed or deleted', w)


def second_close_after_others_saved(ctx):
    """A long-lived transient clean-up cassette is closed, saves nothing itself afterwards, another cassette object saves under the same key
    prefix, and the clean-up cassette is closed again (the usual fixture arrangement): every close removes what is under the prefix then."""
    for prefix in ('', 'ab', 'imports/metadata'):
        for how in ('close', 'with_exit'):
            fake = FakeS3()
            with fake.installed():
                fake.put('foreign', 'bkt', 'other/file', b'foreign', {})
                janitor = fake.cassette('janitor', key_prefix=prefix, read_only=False, transient=True)
                service = fake.cassette('service', key_prefix=prefix, read_only=False, transient=False)
                w = {'second_close': True, 'prefix': prefix, 'how': how}
                for rnd in range(3):
                    for i in range(2):
                        r = service.create_new_recording('Op')
                        r.set_data('k', (rnd, i))
                        service.save_recording(r)
                    if rnd == 0:
                        r = janitor.create_new_recording('Op')
                        janitor.save_recording(r)
                    if how == 'close':
                        janitor.close()
                    else:
                        with janitor:
                            pass
                    ctx.case(dict(w, round=rnd))
                    ctx.count('repeated_transient_closes')
                    left = [k for k in fake.snapshot() if k != 'other/file']
                    if left:
                        ctx.violation('close number %d of a transient cassette left %d objects under its prefix (saved by another cassette object since its last close)' % (
                            rnd + 1, len(left)), dict(w, round=rnd, left=sorted(left)[:3]))
                        break
                if fake.snapshot().get('other/file') != b'foreign':
                    ctx.violation('foreign object changed or deleted', w)


def neighbours_by_spelling(ctx):
    """Cassettes of one bucket whose key prefixes differ only by outer slashes ('team', 'team/', '/team', '/'), whose prefixes CONTINUE the
    text of the cassette's own folders ('team/full_2023', 'team/metadata-v2'), and foreign objects named like that ('.../team/full.txt'):
    a transient cassette that is closed removes only what cassettes of exactly its own key prefix saved, and lists only that."""
    group = ['team', 'team/', '/team', 'team//', '/team/', '', '/', 'team/full_2023', 'team/metadata-v2', 'team/nightly', 'tea', 'full', 'metadata']
    foreign = [ROOT + 'team/full.txt', ROOT + 'team/metadata.json', ROOT + 'team/fullest/x', ROOT + 'full.txt', ROOT + 'metadata.json', 'team/full/x',
               ROOT + 'team/full_2023.txt']
    for x in group:
        fake = FakeS3()
        with fake.installed():
            saved = {}
            for prefix in group:
                c = fake.cassette('perm:' + prefix, key_prefix=prefix, read_only=False)
                for i in range(2):
                    r = c.create_new_recording('Op')
                    r.set_data('k', i)
                    r.add_metadata({'m': i})
                    c.save_recording(r)
                    saved.setdefault(prefix, []).append(r.id)
            for k in foreign:
                fake.put('foreign', 'bkt', k, b'foreign', {})
            own_keys = set(m[3] for m in fake.log if m[1] == 'put' and m[0] == 'perm:' + x)
            t = fake.cassette('x', key_prefix=x, read_only=False, transient=True)
            r = t.create_new_recording('Op')
            r.set_data('k', 'mine')
            t.save_recording(r)
            own_keys |= set(m[3] for m in fake.log if m[1] == 'put' and m[0] == 'x')
            w = {'neighbours_by_spelling': True, 'closed_prefix': x}
            ctx.case(w)
            ctx.count('closes_next_to_neighbours_that_differ_by_spelling')
            listed = sorted(t.iter_recording_ids('Op'))
            if listed != sorted(saved[x] + [r.id]):
                ctx.violation('a cassette lists recordings that were saved under another key prefix (or misses its own): %d listed, %d saved under %r' % (
                    len(listed), len(saved[x]) + 1, x), dict(w, listed=listed[:4]))
            before = fake.snapshot()
            t.close()
            after = fake.snapshot()
            # (what lies inside the closed cassette's own folders is its own by the layout: with the empty prefix the folders 'full/' and
            # 'metadata/' of the root also contain every cassette whose key prefix is spelled 'full' or 'metadata')
            lost = sorted(k for k in before if k not in own_keys and not in_ns(k, x) and after.get(k) != before[k])
            if lost:
                ctx.violation('closing a transient cassette with key prefix %r removed / changed %d objects that cassettes of other key prefixes (or '
                              'nobody of the library) had put' % (x, len(lost)), dict(w, lost=lost[:4]))
            left = sorted(k for k in after if k in own_keys)
            if left:
                ctx.violation('closing a transient cassette left %d of its own objects' % len(left), dict(w, left=left[:3]))


def large_recordings(ctx):
    """Recordings of 100 kB .. 65 MB (33 and 129 MB more in the thorough tier): whatever the size, what lookup discovers after the save is
    completely fetchable and holds what was saved."""
    import random as _random
    sizes = [100 * 1024, 5 * 2 ** 20, 9 * 2 ** 20 + 7, 17 * 2 ** 20, 65 * 2 ** 20 + 3] + ([] if ctx.quick else [33 * 2 ** 20 + 1, 129 * 2 ** 20])
    for prefix in ('', 'big/p'):
        fake = FakeS3()
        with fake.installed():
            c = fake.cassette('writer', key_prefix=prefix, read_only=False)
            saved = []
            for n in sizes if prefix == '' else sizes[2:3]:
                text = _random.Random(n).randbytes(n // 2).hex()
                rec = c.create_new_recording('Op')
                rec.set_data('payload', text)
                rec.set_data('tail', ['end', n])
                rec.add_metadata({'size': n})
                c.save_recording(rec)
                saved.append((rec.id, n, text))
            rd = fake.cassette('reader', key_prefix=prefix, read_only=True)
            ids = list(rd.iter_recording_ids('Op'))
            for rid, n, text in saved:
                w = {'large_recordings': True, 'prefix': prefix, 'size': n}
                ctx.case(w)
                ctx.count('large_recordings_saved')
                if rid not in ids:
                    continue             # (not discoverable: nothing is claimed)
                try:
                    got = rd.get_recording(rid)
                    ok = got.get_data('payload') == text and got.get_data('tail') == ['end', n] and rd.get_recording_metadata(rid).get('size') == n
                except Exception as ex:
                    ctx.violation('a discoverable recording of %d characters is not completely fetchable: %s' % (n, type(ex).__name__), dict(w, error=repr(ex)[:200]))
                    continue
                if not ok:
                    ctx.violation('a discoverable recording of %d characters does not hold what was saved' % n, w)


def run(ctx):
    concurrent_saves(ctx)
    if ctx.shard == 0:
        wipe_then_resave(ctx)
        large_recordings(ctx)
        refused_delete_then_close_again(ctx)
        second_close_after_others_saved(ctx)
        neighbours_by_spelling(ctx)
    from playback.tape_cassettes.s3.s3_tape_cassette import S3TapeCassette
    env.anchor(S3TapeCassette, '_save_recording')
    n = ctx.budget(300, 20000)
    base = ctx.seed * 1000003 + ctx.shard * 1000000
    for i in range(n):
        c = run_case(ctx, base + i, with_crashes=(i % 3 == 0) or not ctx.quick)
        if i < 2:
            ctx.sample({'configs': c.configs, 'steps': c.steps[:12]})
    if not ctx.counters.get('invariant_evaluations'):
        ctx.inconclusive('invariant hook never evaluated')


def replay(ctx, w):
    if w.get('neighbours_by_spelling'):
        return neighbours_by_spelling(ctx)
    if w.get('second_close'):
        return second_close_after_others_saved(ctx)
    if w.get('refused_delete'):
        return refused_delete_then_close_again(ctx)
    if w.get('large_recordings'):
        return large_recordings(ctx)
    if w.get('wipe_then_resave'):
        return wipe_then_resave(ctx)
    if w.get('concurrent_saves'):
        return concurrent_saves(ctx)
    cc = Case(ctx, w['case_seed'], crash=tuple(w['crash']) if w.get('crash') else None)
    cc.run()
