"""C03 Captured outputs are exactly what the executing code sent.

Oracle: the expected output map is computed from the client-side journal of output calls alone (alias, per-alias
ordinal from 1, positional args without the instance, kwargs, + the operation entry) and compared with
Playback.recorded_outputs (journal of the live run) and Playback.playback_outputs (journal of the replay of P').
"""
import random

from vlib import env
from vlib.cassettes import open_box
from vlib.programs import (gen_program, Built, World, describe, count_features, playback_function_for, edit_program, clone,
                           expected_outputs)
from vlib.spies import SpyCassette
from vlib.values import recording_in_domain, teq, in_domain

PROPERTY = 'C03'
LEVEL = 'exploration'
RULE = ('seeded random pairs (P, P\'): P from the program generator (instance + static outputs, handlers, up to 11+ calls per alias, threads), '
        'P\' = P or P with 1-2 behavioural edits (changed output argument, dropped/added/swapped/duplicated output call, changed result, raise '
        'instead of return); P recorded (memory/file/S3 cassette), P\' replayed. A case = one pair; distinct = hash of (P description, '
        'edits, cassette); non-trivial = the live run made at least one output call or the edit changed something.')
ASSUMPTIONS = ['exception arguments are not judged: the operation entry for a raised exception is accepted as an instance of the raised type, or as the '
               'documented fallback form {error_type, error_repr} when the serializer (asked directly) refuses that very exception', 'outputs nested inside an intercepted body are not captured by design',
               'replays aborted by a missing input key (edit changed an input argument) are skipped, not judged']

OPKEY = None


def to_map(ctx, outputs, w, which):
    m = {}
    for o in outputs:
        if o.key in m:
            ctx.violation('%s contains two entries with the same key' % which, dict(w, key=o.key))
        m[o.key] = o.value
    return m


def check_map(ctx, got, exp, op, w, which):
    from playback.tape_recorder import TapeRecorder
    opkey = TapeRecorder._output_interception_key(TapeRecorder.OPERATION_OUTPUT_ALIAS, 1) + '.output'
    got = dict(got)
    opv = got.pop(opkey, None)
    ctx.count('entries_checked_' + which, len(exp) + 1)
    if set(got) != set(exp):
        ctx.violation('%s does not have exactly one entry per output call (alias + per-alias ordinal)' % which,
                      dict(w, missing=sorted(set(exp) - set(got))[:5], extra=sorted(set(got) - set(exp))[:5]))
    for k in set(got) & set(exp):
        if not teq(got[k], exp[k]):
            ctx.violation('%s entry does not carry the arguments the code sent' % which, dict(w, key=k, captured=repr(got[k])[:300], sent=repr(exp[k])[:300]))
    # operation entry
    if op is None:
        if opv is not None:
            ctx.violation('%s has an operation entry although the operation produced no result' % which, w)
        return
    if opv is None:
        ctx.violation('%s lacks the entry for the operation return value / exception' % which, w)
        return
    if not (isinstance(opv, dict) and set(opv) == {'args', 'kwargs'} and isinstance(opv['args'], list) and len(opv['args']) == 1 and opv['kwargs'] == {}):
        ctx.violation('%s operation entry has an unexpected shape' % which, dict(w, entry=repr(opv)[:200]))
        return
    v = opv['args'][0]
    if op[0] == 'ret':
        if not teq(v, op[1]):
            ctx.violation('%s operation entry differs from the value the operation returned' % which, dict(w, captured=repr(v)[:300], returned=repr(op[1])[:300]))
    else:
        ok = type(v) is type(op[1]) or (isinstance(v, dict) and v.get('error_type') is type(op[1]))
        if ok and isinstance(v, dict):
            # the fallback form is for exceptions the serializer refuses; asked of the serializer directly, for this very exception
            try:
                from jsonpickle import encode as _enc
                _enc(op[1], unpicklable=True)
                encodable = True
            except Exception:
                encodable = False
            ctx.count('operation_entries_in_fallback_form')
            if encodable:
                ctx.violation('%s operation entry is the fallback form {error_type, error_repr} although the raised exception is encodable: its '
                              'attributes are lost' % which, dict(w, raised=type(op[1]).__name__))
                return
        if not ok:
            ctx.violation('%s operation entry is not the exception the operation raised' % which, dict(w, captured=repr(v)[:200], raised=type(op[1]).__name__))


def diff_maps(a, b):
    keys = set(a) | set(b)
    return set(k for k in keys if (k in a) != (k in b) or not teq(a[k], b[k]))


def run_case(ctx, case_seed):
    from playback.tape_recorder import TapeRecorder
    from playback.exceptions import TapeRecorderException
    rng = random.Random(case_seed)
    kind = ('memory', 'file', 's3')[case_seed % 3]
    prog = gen_program(rng, max_out_decls=3, max_in_decls=2, explicit_raise=0.2)
    if not prog['outputs']:
        prog = gen_program(random.Random(case_seed + 7), max_out_decls=3, max_in_decls=2)
    if rng.random() < 0.25:
        prog['extractor'] = 'ok_calls_output'    # user code running after the operation ended uses an intercepted output as well
    for d in prog['outputs']:
        d['fail_on_no_result'] = False      # so that added output calls can be replayed
        d['default'] = None
    edited = rng.random() < 0.75
    p2, edits = edit_program(prog, rng) if edited else (clone(prog), [])
    desc = {'P': describe(prog), 'edits': edits, 'cassette': kind}
    w = {'case_seed': case_seed, 'pair': desc}
    with open_box(kind) as box:
        spy = SpyCassette(box.cassette)
        rec = TapeRecorder(spy)
        rec.enable_recording()
        past = rng.random() < 0.35
        if past:
            from vlib.history import give_past
            give_past(rec, spy, case_seed + 9000, ctx, like=prog)
            ctx.count('cases_with_recorder_history')
        live = Built(prog, rec, World(prog['seed_world']))
        live.run('live')
        saves = [e for e in spy.log if e[0] == 'save']
        if len(saves) != 1:
            ctx.violation('fault-free program was not saved exactly once', w)
            return
        ro = spy.recordings[saves[0][1]]
        if not (recording_in_domain(ro.recording_data, ro.recording_metadata)):
            ctx.count('recordings_out_of_serializer_domain')
            return
        rec2 = TapeRecorder(box.reader())
        if past:
            rec2 = rec          # replay on the recorder with the past (its cassette holds the recording)
            if rng.random() < 0.5:
                # ... and right after a replay that failed out of play() having made output calls
                pf = clone(p2)
                if pf['inputs']:
                    d0 = pf['inputs'][0]
                    pf['body'] = list(pf['body']) + [{'op': 'in', 'decl': d0['name'], 'args': [{'lit': 'never'}] * d0['nparams'],
                                                      'kwargs': {'extra': {'lit': 'never-recorded'}}, 'var': 'zz'}]
                    if len(pf['body']) >= 2 and pf['body'][-2]['op'] in ('return', 'raise'):
                        pf['body'][-2], pf['body'][-1] = pf['body'][-1], pf['body'][-2]
                    try:
                        rec.play(saves[0][2], playback_function_for(Built(pf, rec, World(1, poison=True), cls_name=live.cls.__name__)))
                    except BaseException:  # noqa
                        ctx.count('failed_replays_before_the_judged_one')
        rep = Built(p2, rec2, World(prog['seed_world'], poison=True), cls_name=live.cls.__name__)
        try:
            pb = rec2.play(saves[0][2], playback_function_for(rep))
        except TapeRecorderException:
            ctx.count('replay_aborted_missing_key')
            return
        except BaseException as ex:  # noqa
            ctx.violation('replay raised %s' % type(ex).__name__, dict(w, error=repr(ex)[:200]))
            return
    exp_live, op_live = expected_outputs(live, live.journal)
    exp_rep, op_rep = expected_outputs(rep, rep.journal)
    ctx.case(desc, nontrivial=bool(exp_live) or bool(edits))
    count_features(prog, ctx)
    for e in edits:
        ctx.count('edit_' + e[0])
    if not edits:
        ctx.count('pairs_unedited')
    rmap = to_map(ctx, pb.recorded_outputs, w, 'recorded_outputs')
    pmap = to_map(ctx, pb.playback_outputs, w, 'playback_outputs')
    check_map(ctx, rmap, exp_live, op_live, w, 'recorded_outputs')
    check_map(ctx, pmap, exp_rep, op_rep, w, 'playback_outputs')
    # "a change appears as a difference at exactly the affected entries and nowhere else"
    from playback.tape_recorder import TapeRecorder as TR
    opkey = TR._output_interception_key(TR.OPERATION_OUTPUT_ALIAS, 1) + '.output'
    d_cap = set(k for k in diff_maps(rmap, pmap) if k != opkey)
    d_jour = diff_maps(exp_live, exp_rep)
    ctx.count('affected_entries', len(d_jour))
    if d_cap != d_jour:
        ctx.violation('difference between recorded and replayed outputs is not exactly at the affected entries',
                      dict(w, captured_diff=sorted(d_cap)[:6], journal_diff=sorted(d_jour)[:6]))


def forwarded_object_case(ctx, seed):
    """An input hands the operation a value (tuple / namedtuple-like pair / list / dict) that holds a custom object; the recorded
    program forwards that object to an output. The replayed program is an edit that modifies the object IN PLACE before sending it.
    The edit must show at that entry of the replay's outputs - and the recorded outputs must still say what was sent at record time."""
    from playback.tape_recorder import TapeRecorder
    from vlib.values import Obj
    rng = random.Random(seed)
    kind = ('memory', 'file', 's3')[seed % 3]
    shape = ('tuple', 'list', 'dict', 'nested_tuple', 'deep_route')[(seed // 3) % 5]

    class ShapeWorld(World):
        def outcome(self, io, name, ralias, captured):
            if self.poison or io != 'in':
                return World.outcome(self, io, name, ralias, captured)
            o = Obj(name='manifest', rows=[1, 2], seed=seed)
            if shape == 'deep_route':
                route = o                    # a route of 110 linked legs (values nested far deeper than a page of JSON usually is)
                for i in range(110):
                    route = [route, i] if i % 2 else {'next': route, 'leg': i}
                return ('value', route)
            return ('value', {'tuple': (o, 'meta'), 'list': [o, 'meta'], 'dict': {'obj': o}, 'nested_tuple': ('x', (o, [3]))}[shape])
    prog = {'seed_world': 5, 'class_level': False, 'extractor': None, 'params': ({'copy': True} if shape == 'deep_route' else None), 'opts': {'raise_rate': 0.0}, 'uid': 960000 + seed % 1000,
            'inputs': [{'name': 'in0', 'io': 'in', 'kind': 'instance', 'nparams': 1, 'resolver': None, 'capture': 'all', 'handler': None,
                        'fallback': None, 'run_original': False, 'substitute': ('none',), 'nested': [], 'alias': 'shelf.load'}],
            'outputs': [{'name': 'out0', 'io': 'out', 'kind': 'instance', 'nparams': 1, 'handler': None, 'fail_on_no_result': True, 'default': None,
                         'nested': [], 'alias': 'shelf.publish'}],
            'body': [{'op': 'in', 'decl': 'in0', 'args': [{'lit': 1}], 'kwargs': {}, 'var': 'a'},
                     {'op': 'out', 'decl': 'out0', 'args': [{'var': 'a'}], 'kwargs': {}, 'var': 'b'},
                     {'op': 'out', 'decl': 'out0', 'args': [{'lit': 'tail'}], 'kwargs': {}, 'var': 'c'}], 'gen_seed': seed}
    if shape == 'deep_route':
        prog['body'].append({'op': 'return', 'expr': {'lit': 'done'}})     # (the default result would hold the route a second time: shared references)
    p2 = clone(prog)
    p2['body'].insert(1, {'op': 'mutate', 'var': 'a'})
    w = {'forwarded_object': True, 'case_seed': seed, 'cassette': kind, 'shape': shape}
    with open_box(kind) as box:
        spy = SpyCassette(box.cassette)
        rec = TapeRecorder(spy)
        rec.enable_recording()
        live = Built(prog, rec, ShapeWorld(5, raise_rate=0.0))
        live.run('live')
        saves = [e for e in spy.log if e[0] == 'save']
        if len(saves) != 1:
            return
        ro = spy.recordings[saves[0][1]]
        if not recording_in_domain(ro.recording_data, ro.recording_metadata):
            ctx.count('recordings_out_of_serializer_domain')
            return
        rec2 = TapeRecorder(box.reader())
        rep = Built(p2, rec2, World(1, poison=True), cls_name=live.cls.__name__)
        try:
            pb = rec2.play(saves[0][2], playback_function_for(rep))
        except BaseException as ex:  # noqa
            ctx.violation('replay raised %s' % type(ex).__name__, dict(w, error=repr(ex)[:200]))
            return
        ctx.case(w)
        ctx.count('forwarded_object_cases')
        exp_live, op_live = expected_outputs(live, live.journal)
        exp_rep, op_rep = expected_outputs(rep, rep.journal)
        check_map(ctx, to_map(ctx, pb.recorded_outputs, w, 'recorded_outputs'), exp_live, op_live, w, 'recorded_outputs')
        check_map(ctx, to_map(ctx, pb.playback_outputs, w, 'playback_outputs'), exp_rep, op_rep, w, 'playback_outputs')


def overlapping_operations_case(ctx, variant):
    """Two requests overlap in time on two threads of a service that has ONE recorder. Whatever the recorder does with the second one
    (refuse it, record it separately, let it run unrecorded): the recording of the first holds exactly the output calls the first made."""
    import threading
    from playback.tape_recorder import TapeRecorder
    kind = ('memory', 'file', 's3')[variant % 3]
    with open_box(kind) as box:
        spy = SpyCassette(box.cassette)
        rec = TapeRecorder(spy)
        rec.enable_recording()
        first_sent_one, second_done = threading.Event(), threading.Event()
        outcome = {}

        class Requests(object):
            @rec.intercept_output('sink.write')
            def write(self, row):
                return 'written'

            @rec.intercept_input('source.read')
            def read(self, key):
                return ['value of', key]

            @rec.operation()
            def first(self):
                self.write(['first', 1, self.read('a')])
                first_sent_one.set()
                second_done.wait(10)
                self.write(['first', 2, self.read('b')])
                return 'first done'

            @rec.operation()
            def second(self):
                self.write(['second', 1, self.read('a' if variant % 2 else 'c')])
                self.write(['second', 2])
                return 'second done'

        def run_second():
            first_sent_one.wait(10)
            try:
                outcome['second'] = Requests().second()
            except BaseException as ex:  # noqa
                outcome['second'] = ex
            finally:
                second_done.set()
        t = threading.Thread(target=run_second)
        t.start()
        try:
            outcome['first'] = Requests().first()
        except BaseException as ex:  # noqa
            outcome['first'] = ex
        t.join(20)
        w = {'overlapping_operations': True, 'variant': variant, 'cassette': kind}
        ctx.case(w)
        ctx.count('overlapping_operation_pairs')
        if isinstance(outcome.get('second'), BaseException):
            ctx.count('second_overlapping_operation_refused_with_' + type(outcome['second']).__name__)
        saves = [e for e in spy.log if e[0] == 'save']
        for e in saves:
            try:
                got = box.reader().get_recording(e[2])
            except Exception:
                continue
            outs = sorted((k, got.get_data(k)) for k in got.get_all_keys() if k.startswith('output: sink.write') and k.endswith('.output'))
            rows = [v['args'][0] for _, v in outs]
            owners = set(r[0] for r in rows)
            ctx.count('entries_checked_recorded_outputs', len(rows))
            if len(owners) > 1 or [r[1] for r in rows] != list(range(1, len(rows) + 1)):
                ctx.violation('a recording holds output calls of another, overlapping operation (or its own calls under shifted ordinals)', dict(w, rows=repr(rows)[:200]))
            ins = dict((k, got.get_data(k)) for k in got.get_all_keys() if k.startswith('input: source.read'))
            if owners == {'first'} and len(ins) != 2:
                ctx.violation('the recording of the first operation holds %d inputs, it read 2' % len(ins), w)


def nested_recorders_case(ctx, seed):
    """Two services, each with its own recorder, in one process: an operation of the pricing service (recorder Y) is called from inside
    the real implementation of an input that the orders service (recorder X) intercepts. Y's recording must hold exactly what Y's
    operation sent, whatever X is doing on that thread."""
    from playback.tape_recorder import TapeRecorder
    rng = random.Random(seed)
    inner = gen_program(rng, threads=False, nested=False, explicit_raise=0, raise_rate=0.0, max_in_decls=2, max_out_decls=2, try_steps=False,
                        record_data=False, extractor=False, class_level=False)
    if not inner['outputs'] and not inner['inputs']:
        return
    outer = {'seed_world': 5, 'class_level': False, 'extractor': None, 'params': None, 'opts': {'raise_rate': 0.0}, 'uid': 970000 + seed % 1000,
             'inputs': [{'name': 'in0', 'io': 'in', 'kind': 'instance', 'nparams': 1, 'resolver': None, 'capture': 'all', 'handler': None,
                         'fallback': None, 'run_original': False, 'substitute': ('none',), 'nested': [], 'alias': 'orders.price'}],
             'outputs': [{'name': 'out0', 'io': 'out', 'kind': 'instance', 'nparams': 1, 'handler': None, 'fail_on_no_result': True, 'default': None,
                          'nested': [], 'alias': 'orders.confirm'}],
             'body': [{'op': 'in', 'decl': 'in0', 'args': [{'lit': 1}], 'kwargs': {}, 'var': 'a'},
                      {'op': 'out', 'decl': 'out0', 'args': [{'var': 'a'}], 'kwargs': {}, 'var': 'b'}], 'gen_seed': seed}
    w = {'nested_recorders': True, 'case_seed': seed, 'inner_program': describe(inner)}
    with open_box('memory') as box_x, open_box(('memory', 'file')[seed % 2]) as box_y:
        rec_x = TapeRecorder(SpyCassette(box_x.cassette))
        rec_x.enable_recording()
        spy_y = SpyCassette(box_y.cassette)
        rec_y = TapeRecorder(spy_y)
        rec_y.enable_recording()
        inner_built = Built(inner, rec_y, World(inner['seed_world'], raise_rate=0.0))
        outer['inputs'][0]['nested'] = [{'op': 'py', 'fn': lambda built: inner_built.run('inner')}]
        Built(outer, rec_x, World(5, raise_rate=0.0)).run('outer')
        saves = [e for e in spy_y.log if e[0] == 'save']
        if len(saves) != 1:
            ctx.violation('the inner service\'s operation (own recorder) was saved %d times while called from inside an interception of another recorder' % len(saves), w)
            return
        ro = spy_y.recordings[saves[0][1]]
        if not recording_in_domain(ro.recording_data, ro.recording_metadata):
            ctx.count('recordings_out_of_serializer_domain')
            return
        rec2 = TapeRecorder(box_y.reader())
        rep = Built(inner, rec2, World(1, poison=True), cls_name=inner_built.cls.__name__)
        try:
            pb = rec2.play(saves[0][2], playback_function_for(rep))
        except BaseException as ex:  # noqa
            ctx.violation('the inner service\'s recording cannot be replayed on unchanged code: %s' % type(ex).__name__, dict(w, error=repr(ex)[:200]))
            return
        ctx.case(w)
        ctx.count('nested_recorder_cases')
        exp_live, op_live = expected_outputs(inner_built, inner_built.journal)
        check_map(ctx, to_map(ctx, pb.recorded_outputs, w, 'recorded_outputs'), exp_live, op_live, w, 'recorded_outputs')
        if rep.journal.bodies():
            ctx.violation('a wrapped body of the inner service ran during the replay of its recording', w)


def run(ctx):
    n = ctx.budget(300, 15000)
    base = ctx.seed * 1000003 + ctx.shard * 1000000
    for i in range(n):
        run_case(ctx, base + i)
    for i in range(ctx.budget(24, 600)):
        forwarded_object_case(ctx, base + i)
    for i in range(ctx.budget(20, 600)):
        nested_recorders_case(ctx, base + i)
    if ctx.shard == 0:
        for v in range(6):
            overlapping_operations_case(ctx, v)
    rng = random.Random(base)
    p = gen_program(rng, max_out_decls=3, max_in_decls=2)
    p2, edits = edit_program(p, rng)
    ctx.sample({'P': describe(p), 'edits': edits, 'P_edited_body': describe(p2)['body']})
    if not ctx.counters.get('entries_checked_playback_outputs'):
        ctx.inconclusive('no playback output entry was checked')


def replay(ctx, w):
    if w.get('forwarded_object'):
        return forwarded_object_case(ctx, w['case_seed'])
    if w.get('overlapping_operations'):
        return overlapping_operations_case(ctx, w['variant'])
    if w.get('nested_recorders'):
        return nested_recorders_case(ctx, w['case_seed'])
    run_case(ctx, w['case_seed'])
