"""C04 part (b): thread interleavings of operations whose worker threads perform interceptions while one or two of
them discard the recording.  Real TapeRecorder code under the deterministic scheduler; oracle = undecorated twin."""
import random

from vlib import env
from vlib import sched as S
from vlib import faultruns as fr
from vlib.programs import Built, World, describe
from vlib.spies import SpyCassette


def _in(name, alias, handler=None, nparams=1, kind='instance'):
    return {'name': name, 'io': 'in', 'kind': kind, 'nparams': nparams, 'resolver': None, 'capture': 'all', 'handler': handler,
            'fallback': None, 'run_original': False, 'substitute': ('none',), 'nested': [], 'alias': alias}


def _out(name, alias, handler=None, nparams=1, kind='instance'):
    return {'name': name, 'io': 'out', 'kind': kind, 'nparams': nparams, 'handler': handler, 'fail_on_no_result': True, 'default': None,
            'nested': [], 'alias': alias}


def _call(io, decl, *args):
    return {'op': io, 'decl': decl, 'args': [{'lit': a} for a in args], 'kwargs': {}, 'var': 'x_%s_%s' % (decl, '_'.join(map(str, args)))}


def thread_programs():
    """(name, program, fault placements to try)"""
    base = {'seed_world': 4242, 'class_level': False, 'extractor': None, 'params': None, 'opts': {'raise_rate': 0.0}}
    out = []
    # P1: one interception per worker; the input's data handler fails -> discard while the other is in flight
    p = dict(base, uid=910001, inputs=[_in('in0', 'in.h', handler='wrap')], outputs=[_out('out0', 'out.a')],
             body=[{'op': 'threads', 'bodies': [[_call('in', 'in0', 1)], [_call('out', 'out0', 2)]]}, _call('out', 'out0', 9)])
    out.append(('P1-two-workers-one-interception', p, [{('w0', 0): 'handler_raises'}, {('w0', 0): 'badkey'}, {('w0', 0): 'body_discard'}, {}]))
    # P2: two interceptions per worker, copy-on-interception on, fault on the second interception of w1
    p = dict(base, uid=910002, params={'copy': True}, inputs=[_in('in0', 'in.a'), _in('in1', 'in.b', handler='wrap')], outputs=[_out('out0', 'out.a', handler='wrap')],
             body=[{'op': 'threads', 'bodies': [[_call('in', 'in0', 1), _call('in', 'in0', 2)], [_call('out', 'out0', 3), _call('in', 'in1', 4)]]}])
    out.append(('P2-two-workers-two-interceptions', p, [{('w1', 1): 'handler_raises'}, {('w1', 0): 'handler_raises'}, {('w0', 1): 'badkey'}]))
    # P3: two faults on two threads -> two concurrent discards
    p = dict(base, uid=910003, inputs=[_in('in0', 'in.a', handler='wrap'), _in('in1', 'in.b')], outputs=[_out('out0', 'out.a', handler='wrap')],
             body=[{'op': 'threads', 'bodies': [[_call('in', 'in0', 1)], [_call('out', 'out0', 2)], [_call('in', 'in1', 3)]]}])
    out.append(('P3-three-workers-two-discards', p, [{('w0', 0): 'handler_raises', ('w1', 0): 'handler_raises'},
                                                       {('w0', 0): 'handler_raises', ('w2', 0): 'badkey'}, {('w2', 0): 'body_discard', ('w1', 0): 'handler_raises'}]))
    # P4: force + discard from different threads, static interceptions
    p = dict(base, uid=910004, inputs=[_in('in0', 'in.a', kind='static')], outputs=[_out('out0', 'out.a', kind='static')],
             body=[{'op': 'threads', 'bodies': [[_call('in', 'in0', 1), _call('out', 'out0', 5)], [_call('in', 'in0', 2)]]}])
    out.append(('P4-force-and-discard', p, [{('w0', 0): 'body_force', ('w1', 0): 'body_discard'}, {('w0', 1): 'body_discard', ('w1', 0): 'body_force'}]))
    return out


def targets():
    import playback.tape_recorder as a
    import playback.recordings.memory.memory_recording as b
    import playback.tape_cassette as c
    import playback.recording as d
    return [m.__file__ for m in (a, b, c, d)]


def make_execution(prog, faults, holder):
    def make(sched):
        from playback.tape_recorder import TapeRecorder
        from playback.tape_cassettes.in_memory.in_memory_tape_cassette import InMemoryTapeCassette
        spy = SpyCassette(InMemoryTapeCassette())
        rec = TapeRecorder(spy)
        rec.enable_recording()
        b = Built(prog, rec, World(prog['seed_world'], raise_rate=0.0), faults=faults,
                  thread_factory=lambda target, args, name: sched.Thread(target=target, args=args, name=name))
        holder.update(built=b, spy=spy)
        return lambda: b.run('live')
    return make


class _Res(object):
    pass


def schedule_part(ctx):
    from checks.C04 import compare_with_twin
    tg = targets()
    K = 1 if ctx.quick else 2
    shard = (ctx.shard, ctx.nshards) if ctx.nshards > 1 else None
    for name, prog, fault_sets in thread_programs():
        for faults in fault_sets:
            twin = Built(prog, None, World(prog['seed_world'], raise_rate=0.0), faults=faults)
            twin_outcome = twin.run('live')
            holder = {}
            make = make_execution(prog, faults, holder)

            def on_run(rec, prefix, name=name, faults=faults):
                w = {'program': name, 'faults': fr.faults_json(faults), 'schedule': list(prefix) if not isinstance(prefix, tuple) else prefix, 'K': K}
                ctx.case(rec.trace, nontrivial=len(rec.points) > 0)
                ctx.count('schedules_executed')
                ctx.maximum('max_choice_points_in_one_schedule', len(rec.points))
                if rec.aborted:
                    if 'deadlock' in rec.aborted:
                        ctx.violation('operation deadlocked under a schedule: ' + rec.aborted[:100], w)
                    else:
                        ctx.count('schedules_over_step_budget')
                    return
                if rec.error is not None:
                    ctx.violation('harness-level error %s' % type(rec.error).__name__, dict(w, error=repr(rec.error)[:200]))
                    return
                r = _Res()
                r.live, r.twin, r.outcome, r.twin_outcome = holder['built'], twin, rec.result, twin_outcome
                ctx.count('calls_compared', compare_with_twin(ctx, r, w))
            k = K + 1 if (name.startswith('P1') and not ctx.quick) else K
            cap = 120 if ctx.quick else 60000
            runs, complete = S.explore_dfs(make, tg, k, on_run, max_runs=(cap // ctx.nshards + 1) if shard else cap, shard=shard)
            ctx.count('dfs_schedules', runs)
            if not complete:
                ctx.count('dfs_truncated')
            nr = (30 if ctx.quick else 4000)
            nr = nr // ctx.nshards + (1 if ctx.shard < nr % ctx.nshards else 0)
            S.explore_random(make, tg, nr, ctx.rng, on_run)
            ctx.count('random_schedules', nr)
    if ctx.shard == 0:
        registrar_part(ctx, tg)
    generated_thread_programs(ctx, tg)
    ctx.sample({'thread_programs': [(n, describe(p)['body'], [fr.faults_json(f) for f in fs]) for n, p, fs in thread_programs()][:2]})


def registrar_part(ctx, tg):
    """While the service is serving operations, another thread registers recording parameters for classes of a lazily imported module
    (`@recorder.recording_params(...)` runs at import time). The operation's own class has no parameters; others already have."""
    from checks.C04 import compare_with_twin
    from playback.tape_recorder import RecordingParameters
    name, prog, _ = thread_programs()[0]
    twin = Built(prog, None, World(prog['seed_world'], raise_rate=0.0), faults={})
    twin_outcome = twin.run('live')
    holder = {}

    def make(sched):
        from playback.tape_recorder import TapeRecorder
        from playback.tape_cassettes.in_memory.in_memory_tape_cassette import InMemoryTapeCassette
        spy = SpyCassette(InMemoryTapeCassette())
        rec = TapeRecorder(spy)
        rec.enable_recording()
        for i in range(2):
            rec.recording_params(RecordingParameters())(type('AlreadyConfigured%d' % i, (object,), {}))
        b = Built(prog, rec, World(prog['seed_world'], raise_rate=0.0), faults={},
                  thread_factory=lambda target, args, name: sched.Thread(target=target, args=args, name=name))
        holder.update(built=b, spy=spy)

        def registrar():
            for i in range(2):
                rec.recording_params(RecordingParameters(sampling_rate=1))(type('LazilyImported%d' % i, (object,), {}))

        def main():
            t = sched.Thread(target=registrar, name='registrar')
            t.start()
            try:
                return b.run('live')
            finally:
                t.join()
        return main

    def on_run(rec, prefix):
        w = {'program': name + '+registrar', 'faults': [], 'schedule': list(prefix) if not isinstance(prefix, tuple) else prefix, 'registrar': True}
        ctx.case(rec.trace, nontrivial=len(rec.points) > 0)
        ctx.count('schedules_executed')
        ctx.count('schedules_with_a_registering_thread')
        if rec.aborted:
            if 'deadlock' in rec.aborted:
                ctx.violation('operation deadlocked under a schedule: ' + rec.aborted[:100], w)
            return
        if rec.error is not None:
            ctx.violation('harness-level error %s' % type(rec.error).__name__, dict(w, error=repr(rec.error)[:200]))
            return
        r = _Res()
        r.live, r.twin, r.outcome, r.twin_outcome = holder['built'], twin, rec.result, twin_outcome
        ctx.count('calls_compared', compare_with_twin(ctx, r, w))
    S.explore_dfs(make, tg, 1, on_run, max_runs=150 if ctx.quick else 20000)
    S.explore_random(make, tg, 30 if ctx.quick else 1500, ctx.rng, on_run)
    return make, on_run


def gen_threaded(seed):
    """A generated program that has a worker-thread step, plus one fault placed in a worker."""
    from vlib.programs import gen_program
    for k in range(50):
        rng = random.Random(seed * 1000 + k)
        p = gen_program(rng, threads=True, max_steps=8, explicit_raise=0, raise_rate=0.05, record_data=False, try_steps=False, nested=False)
        if any(s['op'] == 'threads' for s in p['body']):
            break
    else:
        return None, None
    p['gen_seed'] = seed * 1000 + k
    decls = {d['name']: d for d in p['inputs'] + p['outputs']}
    spots = []
    for s in p['body']:
        if s['op'] == 'threads':
            for ti, b in enumerate(s['bodies']):
                for si, st in enumerate(b):
                    if st['op'] in ('in', 'out'):
                        spots.append((('w%d' % ti, si), decls[st['decl']]))
            break
    faults = {}
    rng = random.Random(seed)
    for pos, d in rng.sample(spots, min(len(spots), rng.choice([1, 1, 2]))):
        # (no injected body failure here: it is sticky per call identity, which would couple the threads' behaviour to the schedule)
        kinds = ['body_discard', 'body_force', 'body_discard']
        if d['nparams'] > 0 and not d['kind'].startswith('property'):
            kinds.append('badkey')
        if d.get('handler'):
            kinds += ['handler_raises', 'handler_raises']
        faults[pos] = rng.choice(kinds)
    return p, faults


def generated_thread_programs(ctx, tg):
    """Random and PCT schedules over generated worker-thread programs with a fault in a worker (no DFS)."""
    from checks.C04 import compare_with_twin
    n = ctx.budget(12, 1200)
    per = 6 if ctx.quick else 40
    base = ctx.seed * 100000 + ctx.shard * 5000
    for i in range(n):
        prog, faults = gen_threaded(base + i)
        if prog is None:
            continue
        twin = Built(prog, None, World(prog['seed_world'], raise_rate=0.05), faults=faults)
        twin_outcome = twin.run('live')
        holder = {}

        def make(sched, prog=prog, faults=faults, holder=holder):
            from playback.tape_recorder import TapeRecorder
            from playback.tape_cassettes.in_memory.in_memory_tape_cassette import InMemoryTapeCassette
            spy = SpyCassette(InMemoryTapeCassette())
            rec = TapeRecorder(spy)
            rec.enable_recording()
            b = Built(prog, rec, World(prog['seed_world'], raise_rate=0.05), faults=faults,
                      thread_factory=lambda target, args, name: sched.Thread(target=target, args=args, name=name))
            holder.update(built=b, spy=spy)
            return lambda: b.run('live')

        def on_run(rec, desc, prog=prog, faults=faults, holder=holder, twin=twin, twin_outcome=twin_outcome):
            w = {'generated': prog['gen_seed'], 'program': describe(prog), 'faults': fr.faults_json(faults), 'schedule': desc}
            ctx.case(rec.trace, nontrivial=len(rec.points) > 0)
            ctx.count('schedules_executed')
            ctx.count('generated_thread_program_schedules')
            if rec.aborted:
                if 'deadlock' in rec.aborted:
                    ctx.violation('operation deadlocked under a schedule: ' + rec.aborted[:100], w)
                return
            if rec.error is not None:
                ctx.violation('harness-level error %s' % type(rec.error).__name__, dict(w, error=repr(rec.error)[:200]))
                return
            r = _Res()
            r.live, r.twin, r.outcome, r.twin_outcome = holder['built'], twin, rec.result, twin_outcome
            ctx.count('calls_compared', compare_with_twin(ctx, r, w))
        S.explore_random(make, tg, per, ctx.rng, on_run)
        ctx.count('generated_thread_programs')


def replay(ctx, w):
    from checks.C04 import compare_with_twin
    if w.get('registrar'):
        return registrar_part(ctx, targets())       # the exploration is deterministic: run it again
    if 'generated' in w:
        seed = w['generated'] // 1000
        prog, faults = gen_threaded(seed)
        faults = {tuple(k): v for k, v in w['faults']}
        twin = Built(prog, None, World(prog['seed_world'], raise_rate=0.05), faults=faults)
        twin_outcome = twin.run('live')
        holder = {}

        def make(sched):
            from playback.tape_recorder import TapeRecorder
            from playback.tape_cassettes.in_memory.in_memory_tape_cassette import InMemoryTapeCassette
            rec = TapeRecorder(SpyCassette(InMemoryTapeCassette()))
            rec.enable_recording()
            b = Built(prog, rec, World(prog['seed_world'], raise_rate=0.05), faults=faults,
                      thread_factory=lambda target, args, name: sched.Thread(target=target, args=args, name=name))
            holder.update(built=b)
            return lambda: b.run('live')
        rec = S.run_once(make, S.strategy_from(w['schedule']), targets())
        r = _Res()
        r.live, r.twin, r.outcome, r.twin_outcome = holder['built'], twin, rec.result, twin_outcome
        compare_with_twin(ctx, r, w)
        return
    for name, prog, fault_sets in thread_programs():
        if name != w['program']:
            continue
        faults = {tuple(k): v for k, v in w['faults']}
        twin = Built(prog, None, World(prog['seed_world'], raise_rate=0.0), faults=faults)
        twin_outcome = twin.run('live')
        holder = {}
        sch = w['schedule']
        strat = S.strategy_from(sch)
        rec = S.run_once(make_execution(prog, faults, holder), strat, targets())
        r = _Res()
        r.live, r.twin, r.outcome, r.twin_outcome = holder['built'], twin, rec.result, twin_outcome
        if rec.error is not None or rec.aborted:
            ctx.violation('execution error/abort: %r %r' % (rec.error, rec.aborted), w)
            return
        compare_with_twin(ctx, r, w)
