"""C07 Stored recordings round-trip through every cassette.

Model-based monitor: the model is the dict the harness wrote.  Refuted by a fetched recording with another id, key
set, non-teq value under some key, other metadata; get_recording_metadata(id) != metadata of the full recording;
fetching a never-saved id returning anything or raising anything other than NoSuchRecording.
"""
from vlib import env
from vlib.values import recording_in_domain, Gen, teq, fresh, in_domain, HOSTILE_STRINGS
from vlib.cassettes import open_box

PROPERTY = 'C07'
LEVEL = 'exploration'
RULE = ('seeded random stores: per case one cassette (memory | file | S3-on-fake with prefix in "", p, p/q, pp), 1-6 '
        'recordings with 0-40 hostile keys, values/metadata from the gated faithful domain (with sub-objects shared across '
        'keys), interleaved saves, then every recording fetched through a fresh reader and compared with the model; plus unknown-id '
        'probes (random, prefix of a real id, truncated, separator variants, id of another category). distinct = hash of '
        '(cassette kind, prefix, key texts, value reprs); non-trivial = at least one recording with at least one key.')
ASSUMPTIONS = ['keys starting with "py/" excluded (serializer reserved vocabulary)', 'values in the calibrated faithful domain of jsonpickle 0.9.3',
               'S3 = real S3TapeCassette + real S3BasicFacade over an in-memory fake of boto3']

KEY_CHARS = 'abcXY01 _-/.\\#:{}[],"\'\n\té日'
CONFIGS = [('memory', ''), ('file', ''), ('s3', ''), ('s3', 'p'), ('s3', 'p/q'), ('s3', 'pp')]


def gen_key(rng):
    r = rng.random()
    if r < 0.25:
        k = rng.choice(HOSTILE_STRINGS)
    elif r < 0.3:
        k = '_metadata'
    elif r < 0.4:
        k = rng.choice(['input: a args=[], kwargs=[]', 'output: a #1.output', 'output: a #1.result', 'output: _tape_recorder_operation #1.output'])
    elif r < 0.45:
        k = 'k' * 300 + str(rng.randrange(100))
    else:
        k = ''.join(rng.choice(KEY_CHARS) for _ in range(rng.randrange(1, 14)))
    if k.startswith('py/'):
        k = '_' + k
    return k


def build_store(ctx, rng):
    g = Gen(rng, ctx)
    recs = []
    for _ in range(rng.randrange(1, 7)):
        for _attempt in range(20):
            cat = rng.choice(['Op', 'OpX', 'Op_x', 'A'])
            nkeys = rng.choice([0, 1, 2, 3, 5, 8, 40]) if rng.random() < 0.5 else rng.randrange(0, 6)
            # sharing mode: sub-objects shared by identity inside and across keys (and with the metadata)
            sharing = rng.random() < 0.4
            shared = g.mutable_value(2, sharing=True) if sharing else None
            data = {}
            for _ in range(nkeys):
                data[gen_key(rng)] = shared if (sharing and rng.random() < 0.2) else g.value(3, sharing=sharing)
            md = {'m%d' % i: g.value(2, sharing=sharing) for i in range(rng.randrange(0, 4))}
            if sharing and rng.random() < 0.3:
                md['shared'] = shared
            # whole-recording domain gate, asked of jsonpickle directly (py/id numbering is graph-global)
            if recording_in_domain(data, md):
                break
            ctx.count('stores_out_of_domain')
        else:
            data, md, sharing = {'k': 1}, {}, False
        if sharing:
            ctx.count('recordings_with_identity_sharing')
        recs.append({'category': cat, 'data': data, 'metadata': md})
    return recs


def run_case(ctx, case_seed, kind, prefix):
    import random
    from playback.exceptions import NoSuchRecording
    rng = random.Random(case_seed)
    recs = build_store(ctx, rng)
    desc = {'kind': kind, 'prefix': prefix, 'case_seed': case_seed,
            'recs': [(r['category'], sorted(r['data']), repr(r['metadata'])[:200]) for r in recs]}
    ctx.case(desc, nontrivial=any(r['data'] for r in recs))
    witness = {'case_seed': case_seed, 'kind': kind, 'prefix': prefix}
    with open_box(kind, prefix=prefix, hostile_dir=(case_seed % 4 == 1)) as box:
        cas = box.cassette
        live = []
        # interleave: create all, fill in random order, save in random order
        for r in recs:
            rec = cas.create_new_recording(r['category'])
            r['id'] = rec.id
            live.append((r, rec))
        order = list(range(len(live)))
        rng.shuffle(order)
        for i in order:
            r, rec = live[i]
            model_data = fresh(r['data'])
            for k, v in r['data'].items():
                rec.set_data(k, v)
            rec.add_metadata(r['metadata'])
            r['model'] = (model_data, fresh(r['metadata']))
            try:
                cas.save_recording(rec)
            except Exception as ex:
                ctx.violation('saving a recording whose keys and values the serializer handles raised %s on %s cassette' % (type(ex).__name__, kind),
                              dict(witness, error=repr(ex)[:200]))
                return
            ctx.count('recordings_saved')
        # saves that fail (the serializer cannot encode a value) are part of the history: such an id was never saved, and an
        # earlier successful save under the same id must survive a failed re-save
        if rng.random() < 0.35:
            from vlib.programs import Unencodable
            from playback.recordings.memory.memory_recording import MemoryRecording
            bad = cas.create_new_recording(rng.choice(['Op', 'A']))
            bad.set_data('ok', 1)
            bad.set_data('bad', {'x': Unencodable()})
            try:
                cas.save_recording(bad)
                ctx.count('unencodable_save_did_not_fail')
            except Exception:
                ctx.count('failed_saves')
                try:
                    got = box.reader().get_recording(bad.id)
                    ctx.violation('an id whose only save attempt failed is fetchable on %s cassette (%s)' % (kind, type(got).__name__), dict(witness, id=bad.id))
                except NoSuchRecording:
                    ctx.count('failed_save_not_fetchable')
                except Exception as ex:
                    ctx.violation('fetching an id whose only save attempt failed raised %s instead of NoSuchRecording on %s cassette' % (type(ex).__name__, kind),
                                  dict(witness, id=bad.id, error=repr(ex)[:200]))
            if recs:
                victim = rng.choice(recs)
                again = MemoryRecording(victim['id'])
                again.set_data('bad', Unencodable())
                try:
                    cas.save_recording(again)
                except Exception:
                    ctx.count('failed_resaves')
        reader = box.reader()
        for r in recs:
            check_fetch(ctx, reader, r, kind, witness)
        # the history goes on: some recordings are saved AGAIN under their id with other data and metadata (by the writer), then read
        # through the very same reader object that already served them (and listed them) before
        if rng.random() < 0.5:
            from playback.recordings.memory.memory_recording import MemoryRecording
            g2 = Gen(rng, ctx)
            try:
                for cat in set(r['category'] for r in recs):
                    list(reader.iter_recording_ids(cat))
            except Exception as ex:
                ctx.violation('listing raised %s on %s cassette' % (type(ex).__name__, kind), witness)
            for r in rng.sample(recs, min(len(recs), rng.randrange(1, 3))):
                for _try in range(10):
                    nd = {gen_key(rng): g2.value(2, sharing=False) for _ in range(rng.randrange(0, 4))}
                    nm = {'m%d' % i: g2.value(2, sharing=False) for i in range(rng.randrange(0, 3))}
                    if recording_in_domain(nd, nm):
                        break
                else:
                    nd, nm = {'k': 2}, {'m': 3}
                again = MemoryRecording(r['id'])
                for k, v in nd.items():
                    again.set_data(k, v)
                again.add_metadata(nm)
                r['model'] = (fresh(nd), fresh(nm))
                r['replaced'] = True
                cas.save_recording(again)
                ctx.count('resaves_with_new_content')
            for r in recs:
                check_fetch(ctx, reader, r, kind, dict(witness, after='re-save, same reader object'))
            # ... and the very same recording OBJECT that was saved before is completed (item assignment) and saved again,
            # as is an object fetched from the cassette
            for r, obj in rng.sample(live, min(len(live), 2)):
                if 'resaved' in r:
                    continue
                if r.get('replaced') or rng.random() < 0.5:
                    src = cas.get_recording(r['id'])          # an object fetched from the cassette, completed and saved again
                    if sorted(src.get_all_keys()) != sorted(r['model'][0]) or not all(teq(src.get_data(k), v) for k, v in r['model'][0].items()) \
                            or not teq(src.get_metadata(), r['model'][1]):
                        continue                              # (a known finding already altered what comes back)
                else:
                    src = obj
                key, val = 'note: added after the first save', ['reviewed', rng.randrange(100)]
                try:
                    src[key] = val
                    cas.save_recording(src)
                except Exception as ex:
                    ctx.count('same_object_resave_refused_' + type(ex).__name__)
                    continue
                r['resaved'] = True
                nd = dict(r['model'][0])
                nd[key] = fresh(val)
                r['model'] = (nd, r['model'][1])
                ctx.count('same_object_resaves')
                check_fetch(ctx, reader, r, kind, dict(witness, after='the same recording object completed by item assignment and saved again'))
        # unknown ids
        real = [r['id'] for r in recs]
        probes = ['nope', 'Op/deadbeef', real[0][:-1], real[0] + '0', real[0].split('/')[0], '']
        rid = real[0]
        if '/' in rid:
            probes.append(rid.replace('/', '_'))
            probes.append(rid.replace('/', '_', 1))
        if '_' in rid:
            probes.append(rid.replace('_', '/', 1))
        probes.append('Zed/' + rid.split('/')[-1])
        for p in probes:
            if p in real:
                continue
            ctx.count('unknown_id_probes')
            try:
                got = reader.get_recording(p)
            except NoSuchRecording:
                ctx.count('unknown_id_signalled')
                continue
            except Exception as ex:
                ctx.violation('get_recording(unknown id) on %s cassette raised %s instead of NoSuchRecording' % (kind, type(ex).__name__),
                              dict(witness, probe=p, real=rid, error=repr(ex)))
                continue
            mech = 'separator-variant' if p.replace('/', '_') == rid.replace('/', '_') else 'plain'
            ctx.violation('get_recording(unknown id) on %s cassette returned %s (%s) instead of signalling NoSuchRecording' % (
                kind, type(got).__name__, mech), dict(witness, probe=p, real=rid, returned_id=getattr(got, 'id', None)))
        for p in probes[:3]:
            if p in real:
                continue
            try:
                got = reader.get_recording_metadata(p)
            except NoSuchRecording:
                ctx.count('unknown_id_signalled')
                continue
            except Exception as ex:
                got = ex
            ctx.count('unknown_id_probes')
            ctx.violation('get_recording_metadata(unknown id) on %s cassette gave %s instead of NoSuchRecording' % (kind, type(got).__name__),
                          dict(witness, probe=p))


def check_fetch(ctx, reader, r, kind, witness):
    model_data, model_md = r['model']
    w = dict(witness, recording=r['id'], keys=sorted(model_data))
    try:
        got = reader.get_recording(r['id'])
    except Exception as ex:
        ctx.violation('saved recording not fetchable on %s cassette: %s' % (kind, type(ex).__name__), dict(w, error=repr(ex)))
        return
    ctx.count('recordings_fetched')
    if got is None or got.id != r['id']:
        ctx.violation('fetched recording has id %r, saved %r' % (getattr(got, 'id', None), r['id']), w)
        return
    gkeys = set(got.get_all_keys())
    if gkeys != set(model_data):
        missing = set(model_data) - gkeys
        extra = gkeys - set(model_data)
        if kind == 's3' and missing == {'_metadata'} and not extra:
            ctx.finding('s3-reserved-data-key-_metadata',
                        'S3 cassette: a data key literally named "_metadata" is overwritten by the metadata envelope and is gone after fetch',
                        dict(w, missing=sorted(missing)))
        else:
            ctx.violation('key set differs after round trip on %s cassette: missing %r extra %r' % (kind, sorted(missing)[:3], sorted(extra)[:3]), w)
    for k, v in model_data.items():
        if k not in gkeys:
            continue
        ctx.count('values_compared')
        try:
            gv = got.get_data(k)
        except Exception as ex:
            ctx.violation('get_data raised %s for a saved key on %s cassette' % (type(ex).__name__, kind), dict(w, key=k))
            continue
        if not teq(gv, v):
            ctx.violation('value differs after round trip on %s cassette' % kind, dict(w, key=k, saved=repr(v)[:300], fetched=repr(gv)[:300]))
    if not teq(got.get_metadata(), model_md):
        ctx.violation('metadata differs after round trip on %s cassette' % kind, dict(w, saved=repr(model_md)[:300], fetched=repr(got.get_metadata())[:300]))
    try:
        md2 = reader.get_recording_metadata(r['id'])
        ctx.count('metadata_only_fetches')
        if not teq(md2, got.get_metadata()):
            ctx.violation('get_recording_metadata disagrees with metadata of the full recording on %s cassette' % kind,
                          dict(w, alone=repr(md2)[:300], full=repr(got.get_metadata())[:300]))
    except Exception as ex:
        ctx.violation('get_recording_metadata raised %s for a saved id on %s cassette' % (type(ex).__name__, kind), w)


def _nest(kind, depth):
    from vlib.values import Obj
    v = 'bottom'
    for i in range(depth):
        v = [v] if kind == 'list' else ({'next': v} if kind == 'dict' else (Obj(leg=i, next=v) if kind == 'object' else ([v] if i % 2 else {'n': v})))
    return v


RESERVED_LOOKING = ['_id', 'id', '_recording_id', 'recording_id', 'metadata', '_data', 'data', '_category', 'category', '_key', '_recording',
                    '_meta', '__metadata', '_metadata_', '_full', 'py/tuple_', 'json://x', '_version', '_created', '_timestamp', '_incomplete']


def directed_case(ctx, which, kind, prefix):
    """Shapes a random store rarely has: (deep) values nested 30..120 levels (linked route legs, trees); (reserved) data keys that look
    like names a storage envelope might use for itself; (many) more than ten thousand recordings in one cassette."""
    from playback.exceptions import NoSuchRecording
    witness = {'directed': which, 'kind': kind, 'prefix': prefix}
    with open_box(kind, prefix=prefix) as box:
        cas = box.cassette
        recs = []
        if which == 'deep':
            for depth in (30, 60, 96, 100, 105, 120):
                data = {'%s-%d' % (sh, depth): _nest(sh, depth) for sh in ('list', 'dict', 'object', 'mixed') if not (sh == 'object' and depth > 105)}
                md = {'depth': depth, 'md_nested': _nest('mixed', min(depth, 60))}
                if not recording_in_domain(data, md):
                    ctx.count('deep_values_out_of_serializer_domain')
                    continue
                recs.append({'category': 'Deep', 'data': data, 'metadata': md})
        elif which == 'reserved':
            recs.append({'category': 'Op', 'data': {k: ['value of', k] for k in RESERVED_LOOKING}, 'metadata': {'id': 'not-the-id', '_id': 5, 'k': 1}})
            # metadata keys that spell the serializer's own key escapes / tags
            recs.append({'category': 'Op', 'data': {'k': 1}, 'metadata': {'json://orders/v1': 3, 'nested': {'json://a': [1], 'py/x': 2}, 'json://': 0, 'plain': {'a': 1}}})
            # recordings that came from elsewhere and keep the id they were given there (another layout than this cassette's own)
            for foreign in ('Imported/0123456789abcdef', 'Op/20240310', 'flat-id-without-category', 'Op/2024/03/10/abc', '/20240310/no-category'):
                recs.append({'category': 'Op', 'data': {'from': foreign}, 'metadata': {'imported': True}, 'id': foreign})
            for k in RESERVED_LOOKING[:8]:
                recs.append({'category': 'Op', 'data': {k: {'only': k}}, 'metadata': {}})
        elif which == 'many':
            n = 10050 if (kind == 'memory' or not ctx.quick) else 300
            for i in range(n):
                recs.append({'category': 'Bulk', 'data': {'i': i}, 'metadata': {'i': i}})
        for r in recs:
            if r.get('id'):
                from playback.recordings.memory.memory_recording import MemoryRecording as _MR
                rec = _MR(r['id'])
            else:
                rec = cas.create_new_recording(r['category'])
            r['id'] = rec.id
            for k, v in r['data'].items():
                rec.set_data(k, v)
            rec.add_metadata(r['metadata'])
            r['model'] = (fresh(r['data']), fresh(r['metadata']))
            try:
                cas.save_recording(rec)
            except Exception as ex:
                ctx.violation('saving a recording whose keys and values the serializer handles raised %s on %s cassette' % (type(ex).__name__, kind),
                              dict(witness, error=repr(ex)[:200], keys=sorted(r['data'])[:5], id=r['id']))
                return
        ctx.case(witness, nontrivial=bool(recs))
        ctx.count('directed_%s_recordings_saved' % which, len(recs))
        reader = box.reader()
        probe = recs if which != 'many' else [recs[0], recs[1], recs[len(recs) // 2], recs[-1]] + recs[::997]
        for r in probe:
            check_fetch(ctx, reader, r, kind, witness)


def forked_writers(ctx, kind, prefix):
    """A pre-fork server: the cassette object exists (and has been used) in the master; two workers forked from it each create and save
    a recording. Their ids differ, and (file cassette, the one store two processes really share here) both recordings are there afterwards."""
    import json
    import os
    witness = {'directed': 'forked_writers', 'kind': kind, 'prefix': prefix}
    with open_box(kind, prefix=prefix) as box:
        cas = box.cassette
        first = cas.create_new_recording('Op')
        first.set_data('who', 'master')
        cas.save_recording(first)
        got = []
        for worker in (1, 2):
            rfd, wfd = os.pipe()
            pid = os.fork()
            if pid == 0:
                try:
                    os.close(rfd)
                    r = cas.create_new_recording('Op')
                    r.set_data('who', 'worker-%d' % worker)
                    r.add_metadata({'worker': worker})
                    cas.save_recording(r)
                    os.write(wfd, json.dumps(r.id).encode())
                finally:
                    os._exit(0)
            os.close(wfd)
            buf = b''
            while True:
                chunk = os.read(rfd, 65536)
                if not chunk:
                    break
                buf += chunk
            os.close(rfd)
            os.waitpid(pid, 0)
            got.append(json.loads(buf.decode()) if buf else None)
        ctx.case(witness)
        ctx.count('forked_writer_pairs')
        if None in got:
            ctx.inconclusive('a forked writer did not report its recording id')
            return
        if len(set(got + [first.id])) != 3:
            ctx.violation('recording ids handed out in processes forked from one master are not distinct', dict(witness, ids=got + [first.id]))
            return
        if kind == 'file':
            reader = box.reader()
            for worker, rid in enumerate(got, 1):
                try:
                    ok = reader.get_recording(rid).get_data('who') == 'worker-%d' % worker
                except Exception:
                    ok = False
                if not ok:
                    ctx.violation('a recording saved by a forked worker is not fetchable with its own content', dict(witness, worker=worker))


def two_writers_and_odd_ids(ctx, kind, prefix):
    """(a) Two handles on one store each fetch recording X; the second adds metadata and saves; the first then saves its own (older) copy,
    with or without new data: whatever was saved last is what both views show - the full recording and the metadata fetched on its own.
    (b) Never-saved ids of unusual shape (hundreds of characters, a NUL, a name that exists as a directory next to the recordings)."""
    import os
    from playback.exceptions import NoSuchRecording
    witness = {'directed': 'two_writers_and_odd_ids', 'kind': kind, 'prefix': prefix}
    with open_box(kind, prefix=prefix) as box:
        cas = box.cassette
        rec = cas.create_new_recording('Op')
        rec.set_data('k', [1, 2])
        rec.add_metadata({'owner': 'first', 'n': 1})
        cas.save_recording(rec)
        if kind == 's3':
            w1 = box.fake.cassette('writer1', key_prefix=prefix, read_only=False)
            w2 = box.fake.cassette('writer2', key_prefix=prefix, read_only=False)
        elif kind == 'file':
            from playback.tape_cassettes.file_based.file_based_tape_cassette import FileBasedTapeCassette
            w1, w2 = FileBasedTapeCassette(cas.directory), FileBasedTapeCassette(cas.directory)
        else:
            w1 = w2 = cas
        for add_data in (False, True):
            mine = w1.get_recording(rec.id)
            theirs = w2.get_recording(rec.id)
            theirs.add_metadata({'reviewed_by': 'second writer', 'round': add_data})
            w2.save_recording(theirs)
            if add_data:
                mine['late'] = 'added by the first writer'
            w1.save_recording(mine)
            ctx.case(dict(witness, add_data=add_data))
            ctx.count('two_writer_histories')
            model = {'id': rec.id, 'model': (fresh({k: mine.get_data(k) for k in mine.get_all_keys()}), fresh(dict(mine.get_metadata())))}
            check_fetch(ctx, box.reader(), model, kind, dict(witness, add_data=add_data))
        # ---- odd never-saved ids
        reader = box.reader()
        odd = ['x' * 300, u'\u65e5' * 100, 'Op/' + 'y' * 260, 'a\x00b', 'Op/with\x00nul', 'Dir/abc', 'Op/..', '.', '..', 'Op/' + rec.id.split('/')[-1] + '/more', ' ']
        if kind == 'file':
            # a folder that has the very name the recording file of id 'Dir/abc' would have
            os.makedirs(reader._get_recording_file_path('Dir/abc'))
        for p in odd:
            for name, call in (('get_recording', reader.get_recording), ('get_recording_metadata', reader.get_recording_metadata)):
                ctx.count('unknown_id_probes')
                try:
                    got = call(p)
                except NoSuchRecording:
                    ctx.count('unknown_id_signalled')
                    continue
                except Exception as ex:
                    ctx.violation('%s(never-saved id of unusual shape) on %s cassette raised %s instead of NoSuchRecording' % (name, kind, type(ex).__name__),
                                  dict(witness, probe=repr(p)[:60], error=repr(ex)[:120]))
                    continue
                ctx.violation('%s(never-saved id) on %s cassette returned %s instead of signalling NoSuchRecording' % (name, kind, type(got).__name__),
                              dict(witness, probe=repr(p)[:60]))


def judge_concurrent(ctx, cassette, ids, kind, w):
    from playback.exceptions import NoSuchRecording
    for (i, k), rid in sorted(ids.items()):
        ctx.count('concurrently_saved_recordings_fetched')
        try:
            got = cassette.get_recording(rid)
            ok = got.id == rid and got.get_data('who') == 'thread-%d-%d' % (i, k) and got.get_metadata() == {'who': i, 'k': k} and \
                cassette.get_recording_metadata(rid) == {'who': i, 'k': k}
        except NoSuchRecording:
            ok = False
        if not ok:
            ctx.violation('a recording whose save returned (while another thread saved through the same %s cassette) is not fetchable with its content' % kind,
                          dict(w, thread=i, k=k))
            return


def run(ctx):
    if ctx.shard == 0:
        from vlib import concsaves
        for kind, nt, per in (('memory', 2, 2), ('file', 2, 1), ('file', 3, 1), ('memory', 3, 1)):
            concsaves.explore(ctx, kind, nt, per, judge_concurrent, ctx.quick)
        concsaves.explore_resave_fetch(ctx, ctx.quick)
    if ctx.shard == 0:
        for kind, prefix in CONFIGS:
            for which in ('deep', 'reserved', 'many'):
                directed_case(ctx, which, kind, prefix)
            two_writers_and_odd_ids(ctx, kind, prefix)
            forked_writers(ctx, kind, prefix)
    n = ctx.budget(300, 10000)
    base = ctx.seed * 1000003 + ctx.shard * 100000
    for i in range(n):
        kind, prefix = CONFIGS[i % len(CONFIGS)]
        run_case(ctx, base + i, kind, prefix)
        ctx.count('cases_' + kind)
    ctx.sample({'case_seed': base, 'replay': 'check C07 --replay <witness with case_seed/kind/prefix>', 'config': CONFIGS[0], 'example_keys': [gen_key(ctx.rng) for _ in range(6)],
                'example_value': repr(Gen(ctx.rng).value(3))[:300]})


def replay(ctx, w):
    if w.get('directed') == 'forked_writers':
        return forked_writers(ctx, w['kind'], w['prefix'])
    if w.get('directed') == 'two_writers_and_odd_ids':
        return two_writers_and_odd_ids(ctx, w['kind'], w['prefix'])
    if w.get('directed'):
        return directed_case(ctx, w['directed'], w['kind'], w['prefix'])
    if w.get('concurrent_saves'):
        print('scheduler witness: re-run the check (the exploration is deterministic)')
        return
    run_case(ctx, w['case_seed'], w['kind'], w['prefix'])
