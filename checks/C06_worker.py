"""Recorder / replayer subprocess of C06 part B (run with different PYTHONHASHSEED values).

    C06_worker.py record <dir> <base_seed> <n>    records n seeded programs into a file cassette under <dir>
    C06_worker.py replay <dir> <base_seed> <n>    replays them; expected values come from the pure world function
"""
import json
import os
import random
import sys

HERE = os.path.dirname(os.path.dirname(os.path.abspath(__file__)))
sys.path.insert(0, HERE)
from vlib import env  # noqa: E402
env.bootstrap()

from vlib.programs import gen_program, Built, World, describe, playback_function_for, call_outcome, Outcome, outcome_teq  # noqa: E402
from vlib.spies import SpyCassette  # noqa: E402
from vlib.values import teq, in_domain, recording_in_domain  # noqa: E402


def make_prog(seed):
    rng = random.Random(seed)
    p = gen_program(rng, threads=False, nested=False, max_in_decls=4, max_out_decls=1, max_steps=8, explicit_raise=0, handlers=False,
                    record_data=False, try_steps=False, extractor=False)
    p['uid'] = 940000 + seed % 50000
    p['body'] = [({'op': 'try', 'body': [s]} if s['op'] in ('in', 'out') else s) for s in p['body']]
    p['params'] = None
    if rng.random() < 0.35:
        # one call gets a huge argument (a long id list / a long document): its key is long
        ins = [st['body'][0] for st in p['body'] if st['op'] == 'try' and st['body'][0]['op'] == 'in' and (st['body'][0]['args'] or st['body'][0]['kwargs'])]
        if ins:
            st = rng.choice(ins)
            big = rng.choice([list(range(1000, 1000 + rng.choice([700, 1500, 5000]))), 'doc ' * rng.choice([1100, 3000]),
                              {'ids': list(range(900)), 'note': 'x' * 5000}])
            if st['args']:
                st['args'][rng.randrange(len(st['args']))] = {'lit': big}
            else:
                st['kwargs'][rng.choice(sorted(st['kwargs']))] = {'lit': big}
            p['has_huge_argument'] = True
    return p


def main():
    mode, d, base, n = sys.argv[1], sys.argv[2], int(sys.argv[3]), int(sys.argv[4])
    from playback.tape_recorder import TapeRecorder
    from playback.tape_cassettes.file_based.file_based_tape_cassette import FileBasedTapeCassette
    from playback.exceptions import RecordingKeyError
    idx_path = os.path.join(d, 'index.json')
    casdir = os.path.join(d, 'cassette')
    if mode == 'record':
        index = {}
        for i in range(n):
            prog = make_prog(base + i)
            spy = SpyCassette(FileBasedTapeCassette(casdir))
            rec = TapeRecorder(spy)
            rec.enable_recording()
            live = Built(prog, rec, World(prog['seed_world'], raise_rate=0.1))
            live.run('live')
            saves = [e for e in spy.log if e[0] == 'save']
            if len(saves) == 1 and not any(e[0] == 'save_failed' for e in spy.log):
                ro = spy.recordings[saves[0][1]]
                if recording_in_domain(ro.recording_data, ro.recording_metadata):
                    index[str(base + i)] = saves[0][2]
        with open(idx_path, 'w') as f:
            json.dump(index, f)
        print(json.dumps({'recorded': len(index)}))
        return
    from checks.C06 import has_multi_set, only_set_order_differs, real_key, _captured_values
    with open(idx_path) as f:
        index = json.load(f)
    out = {'programs': 0, 'calls': 0, 'calls_with_sets': 0, 'violations': [], 'findings': []}
    for i in range(n):
        rid = index.get(str(base + i))
        if rid is None:
            continue
        prog = make_prog(base + i)
        cas = FileBasedTapeCassette(casdir)
        rec = TapeRecorder(cas)
        rep = Built(prog, rec, World(1, poison=True))
        w = {'prog_seed': base + i, 'program': describe(prog)}
        try:
            rec.play(rid, playback_function_for(rep))
        except BaseException as ex:  # noqa
            out['violations'].append({'what': 'cross-process replay failed with %s' % type(ex).__name__, 'w': w})
            continue
        out['programs'] += 1
        rkeys = [k for k in cas.get_recording(rid).get_all_keys() if k.startswith('input:')]
        world = World(prog['seed_world'], raise_rate=0.1)
        tainted = False     # after a legitimate (known-finding) miss, later arguments derived from it differ: stop judging
        for e in rep.journal.calls():
            if e['io'] != 'in' or tainted:
                continue
            dd = rep.decls[e['decl']]
            out['calls'] += 1
            kind, v = world.outcome('in', dd['name'], rep.resolved_alias(dd, e['args'], e['kwargs']), rep.captured(dd, e['args'], e['kwargs']))
            exp = Outcome('exc', v('x')) if kind == 'raise' else Outcome('ret', {'by_descriptor': v} if dd['kind'] == 'property_inner_sub' else v)
            got = call_outcome(e)
            cv = _captured_values(rep, dd, e['args'], e['kwargs'])
            if has_multi_set(cv):
                out['calls_with_sets'] += 1
            if outcome_teq(got, exp):
                continue
            if got.kind == 'exc' and isinstance(got.value, RecordingKeyError):
                try:
                    rk = real_key(rep, dd, e['args'], e['kwargs'])
                except Exception:
                    rk = None
                if rk is not None and has_multi_set(cv) and only_set_order_differs(rkeys, rk, rep.resolved_alias(dd, e['args'], e['kwargs'])):
                    out['findings'].append({'what': 'a captured argument containing a set with >= 2 elements is keyed in set iteration order, '
                                                    'which differs between processes with different PYTHONHASHSEED', 'w': dict(w, decl=dd['name'], replay_key=rk[:200])})
                    tainted = True
                    continue
                out['violations'].append({'what': 'a call recorded in another process (other hash seed) did not find its value',
                                          'w': dict(w, decl=dd['name'], args=repr(e['args'])[:200], replay_key=(rk or '')[:200])})
            else:
                out['violations'].append({'what': 'cross-process replay injected another value than recorded for this call',
                                          'w': dict(w, decl=dd['name'], got=repr(got)[:200], expected=repr(exp)[:200])})
            tainted = True
    print(json.dumps(out))


if __name__ == '__main__':
    main()
