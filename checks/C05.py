"""C05 A recording is persisted whole or not at all, and finalised exactly once.

Offline checker over the spy-cassette history (exactly-once, never-both, never-neither) + conservation between the
client-side journal and the saved keys + replay of every recording found in the cassette afterwards.
"""
import random

from vlib import env
from vlib import faultruns as fr
from vlib.programs import Built, World, describe, playback_function_for, expected_outputs

from vlib.values import recording_in_domain

PROPERTY = 'C05'
LEVEL = 'fault_enumeration'
RULE = ('for each base program (seeded, every decorator feature, single-threaded): the fault-free run, every single placement and sampled pairs of '
        '{key-building failure, data-handler failure, resolver failure, discard / force (operation or intercepted body), ordinary exception, '
        'interrupt-style exception at every step and inside bodies, unserializable value} x {sampled out (rate 0 / fractional), save raises, extractor variants}; '
        'a case = one run; distinct = hash of (program, placement, config); non-trivial = a recording was created.')
ASSUMPTIONS = ['single-threaded (the quantifier has no schedules)', 'a save attempt that raises inside the cassette counts as "handed to the cassette to be saved"',
               'replay re-applies the service-level faults (they are behaviour of the code), not the framework-level ones']


def capture_failed(res):
    """From the interpreter's fault log (what actually happened in this run): did a capture fault / discard happen?"""
    for pos, kind in res.live.fault_log:
        if kind in ('discard', 'body_discard', 'handler_raises', 'resolver_raises', 'badkey_key'):
            return kind
    return None


def judge(ctx, res, w, replay_saved=True):
    from playback.tape_recorder import TapeRecorder
    from playback.exceptions import RecordingKeyError
    fin = res.spy.finalisation(since=res.log_start)
    if res.live.prog.get('inner_prog') is not None:
        # an inner operation called after the outer recording was discarded legitimately records itself: its own recording is not
        # the one being judged here
        inner_cat = 'GenOp%d' % res.live.prog['inner_prog']['uid']
        inner_oids = set(e[1] for e in res.spy_events if e[0] == 'create' and e[3] == inner_cat)
        if inner_oids:
            ctx.count('inner_operations_recorded_on_their_own', len(inner_oids))
            res.spy_events = [e for e in res.spy_events if e[1] not in inner_oids]
            fin = {oid: f for oid, f in fin.items() if oid not in inner_oids}
    ctx.count('recordings_created', len(fin))
    for oid, f in fin.items():
        total = f['save'] + f['abort']
        if f.get('never_created'):
            ctx.violation('cassette asked to finalise a recording it never created', dict(w, fin=f))
        if total != 1:
            ctx.violation('recording finalised %d times (save=%d, abort=%d); must be exactly once' % (total, f['save'], f['abort']), dict(w, fin=f))
        ctx.count('finalisations_checked')
    if getattr(res.box, 'kind', None) == 'file':
        # "whole or not at all" as the store shows it: every file in the cassette directory is a complete, decodable recording
        import json as _json
        for name, content in res.box.snapshot().items():
            ctx.count('stored_files_checked')
            try:
                _json.loads(content.decode('utf-8'))
            except Exception:
                ctx.violation('the file cassette directory holds a file that is not a whole recording (%d bytes) after this run' % len(content),
                              dict(w, file=name[:60], save_failed=any(e[0] == 'save_failed' for e in res.spy_events)))
                break
    cf = capture_failed(res)
    saves = [e for e in res.spy_events if e[0] == 'save']
    failed = [e for e in res.spy_events if e[0] == 'save_failed']
    if cf and saves:
        ctx.violation('recording handed to the cassette to be saved although a capture failed / it was discarded (%s)' % cf, w)
    if cf:
        ctx.count('runs_with_capture_failure_or_discard')
    for e in saves:
        ctx.count('saves_seen')
        keys, md = set(e[3] or []), e[4] or {}
        # conservation: every interception the journal shows as executed must have its keys in the saved recording
        exp_out, op = expected_outputs(res.live, res.live.journal)
        missing = [k for k in exp_out if k not in keys]
        if missing:
            ctx.violation('saved recording lacks the captured output of an executed call', dict(w, missing=missing[:3]))
        nin = len(set(res.live.key_identity(res.live.decls[c['decl']], c['args'], c['kwargs']) for c in res.live.journal.calls() if c['io'] == 'in'
                      and ('exc' not in c or isinstance(c['exc'], Exception))))
        have_in = len([k for k in keys if k.startswith('input:')])
        ctx.count('conservation_checks')
        if have_in < nin:
            ctx.violation('saved recording holds %d input keys for %d distinct executed input calls' % (have_in, nin), w)
        if e in saves and not failed and replay_saved and not md.get(TapeRecorder.INCOMPLETE_RECORDING):
            ro = res.spy.recordings.get(e[1])
            if ro is None or not recording_in_domain(getattr(ro, 'recording_data', {}), getattr(ro, 'recording_metadata', {})):
                ctx.count('recordings_out_of_serializer_domain')     # what the third-party serializer does not restore faithfully is not judged
                continue
            # replay on unchanged code: same program, same service-level faults, poison world
            rec2 = TapeRecorder(res.box.reader())
            rep = Built(res.live.prog, rec2, World(1, poison=True), faults=fr.service_faults(res.faults), cls_name=res.live.cls.__name__)
            try:
                rec2.play(e[2], playback_function_for(rep))
                ctx.count('saved_complete_recordings_replayed')
            except RecordingKeyError as ex:
                ctx.violation('a saved, complete recording hit a missing key when replayed on unchanged code', dict(w, error=str(ex)[:200]))
            except BaseException as ex:  # noqa
                ctx.count('replays_ended_with_' + type(ex).__name__)
            caught = [x for x in rep.journal.events if x['ev'] == 'caught' and isinstance(x['exc'], RecordingKeyError)]
            if caught:
                ctx.violation('a saved, complete recording hit a missing key (caught by the service) when replayed on unchanged code', w)
            if rep.journal.bodies():
                ctx.violation('replay of a saved recording executed a wrapped body', w)


def framework_errors_inside_bodies(ctx):
    """The body of an intercepted input / output raises an exception of the framework's own family (it read another cassette and found
    nothing: NoSuchRecording; it replayed something and hit a missing key) and the operation handles it and completes. That outcome of
    the interception is captured like any other: what is saved and not flagged incomplete replays on unchanged code."""
    from playback.tape_recorder import TapeRecorder
    from playback.exceptions import NoSuchRecording, RecordingKeyError, TapeRecorderException
    from vlib.cassettes import open_box
    from vlib.spies import SpyCassette

    from vlib.values import service_side_error
    ServiceSideError = service_side_error()
    for kind in ('memory', 'file', 's3'):
        for io_kind in ('input', 'output'):
            for exc in (NoSuchRecording, RecordingKeyError, ServiceSideError, KeyError):
                with open_box(kind) as box:
                    spy = SpyCassette(box.cassette)
                    rec = TapeRecorder(spy)
                    rec.enable_recording()
                    state = {'mode': 'live', 'bodies': 0}

                    def failing(*a):
                        state['bodies'] += 1
                        raise exc('baseline-recording-42')

                    class Compare(object):
                        load_baseline = rec.intercept_input('compare.load_baseline')(lambda self, name: failing(name))
                        store = rec.intercept_output('compare.store')(lambda self, row: failing(row))
                        current = rec.intercept_input('compare.current')(lambda self: {'value': 7})

                        @rec.operation()
                        def run(self):
                            cur = self.current()
                            try:
                                base = self.load_baseline('nightly') if io_kind == 'input' else self.store(cur)
                            except Exception as ex:
                                base = 'no baseline (%s)' % type(ex).__name__
                            return [cur, base]
                    live = Compare().run()
                    w = {'framework_error_in_body': exc.__name__, 'io': io_kind, 'cassette': kind}
                    ctx.case(w)
                    ctx.count('runs_with_a_framework_error_inside_a_body')
                    saves = [e for e in spy.log if e[0] == 'save' and not (e[4] or {}).get(TapeRecorder.INCOMPLETE_RECORDING)]
                    ctx.count('finalisations_checked')
                    if len([e for e in spy.log if e[0] in ('save', 'abort')]) != 1:
                        ctx.violation('recording finalised %d times; must be exactly once' % len([e for e in spy.log if e[0] in ('save', 'abort')]), w)
                    if not saves:
                        continue
                    state['bodies'] = 0
                    rec.tape_cassette = box.reader()
                    try:
                        pb = rec.play(saves[0][2], lambda recording: Compare().run())
                        ctx.count('saved_complete_recordings_replayed')
                    except RecordingKeyError as ex:
                        ctx.violation('a saved, complete recording hit a missing key when replayed on unchanged code', dict(w, error=str(ex)[:200]))
                        continue
                    except BaseException as ex:  # noqa
                        ctx.count('replays_ended_with_' + type(ex).__name__)
                        continue
                    replayed = [o.value['args'][0] for o in pb.playback_outputs if '_tape_recorder_operation' in o.key]
                    if state['bodies'] or not replayed or replayed[0] != live:
                        ctx.violation('a saved, complete recording does not replay what the operation did (bodies run: %d, result %r, recorded %r)' % (
                            state['bodies'], replayed[:1], live), w)


def interceptions_inside_data_handlers(ctx):
    """The data handler of an intercepted input / output asks ANOTHER intercepted input of the same recorder how to pack the value (in
    prepare) and how to unpack it (in restore): that inner interception occurs during the operation like any other one, so it is
    captured - or the recording is not saved / flagged incomplete. What is saved and complete replays on unchanged code."""
    from playback.tape_recorder import TapeRecorder
    from playback.exceptions import RecordingKeyError
    from playback.interception.input_interception import InputInterceptionDataHandler
    from playback.interception.output_interception import OutputInterceptionDataHandler
    from vlib.cassettes import open_box
    from vlib.spies import SpyCassette

    for kind in ('memory', 'file', 's3'):
        for where in ('input_handler', 'output_handler', 'both', 'body_calls_it_too', 'body_calls_it_with_other_args'):
            with open_box(kind) as box:
                spy = SpyCassette(box.cassette)
                rec = TapeRecorder(spy)
                rec.enable_recording()
                state = {'codec': 'upper', 'bodies': 0}

                class Settings(object):
                    @staticmethod
                    @rec.static_intercept_input('settings.codec')
                    def codec(purpose='any'):
                        state['bodies'] += 1
                        return state['codec']

                class Packed(InputInterceptionDataHandler):
                    def prepare_input_for_recording(self, interception_key, result, args, kwargs):
                        return [Settings.codec('pack'), result.upper() if Settings.codec('pack') == 'upper' else result.lower()]

                    def restore_input_from_recording(self, recorded_data, args, kwargs):
                        return recorded_data[1].lower() if Settings.codec('pack') == 'upper' else recorded_data[1].upper()

                class PackedOut(OutputInterceptionDataHandler):
                    def prepare_output_for_recording(self, interception_key, args, kwargs):
                        return {'args': [Settings.codec('out'), list(args[1:])], 'kwargs': {}}

                    def restore_output_from_recording(self, recorded_data):
                        return recorded_data

                class Doc(object):
                    fetch = rec.intercept_input('templates.fetch', data_handler=Packed() if where != 'output_handler' else None)(
                        lambda self, n: (state.__setitem__('bodies', state['bodies'] + 1), 'template %d' % n)[1])
                    send = rec.intercept_output('printer.send', data_handler=PackedOut() if where in ('output_handler', 'both') else None)(
                        lambda self, text: (state.__setitem__('bodies', state['bodies'] + 1), len(text))[1])

                    @rec.operation()
                    def run(self):
                        if where == 'body_calls_it_too':
                            Settings.codec('pack')
                        if where == 'body_calls_it_with_other_args':
                            Settings.codec('body')
                        text = self.fetch(7)
                        return [text, self.send(text + '!')]
                live = Doc().run()
                w = {'interception_inside_a_data_handler': where, 'cassette': kind}
                ctx.case(w)
                ctx.count('runs_with_an_interception_inside_a_data_handler')
                fins = [e for e in spy.log if e[0] in ('save', 'abort')]
                ctx.count('finalisations_checked')
                if len(fins) != 1:
                    ctx.violation('recording finalised %d times; must be exactly once' % len(fins), w)
                saves = [e for e in spy.log if e[0] == 'save' and not (e[4] or {}).get(TapeRecorder.INCOMPLETE_RECORDING)]
                if not saves:
                    ctx.count('not_saved_or_flagged_incomplete')
                    continue
                state['bodies'] = 0
                state['codec'] = 'lower'          # the replaying machine is configured differently: the recorded answer must be used
                rec.tape_cassette = box.reader()
                try:
                    pb = rec.play(saves[0][2], lambda recording: Doc().run())
                    ctx.count('saved_complete_recordings_replayed')
                except RecordingKeyError as ex:
                    ctx.violation('a saved, complete recording hit a missing key when replayed on unchanged code (an interception made by a data handler '
                                  'was not captured)', dict(w, error=str(ex)[:200]))
                    continue
                except BaseException as ex:  # noqa
                    ctx.violation('replay of a saved, complete recording on unchanged code ended with %s' % type(ex).__name__, dict(w, error=str(ex)[:200]))
                    continue
                replayed = [o.value['args'][0] for o in pb.playback_outputs if '_tape_recorder_operation' in o.key]
                if state['bodies'] or not replayed or replayed[0] != live:
                    ctx.violation('a saved, complete recording does not replay what the operation did (bodies run: %d, result %r, live %r)' % (
                        state['bodies'], replayed[:1], live), w)


def run(ctx):
    if ctx.shard == 0:
        framework_errors_inside_bodies(ctx)
        interceptions_inside_data_handlers(ctx)
    nprog = 10 if ctx.quick else 60
    progs = fr.base_programs(ctx.seed + 101, nprog)
    irng = random.Random(ctx.seed + 77)
    for prog in progs:
        if irng.random() < 0.3:
            # the operation calls ANOTHER decorated operation (own class, own recording parameters, or skipped) from its body
            prog['inner_prog'] = {'seed_world': 7, 'class_level': False, 'extractor': None, 'params': irng.choice([None, None, {'skipped': True}]),
                                  'inputs': [], 'outputs': [], 'opts': {'raise_rate': 0.0}, 'uid': prog.get('uid', 0) + 700000,
                                  'body': [{'op': 'return', 'expr': {'lit': 'inner-result'}}]}
            body = prog['body']
            last = len(body) - (1 if body and body[-1]['op'] in ('return', 'raise') else 0)
            body.insert(irng.randrange(last + 1), {'op': 'inner_op'})
    rng = ctx.rng
    idx = 0
    for pi, prog in enumerate(progs):
        pls = fr.all_placements(prog, pairs=True, max_pairs=30 if ctx.quick else 500, rng=random.Random(pi))
        # recording switched on AGAIN (it already is) at some step of the operation: an idempotent call of the host's settings sync
        pls += [{pos: 'reenable'} for pos, op_, dn in fr.dry_trace(prog) if pos[0] == 'main'][:4]
        # every second program runs all its placements one after the other on ONE recorder (same thread): the property holds
        # for every recording the recorder starts, whatever happened in earlier runs (interrupts, discards, failed saves)
        session = None
        if pi % 2 == 0:
            from playback.tape_recorder import TapeRecorder
            from vlib.cassettes import open_box
            from vlib.spies import SpyCassette, SpyRandom
            cm = open_box(rng.choice(['memory', 'memory', 'file', 's3']))
            box = cm.__enter__()
            spy = SpyCassette(box.cassette)
            rec = TapeRecorder(spy)
            rec._random = SpyRandom(5)
            rec.enable_recording()
            session = (cm, box, spy, rec)
        try:
            for faults in pls:
                idx += 1
                if not ctx.mine(idx):
                    continue
                cfg = {'extractor': rng.choice([None, None, 'ok', 'raises', 'junk_pairs']), 'fail_save': rng.random() < 0.15,
                       'rate': rng.choice([None, None, None, 0, 0.5]),
                       'caller_context': fr.CALLER_CONTEXTS[idx % 9] if idx % 9 < 4 else 'plain'}
                if idx % 11 == 5:
                    cfg['extractor'] = 'discards'       # the metadata extractor itself asks for the recording to be discarded (after the fact)
                    ctx.count('runs_whose_extractor_discards')
                if idx % 6 == 4:
                    cfg['verbose'] = True      # DEBUG logging on; the service object and some captured values cannot be printed by the framework
                    ctx.count('runs_with_debug_logging_and_unprintable_values')
                if session is None:
                    cfg['kind'] = rng.choice(['memory', 'memory', 'file', 's3'])
                    res = fr.execute(prog, faults, with_twin=False, **cfg)
                else:
                    res = fr.execute(prog, faults, with_twin=False, recorder=session[3], spy=session[2], box=session[1], **cfg)
                    ctx.count('runs_on_a_recorder_with_history')
                try:
                    w = {'gen_seed': prog['gen_seed'], 'program': describe(prog), 'faults': fr.faults_json(faults), 'config': cfg,
                         'shared_recorder': session is not None}
                    ctx.case({'p': prog['gen_seed'], 'f': fr.faults_json(faults), 'c': cfg}, nontrivial=any(e[0] == 'create' for e in res.spy_events))
                    for _, k in res.live.fault_log:
                        ctx.count('fault_' + k)
                    judge(ctx, res, w)
                finally:
                    fr.close(res)
        finally:
            if session is not None:
                session[0].__exit__(None, None, None)
    ctx.sample({'program': describe(progs[0]), 'example_placement': fr.faults_json(fr.all_placements(progs[0], pairs=False)[1])})
    if not ctx.counters.get('finalisations_checked'):
        ctx.inconclusive('no finalisation was observed')


def replay(ctx, w):
    if w.get('framework_error_in_body'):
        return framework_errors_inside_bodies(ctx)
    if w.get('interception_inside_a_data_handler'):
        return interceptions_inside_data_handlers(ctx)
    from vlib.programs import gen_program
    o = dict(threads=False, max_steps=5, max_in_decls=3, max_out_decls=2, explicit_raise=0.1, raise_rate=0.1)
    prog = gen_program(random.Random(w['gen_seed']), **o)
    prog['gen_seed'] = w['gen_seed']
    res = fr.execute(prog, {tuple(k): v for k, v in w['faults']}, with_twin=False, **w['config'])
    try:
        judge(ctx, res, w)
    finally:
        fr.close(res)
