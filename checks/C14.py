"""C14 Metadata filter matching is total and means what is documented.

Monitor: every call of TapeCassette.match_against_recorded_metadata made by the workload is wrapped; the oracle
is the reference matcher of vlib.refmodels.  Refuted by: the matcher raising, answering differently on a repeated
call, or disagreeing with the reference; a listing aborted by one odd recording.
"""
import copy
import itertools
import json

from vlib import env
from vlib.refmodels import ref_match, UNSPEC
from vlib.cassettes import open_box

PROPERTY = 'C14'
LEVEL = 'exploration'
RULE = ('exhaustive core: every 1-key filter over (27 atoms + all lists of <=2 atoms + nested lists) x 19 recorded '
        'values, every 2-key filter over atoms x atoms against a 19x5 metadata grid; then seeded random filters / '
        'metadata; then listings on memory/file/S3 cassettes over heterogeneous metadata. A case is the pair '
        '(filter, metadata); it is non-trivial when the filter has at least one key (all are). distinct = distinct '
        '(filter, metadata) pairs by canonical JSON.')
ASSUMPTIONS = ['reference matcher vlib.refmodels.ref_match written from the property statement; cases it marks '
               'unspecified ({operator: "=", value: None} against a missing value) are only checked for totality and '
               'determinism', 'fnmatch of the standard library is the meaning of "shell-style pattern" (POSIX: case-sensitive)']

ABSENT = '<<absent>>'


def op(o, v):
    return {'operator': o, 'value': v}


ATOMS = [None, True, False, 0, 1, 5, 2.5, 'a', 'a*', '?', '[ab]*', 'a[bc]', '[!b]b', '[[]', '5', '', {'x': 1}, {},
         op('=', 5), op('<', 5), op('<=', 5), op('>', 5), op('>=', 'a'), op('!=', 5),
         {'operator': '<'}, op('<', None), op('=', None), op(['<', '>'], 5), op({'not': '<'}, 5), 0.3, 1.0, 9007199254740992.0]
RECORDED = [ABSENT, None, True, False, 0, 5, 7, 2.5, 'a', 'ab', 'ac', 'a[bc]', '[', '5', '', [1], ['a'], {'x': 1},
            {'py/type': 'vlib.values.Obj'}, 0.30000000000000004, 1.0000000000000002, 2 ** 53 + 1, 10 ** 400, -10 ** 400]


def _md(key, rv):
    return {} if rv is ABSENT else {key: rv}


def judge(ctx, matcher, flt, md, where):
    """Run the real matcher twice, compare with the reference."""
    desc = {'filter': flt, 'metadata': md}
    ctx.case(desc)
    ctx.count('matcher_calls', 2)
    try:
        a = matcher(flt, md)
        b = matcher(flt, md)
    except Exception as ex:
        ctx.violation('matcher raised %s: %s (%s)' % (type(ex).__name__, ex, where), desc)
        ctx.count('raised')
        return
    if a is not b and a != b:
        ctx.violation('matcher not deterministic: %r then %r' % (a, b), desc)
        return
    exp = ref_match(flt, md)
    if exp == UNSPEC:
        ctx.count('unspecified_by_reference')
        return
    ctx.count('compared_with_reference')
    ctx.count('expected_match' if exp else 'expected_no_match')
    if bool(a) != exp or not isinstance(a, bool):
        ctx.violation('matcher answered %r, reference says %r (%s)' % (a, exp, where), desc)


def gen_filter_value(rng, depth=2):
    r = rng.random()
    if r < 0.5 or depth == 0:
        c = rng.randrange(6)
        if c == 0:
            return rng.choice(ATOMS)
        if c == 1:
            return rng.choice([rng.randrange(-3, 10), rng.random() * 10, str(rng.randrange(10))])
        if c == 2:
            return ''.join(rng.choice('ab5*?[]!-') for _ in range(rng.randrange(0, 5)))
        if c == 3:
            return op(rng.choice(['=', '<', '<=', '>', '>=', '==', '', None, 5]), gen_filter_value(rng, 0) if rng.random() < 0.3
                      else rng.choice([None, 0, 5, 2.5, 'a', 'b', True, [1], {'x': 1}]))
        if c == 4:
            return rng.choice([None, True, False])
        return rng.choice([{'x': 1}, {'operator': '='}, {'value': 1}, [], {}])
    return [gen_filter_value(rng, depth - 1) for _ in range(rng.randrange(0, 4))]


def gen_recorded(rng):
    c = rng.randrange(8)
    if c == 0:
        return ABSENT
    if c == 1:
        return rng.choice(RECORDED[1:])
    if c == 2:
        return rng.randrange(-3, 10)
    if c == 3:
        return ''.join(rng.choice('ab5*?[]') for _ in range(rng.randrange(0, 4)))
    if c == 4:
        return rng.random() * 10
    if c == 5:
        return [rng.randrange(3)]
    if c == 6:
        return {'x': rng.randrange(3)}
    return rng.choice([True, False, None])


def run(ctx):
    from playback.tape_cassette import TapeCassette
    matcher = env.anchor(TapeCassette, 'match_against_recorded_metadata')

    # ---- exhaustive core -----------------------------------------------------------------------------
    values = list(ATOMS) + [[a] for a in ATOMS] + [[a, b] for a, b in itertools.product(ATOMS, ATOMS)]
    values += [[[a], b] for a, b in itertools.product(ATOMS[:8] + ATOMS[15:18], ATOMS[:6])] + [[], [[]], [[], [5]]]
    idx = 0
    for fv in values:
        for rv in RECORDED:
            idx += 1
            if not ctx.mine(idx):
                continue
            judge(ctx, matcher, {'k': fv}, _md('k', rv), 'core-1key')
    second_vals = [ABSENT, None, 5, 'a', {'x': 1}]
    for f1, f2 in itertools.product(ATOMS, ATOMS):
        for r1 in RECORDED:
            for r2 in second_vals:
                idx += 1
                if not ctx.mine(idx):
                    continue
                md = _md('k', r1)
                md.update(_md('j', r2))
                judge(ctx, matcher, {'k': f1, 'j': f2}, md, 'core-2key')
    # the same list OBJECT as the alternatives of two keys, and twice inside one alternative list (a constant reused by the caller)
    for alts in [[a] for a in ATOMS] + [['a*', 5], [None, 'a'], [op('<', 5), 'a[bc]'], [[5], 'a']]:
        for r1 in RECORDED:
            for r2 in second_vals + ['ab', 7]:
                idx += 1
                if not ctx.mine(idx):
                    continue
                md = _md('k', r1)
                md.update(_md('j', r2))
                judge(ctx, matcher, {'k': alts, 'j': alts}, md, 'core-shared-list')
                judge(ctx, matcher, {'k': [alts, alts], 'j': [[alts], alts]}, md, 'core-shared-nested-list')
                ctx.count('filters_sharing_a_list_object', 2)
    # numbers that do not order (NaN compares False with everything, itself included), infinities and the negative zero, as recorded
    # values and as operator values, alone and inside lists of alternatives
    odd = [float('nan'), float('inf'), float('-inf'), -0.0, 0.0, 5, 5.0, 2.5]
    for o in ('=', '<', '<=', '>', '>=', '!='):
        for fvn in odd:
            for rvn in odd + [None, ABSENT, 'a', [float('nan')]]:
                idx += 1
                if not ctx.mine(idx):
                    continue
                judge(ctx, matcher, {'k': op(o, fvn)}, _md('k', rvn), 'core-unordered-numbers')
                judge(ctx, matcher, {'k': [op(o, fvn), 'zzz']}, _md('k', rvn), 'core-unordered-numbers')
                ctx.count('filters_with_unordered_numbers', 2)
    for fvn in odd:
        for rvn in odd:
            idx += 1
            if ctx.mine(idx):
                judge(ctx, matcher, {'k': fvn}, _md('k', rvn), 'core-unordered-numbers')
                judge(ctx, matcher, {'k': [fvn, None]}, _md('k', rvn), 'core-unordered-numbers')
    # keys are opaque names: a dotted key is a key, not a path into nested metadata
    for fv in ATOMS + [[None], [False, None], [1, None]]:
        for md in ({'k': {'x': 1}}, {'k': {'x': None}}, {'k.x': 1, 'k': {'x': 2}}, {'k': {'x': {'y': 'a'}}}, {}):
            for key in ('k.x', 'k.x.y'):
                idx += 1
                if ctx.mine(idx):
                    judge(ctx, matcher, {key: fv}, md, 'core-dotted-key')
    # filter values that are instances of SUBCLASSES of list / dict / str (an OrderedDict operator object, a str-mixin enum member as
    # pattern, a list subclass of alternatives): they mean what their base type means
    import collections
    import enum

    class Alts(list):
        pass

    class Text(str):
        pass

    class Env(str, enum.Enum):
        ANY_A = 'a*'
        FIVE = '5'

    def oop(o, v):
        return collections.OrderedDict([('operator', o), ('value', v)])
    sub_values = [Alts(['a*', 5]), Alts([None, 'a']), Alts([]), Alts([Alts(['a[bc]']), 7]), oop('<', 5), oop('>=', 'a'), oop('=', 5), collections.defaultdict(int, operator='<=', value=5),
                  Text('a*'), Text('a[bc]'), Text('5'), Text(''), Env.ANY_A, Env.FIVE, [Text('a?'), oop('>', 5)], Alts([oop('<', 5), Text('a*')]), collections.OrderedDict(x=1)]
    for fv in sub_values:
        for rv in RECORDED:
            idx += 1
            if ctx.mine(idx):
                judge(ctx, matcher, {'k': fv}, _md('k', rv), 'core-subclass-values')
                ctx.count('filter_values_of_subclasses')
    # byte strings on either side (a digest, a raw token): a bytes filter value is a plain value (equality), text patterns only match text
    byte_filters = [b'abc', b'a*c', b'v[1]', b'', [b'abc', 'a*'], [b'zz', None], op('=', b'abc'), op('<', b'b'), 'a*c', 'abc', '*']
    byte_recorded = [b'abc', b'a*c', b'v[1]', b'', 'abc', 'a*c', None, 5, [b'abc'], ABSENT]
    for fv in byte_filters:
        for rv in byte_recorded:
            idx += 1
            if ctx.mine(idx):
                judge(ctx, matcher, {'k': fv}, _md('k', rv), 'core-bytes')
                ctx.count('filters_or_values_that_are_bytes')
    # the host runs with the framework's loggers at DEBUG: the answers are the same
    with env.debug_logging():
        for fv in ATOMS + [[a] for a in ATOMS[18:24]]:
            for rv in RECORDED:
                idx += 1
                if ctx.mine(idx):
                    judge(ctx, matcher, {'k': fv, 'j': op('>', 3)}, dict(_md('k', rv), j=rv if rv is not ABSENT else 'text'), 'core-debug-logging')
                    ctx.count('matcher_calls_with_debug_logging')
    ctx.note('exhaustive_core_cases', idx)
    ctx.exhaustive = True  # of the stated core universe; random part below goes beyond

    # ---- random beyond the core ---------------------------------------------------------------------
    n = ctx.budget(5000, 500000)
    rng = ctx.rng
    for _ in range(n):
        keys = rng.sample(['k', 'j', 'm'], rng.randrange(1, 4))
        flt = {k: gen_filter_value(rng) for k in keys}
        if len(keys) > 1 and rng.random() < 0.15:
            shared = gen_filter_value(rng)
            for k in keys:
                flt[k] = shared if rng.random() < 0.6 else [shared, gen_filter_value(rng, 1)]
            ctx.count('filters_sharing_a_list_object')
        md = {}
        for k in ['k', 'j', 'm', 'z']:
            rv = gen_recorded(rng)
            if rv is not ABSENT:
                md[k] = rv
        judge(ctx, matcher, flt, md, 'random')

    # ---- one filter object used, modified in place, used again (a script doing query['customer'] = next_customer) ---------------
    main_rng = rng
    import random as _random
    rng = _random.Random(ctx.seed * 7919 + ctx.shard + 4211)      # (its own stream: the parts below keep the programs they always had)
    for i in range(ctx.budget(400, 20000)):
        flt = {k: gen_filter_value(rng) for k in rng.sample(['k', 'j', 'm'], rng.randrange(1, 3))}
        md = {}
        for k in ['k', 'j', 'm']:
            rv = gen_recorded(rng)
            if rv is not ABSENT:
                md[k] = rv
        judge(ctx, matcher, flt, md, 'reused-filter-object')
        for step in range(3):
            r = rng.random()
            if r < 0.4 and flt:
                flt[rng.choice(sorted(flt))] = gen_filter_value(rng)        # another value under the same key
            elif r < 0.7:
                flt[rng.choice(['k', 'j', 'm', 'z'])] = gen_filter_value(rng)
            elif len(flt) > 1:
                del flt[rng.choice(sorted(flt))]
            else:
                v = flt[sorted(flt)[0]]
                if isinstance(v, list):
                    v.append(gen_filter_value(rng, 0))                 # an alternative added to the list the filter holds
                else:
                    flt['m'] = None
            judge(ctx, matcher, flt, md, 'reused-filter-object-after-change')
            ctx.count('matches_with_a_filter_object_changed_in_place')
    rng = main_rng

    # ---- listings through every cassette --------------------------------------------------------------
    nl = ctx.budget(12, 2000)
    for li in range(nl):
        listing_case(ctx, rng, li)

    if ctx.shard == 0:
        hostile_text_listings(ctx)
    concurrent_matching(ctx, matcher)
    ctx.sample({'filter': {'k': ['a*', op('<', 5)]}, 'metadata': {'k': 'ab'}, 'reference': ref_match({'k': ['a*', op('<', 5)]}, {'k': 'ab'})})
    ctx.sample({'filter': {'k': op('<', 5)}, 'metadata': {}, 'reference': ref_match({'k': op('<', 5)}, {})})
    ctx.sample({'filter': {'k': 'a*'}, 'metadata': {'k': 5}, 'reference': ref_match({'k': 'a*'}, {'k': 5})})


def concurrent_matching(ctx, matcher):
    """Matching is a function of (filter, metadata): several threads matching at the same time (listings run from worker threads)
    after the process has already seen hundreds of distinct patterns must still get the reference answer and never an exception.
    Explored with the deterministic scheduler at line granularity of playback/tape_cassette.py."""
    from vlib import sched as S
    import playback.tape_cassette as tc
    for i in range(300):                      # a long-lived process has matched many distinct patterns before
        matcher({'k': 'warm-%d-*' % i}, {'k': 'warm-%d-x' % i})
    jobs = [[({'k': 'ab*'}, {'k': 'abc'}), ({'k': 'n%d?' % 1}, {'k': 'n1x'}), ({'k': ['zz*', 'q[ab]']}, {'k': 'qa'})],
            [({'k': 'fresh-*'}, {'k': 'fresh-1'}), ({'k': 'x?z'}, {'k': 'xyz'}), ({'k': 'ab*'}, {'k': 'xb'})]]
    holder = {'n': 0, 'pf': 0, 'capacity': None}

    def containers():
        """Process-wide containers of the matcher's module / class (e.g. a cache of compiled patterns), observed from outside."""
        out = []
        for owner in (tc.TapeCassette, tc):
            for k, v in list(vars(owner).items()):
                if isinstance(v, (dict, list, set)) and not k.startswith('__'):
                    out.append(v)
                elif hasattr(v, 'cache_info'):
                    out.append(v)
        return out

    def size(c):
        return c.cache_info().currsize if hasattr(c, 'cache_info') else len(c)

    def bring_caches_to_the_brink():
        """If matching never-seen patterns makes some process-wide container grow and, at some size, shrink again (a bounded cache
        that is emptied when full), leave it two entries short of that size: the execution's own new patterns then hit the limit
        while the threads are interleaved. Costs at most ~2 x capacity matcher calls; does nothing when there is no such container."""
        cs = containers()
        if not cs:
            return
        for _ in range(1200):
            before = [size(c) for c in cs]
            if holder['capacity'] is not None and any(b == holder['capacity'] - 2 for b in before):
                return
            holder['pf'] += 1
            matcher({'k': 'pf-%d-*' % holder['pf']}, {'k': 'pf-%d-x' % holder['pf']})
            after = [size(c) for c in cs]
            if not any(a != b for a, b in zip(after, before)):
                return                      # nothing process-wide remembers patterns
            for a, b in zip(after, before):
                if a < b:
                    holder['capacity'] = b + 0      # emptied when it held b entries and one more arrived
                    ctx.count('bounded_cache_wraps_observed')

    def make(sched):
        results = {}
        holder['results'] = results
        holder['n'] += 1          # every execution uses patterns never seen before: a bounded pattern cache of any capacity wraps
        bring_caches_to_the_brink()

        def worker(i):
            def fn():
                for n, (flt, md) in enumerate(jobs[i]):
                    try:
                        tag = 't%d-%d-%d' % (i, n, holder['n'])
                        results[(i, n)] = ('ok', matcher(dict(flt, u=tag + '*'), dict(md, u=tag + '!')))
                    except Exception as ex:
                        results[(i, n)] = ('raised', repr(ex))
            return fn

        def main():
            ths = [sched.Thread(target=worker(i), name='matcher%d' % i) for i in range(2)]
            for t in ths:
                t.start()
            for t in ths:
                t.join()
        return main

    def on_run(rec, desc):
        ctx.case(rec.trace, nontrivial=len(rec.points) > 0)
        ctx.count('concurrent_matching_schedules')
        w = {'concurrent_matching': True, 'schedule': desc if isinstance(desc, tuple) else list(desc)}
        if rec.aborted or rec.error is not None:
            ctx.violation('concurrent matching: %s' % (rec.aborted or repr(rec.error))[:100], w)
            return
        for (i, n), (st, val) in holder['results'].items():
            flt, md = jobs[i][n]
            exp = ref_match(flt, md)
            if st != 'ok':
                ctx.violation('matcher raised under concurrent use: %s' % val[:80], dict(w, filter=flt))
                return
            if bool(val) != exp:
                ctx.violation('matcher answered %r under concurrent use, reference says %r' % (val, exp), dict(w, filter=flt, metadata=md))
                return
    runs, complete = S.explore_dfs(make, [tc.__file__], 1, on_run, max_runs=900 if ctx.quick else 3000,
                                   shard=(ctx.shard, ctx.nshards) if ctx.nshards > 1 else None)
    S.explore_random(make, [tc.__file__], ctx.budget(900, 6000), ctx.rng, on_run)


def listing_case(ctx, rng, li):
    """Heterogeneous metadata saved on a cassette; a listing must never raise and must equal the reference
    applied to the view of the metadata that cassette matches against (S3: JSON view of the encoded metadata)."""
    from jsonpickle import encode
    from vlib.values import Obj
    kind = ('memory', 'file', 's3')[li % 3]
    prefix = rng.choice(['', 'p', 'p/q'])
    mds = []
    for _ in range(rng.randrange(2, 8)):
        md = {}
        for k in ['k', 'j']:
            rv = gen_recorded(rng)
            if isinstance(rv, dict) and any(str(x).startswith('py/') for x in rv):
                continue        # a dict that spells the serializer's own vocabulary is outside its faithful domain when STORED
            if rv is not ABSENT:
                md[k] = rv
        if rng.random() < 0.3:
            md['cls'] = Obj          # a class reference, like the operation class the recorder stores
        if rng.random() < 0.2:
            md['t'] = (1, 'a')
        if rng.random() < 0.35:
            # the recorder stores live objects: the extractor may return the very list an intercepted input returned, or put one
            # list under two keys - the stored recording then holds that object more than once
            L = rng.choice([[1], ['a'], [rng.randrange(3)], ['ab', 5]])
            for k in rng.sample(['k', 'j'], rng.randrange(1, 3)):
                md[k] = L
            md['__shared_with_data__'] = L
        mds.append(md)
    with open_box(kind, prefix=prefix) as box:
        saved = []
        for md in mds:
            rec = box.cassette.create_new_recording('Cat')
            L = md.pop('__shared_with_data__', None)
            if L is not None:
                rec.set_data('input: rows args=[], kwargs=[]', {'value': [L, {'again': L}]})
                ctx.count('listings_with_metadata_object_shared_with_data')
            rec.add_metadata(md)
            box.cassette.save_recording(rec)
            view = json.loads(encode(md, unpicklable=True)) if kind == 's3' else copy.deepcopy(md)
            saved.append((rec.id, view))
        # the application goes on using the objects it put into the metadata (a request context, a params dict reused per request):
        # what was SAVED is what lookups match against
        for md in mds:
            for k, v in list(md.items()):
                if isinstance(v, list):
                    v.append('changed-after-save')
                elif isinstance(v, dict):
                    v['changed-after-save'] = True
            md['k'] = 'overwritten-after-save'
        ctx.count('metadata_objects_mutated_after_save', len(mds))
        reader = box.reader()

        def matching_filter():
            """A filter taken from what one of the recordings holds (so that it matches something)."""
            cands = [(v, k) for _, v in saved for k in ('k', 'j') if k in v and not isinstance(v[k], list)]
            if not cands:
                return {'k': gen_filter_value(rng)}
            dicts = [c for c in cands if isinstance(c[0][c[1]], dict)]
            v, k = rng.choice(dicts if dicts and rng.random() < 0.6 else cands)
            return {k: copy.deepcopy(v[k])}
        for qi in range(8):
            flt = {k: gen_filter_value(rng) for k in rng.sample(['k', 'j', 'cls', 't'], rng.randrange(1, 3))}
            if qi >= 6:
                flt = matching_filter()
            desc = {'cassette': kind, 'prefix': prefix, 'metadata': mds, 'filter': flt}
            ctx.case(desc)
            ctx.count('listings')
            try:
                got = list(reader.iter_recording_ids('Cat', metadata=flt))
            except Exception as ex:
                ctx.violation('listing on %s cassette aborted by %s: %s' % (kind, type(ex).__name__, ex), desc)
                continue
            must = set(rid for rid, v in saved if ref_match(flt, v) is True)
            may = set(rid for rid, v in saved if ref_match(flt, v) == UNSPEC)
            if not (must <= set(got) <= (must | may)) or len(got) != len(set(got)):
                ctx.violation('listing on %s cassette returned %d ids, reference %d (+%d unspecified)' % (
                    kind, len(got), len(must), len(may)), desc)
            ctx.count('listing_ids_compared', len(saved))
        if kind == 'file' and saved:
            # a recording file is replaced behind the back of the long-lived cassette object (restored from a backup, re-labelled by
            # another process) and keeps its modification time (cp -p / rsync -t / coarse timestamps): lookups match what is stored NOW
            import os
            from playback.recordings.memory.memory_recording import MemoryRecording
            from playback.tape_cassettes.file_based.file_based_tape_cassette import FileBasedTapeCassette
            rid, old_view = saved[0]
            path = reader._get_recording_file_path(rid)
            st = os.stat(path)
            r2 = MemoryRecording(rid)
            r2.add_metadata({'k': 'relabelled', 'j': 7})
            FileBasedTapeCassette(reader.directory).save_recording(r2)
            os.utime(path, (st.st_atime, st.st_mtime))
            saved[0] = (rid, {'k': 'relabelled', 'j': 7})
            ctx.count('recording_files_replaced_keeping_their_mtime')
            for flt in ({'k': 'relabelled'}, {'j': 7}, {k: copy.deepcopy(v) for k, v in old_view.items() if k in ('k', 'j') and not isinstance(v, list)} or {'k': 'x'}):
                desc = {'cassette': kind, 'replaced_file': True, 'filter': flt}
                ctx.case(desc)
                try:
                    got = list(reader.iter_recording_ids('Cat', metadata=flt))
                except Exception as ex:
                    ctx.violation('listing on file cassette aborted by %s after a recording file was replaced' % type(ex).__name__, desc)
                    continue
                must = set(r for r, v in saved if ref_match(flt, v) is True)
                may = set(r for r, v in saved if ref_match(flt, v) == UNSPEC)
                if not (must <= set(got) <= (must | may)):
                    ctx.violation('listing on a long-lived file cassette still matches the metadata a replaced recording file held before', desc)
        # two lazily evaluated lookups with different filters in flight on ONE cassette object, consumed alternately
        for _ in range(3):
            flts = [matching_filter(), rng.choice([None, matching_filter(), {'k': gen_filter_value(rng)}])]
            desc = {'cassette': kind, 'prefix': prefix, 'metadata': [v for _, v in saved], 'filters_in_flight': flts}
            ctx.case(desc)
            ctx.count('interleaved_filtered_listings')
            try:
                gens = [iter(reader.iter_recording_ids('Cat', metadata=f)) for f in flts]
                got = [[], []]
                alive = [0, 1]
                while alive:
                    g = rng.choice(alive)
                    try:
                        got[g].append(next(gens[g]))
                    except StopIteration:
                        alive.remove(g)
            except Exception as ex:
                ctx.violation('interleaved listings on %s cassette aborted by %s: %s' % (kind, type(ex).__name__, ex), desc)
                continue
            for g in (0, 1):
                f = flts[g]
                must = set(rid for rid, v in saved if f is None or ref_match(f, v) is True)
                may = set(rid for rid, v in saved if f is not None and ref_match(f, v) == UNSPEC)
                if not (must <= set(got[g]) <= (must | may)) or len(got[g]) != len(set(got[g])):
                    ctx.violation('a listing consumed while another listing (other filter) of the same %s cassette was in flight returned %d ids, reference %d' % (
                        kind, len(got[g]), len(must)), dict(desc, listing=g))


HOSTILE_TEXTS = [u'M\u00fcller GmbH', u'say "hi"', u"it's", u'back\\slash', u'line\nbreak', u'tab\there', u'\u65e5\u672c', u'a\u2028b', u'a/b', u'emoji \U0001f600', u'<&>', u'%20',
                 u'null', u'true', u'5', u'caf\u00e9', u'cafe\u0301', u'\\u00e9', u'{"k": 1}', u' padded ', u'', u'\x7f', u'\u00a0', u'a\\"b']


def hostile_text_listings(ctx):
    """Plain text filters (no pattern characters) with non-ASCII characters, quotes, backslashes, control characters: on every cassette
    a text selects exactly the recordings that hold it."""
    for kind, prefix in (('memory', ''), ('file', ''), ('s3', ''), ('s3', 'p/q')):
        with open_box(kind, prefix=prefix) as box:
            saved = []
            for i, t in enumerate(HOSTILE_TEXTS):
                rec = box.cassette.create_new_recording('Cat')
                md = {'subject': t, 'other': HOSTILE_TEXTS[(i + 1) % len(HOSTILE_TEXTS)], 'n': i}
                rec.add_metadata(md)
                box.cassette.save_recording(rec)
                saved.append((rec.id, md))
            reader = box.reader()
            for i, t in enumerate(HOSTILE_TEXTS):
                for flt in ({'subject': t}, {'subject': [t, None]}, {'subject': t, 'n': i}, {'other': t}, {'subject': ['no such text', t]}):
                    desc = {'cassette': kind, 'prefix': prefix, 'hostile_text_filter': flt}
                    ctx.case(desc)
                    ctx.count('hostile_text_listings')
                    try:
                        got = set(reader.iter_recording_ids('Cat', metadata=flt))
                    except Exception as ex:
                        ctx.violation('listing on %s cassette aborted by %s: %s' % (kind, type(ex).__name__, str(ex)[:100]), desc)
                        continue
                    must = set(rid for rid, v in saved if ref_match(flt, v) is True)
                    if got != must:
                        ctx.violation('listing with a plain text filter on %s cassette returned %d ids, reference %d' % (kind, len(got), len(must)), desc)


def replay(ctx, witness):
    if 'hostile_text_filter' in witness:
        return hostile_text_listings(ctx)
    from playback.tape_cassette import TapeCassette
    if 'cassette' in witness:
        print('listing witness; re-run the check with the same VERIF_SEED to reproduce')
        return
    judge(ctx, TapeCassette.match_against_recorded_metadata, witness['filter'], witness['metadata'], 'replay')
