"""C20 File interception preserves file bytes and honours the size limit.

Byte-exact monitor over a full trip: service -> file data handlers -> recorder -> cassette -> replay in another
directory.  The harness wrote the files and knows their bytes; an open() audit hook shows whether playback ever opened
an above-limit file for reading.
"""
import os
import random
import shutil
import tempfile

from vlib import env
from vlib.cassettes import open_box
from vlib.spies import SpyCassette, OpenAudit

PROPERTY = 'C20'
LEVEL = 'exploration'
RULE = ('full trips (input file handler on an instance/static input + output file handler on an instance/static output, path positional or by keyword, '
        'recorded in one directory and replayed in another, memory/file/S3 cassette) over contents {empty, all 256 byte values, CR/LF mixes, text equal to the '
        'placeholder, random binary} and sizes limit-1 / limit / limit+1 bytes with the limit given explicitly in fractional MB (byte exact) and via '
        'PLAYBACK_INTERCEPTED_FILE_SIZE_LIMIT=1 (1 MiB +- 1 byte). A case = one trip; distinct = hash of (content hash, size, limit form, shapes, cassette); '
        'non-trivial = all.')
ASSUMPTIONS = ['the input key must not contain the path for a replay in another directory: the input is declared with capture_args=[] as a user would',
               'in the above-limit trips the service itself never opens the input/output file for reading, so every read-open of them seen by the audit hook is playback\'s']

MIB = 1024 * 1024


CONTENT_KINDS = ['zlib_of_random', 'zlib_of_text', 'gzip', 'bz2', 'base64_text', 'json_text', 'b64_tagged_json', 'base64_of_placeholder', 'zlib_of_zlib',
                 'zlib_prefix_then_garbage', 'utf16_text', 'raw_deflate']


def contents_of_kind(rng, kind):
    """Files whose own bytes are already some encoding / compression of something else (a git object, a .zz payload, an export that is
    base64 or JSON text): the framework stores and restores THESE bytes, it does not interpret them."""
    import base64
    import bz2
    import gzip
    import json as _json
    import zlib
    rnd = bytes(rng.randrange(256) for _ in range(rng.randrange(200, 4000)))
    text = (b'row %d;' % rng.randrange(1000)) * rng.randrange(50, 400)
    if kind == 'zlib_of_random':
        return zlib.compress(rnd)
    if kind == 'zlib_of_text':
        return zlib.compress(text)
    if kind == 'gzip':
        return gzip.compress(rnd)
    if kind == 'bz2':
        return bz2.compress(text)
    if kind == 'base64_text':
        return base64.b64encode(rnd)
    if kind == 'json_text':
        return _json.dumps({'file_content': 'abc', 'rows': [1, 2, 3]}).encode()
    if kind == 'b64_tagged_json':
        return _json.dumps({'py/b64': base64.b64encode(b'not what you think').decode()}).encode()
    if kind == 'base64_of_placeholder':
        return base64.b64encode(b'above interception limit')
    if kind == 'zlib_of_zlib':
        return zlib.compress(zlib.compress(rnd))
    if kind == 'zlib_prefix_then_garbage':
        return zlib.compress(rnd) + b'trailing bytes after the stream'
    if kind == 'utf16_text':
        return u'text \u00e9 \u65e5\u672c'.encode('utf-16')
    if kind == 'raw_deflate':
        c = zlib.compressobj(9, zlib.DEFLATED, -15)
        return c.compress(rnd) + c.flush()
    raise ValueError(kind)


def contents(rng, size=None, kind=None):
    if kind is not None:
        return contents_of_kind(rng, kind)
    if size is not None:
        base = bytes(rng.randrange(256) for _ in range(1024))
        return (base * (size // 1024 + 1))[:size]
    c = rng.randrange(7)
    if c == 0:
        return b''
    if c == 1:
        return bytes(range(256))
    if c == 2:
        return b'line1\r\nline2\nline3\rline4\n\n\r\n'
    if c == 3:
        return b'above interception limit'
    if c == 4:
        return bytes(rng.randrange(256) for _ in range(rng.randrange(1, 3000)))
    if c == 5:
        return 'text é 日本  '.encode('utf-8')
    return b'\x00' * rng.randrange(1, 50) + b'\xff\xfe'


def trip(ctx, case):
    from playback.tape_recorder import TapeRecorder
    from playback.interception.files.input_file_interception import InputInterceptionFileDataHandler
    from playback.interception.files.output_file_interception import OutputInterceptionFileDataHandler
    from playback.interception.files.file_interception import FileInterception
    rng = random.Random(case['seed'])
    content = contents(rng, case.get('size'), case.get('content_kind'))
    static_in, static_out, kw_in, kw_out = case['static_in'], case['static_out'], case['kw_in'], case['kw_out']
    limit_mb = case.get('limit_mb')
    above = case.get('above', False)
    placeholder = FileInterception.ABOVE_LIMIT_CONTENT
    w = dict(case, content_len=len(content))
    old_env = os.environ.get('PLAYBACK_INTERCEPTED_FILE_SIZE_LIMIT')
    if case.get('env_limit') is not None:
        os.environ['PLAYBACK_INTERCEPTED_FILE_SIZE_LIMIT'] = str(case['env_limit'])
    dir_a = tempfile.mkdtemp(prefix='vp-c20a-')
    dir_b = tempfile.mkdtemp(prefix='vp-c20b-')
    audit = OpenAudit.get()
    cwd0 = os.getcwd()
    try:
        with open_box(case['cassette']) as box:
            spy = SpyCassette(box.cassette)
            rec = TapeRecorder(spy)
            rec.enable_recording()
            kw = {} if limit_mb is None else {'intercepted_size_limit': limit_mb}
            in_cls, out_cls = InputInterceptionFileDataHandler, OutputInterceptionFileDataHandler
            if case.get('derived_handlers'):
                # the service's own subclasses of the handlers, with class attributes of their own (one is named like a constant of the base)
                in_cls = type('ServiceInputFiles', (in_cls,), {'ABOVE_LIMIT_CONTENT': b'SKIPPED=', 'CHUNK': 4096})
                out_cls = type('ServiceOutputFiles', (out_cls,), {'ABOVE_LIMIT_CONTENT': b'SKIPPED=', 'CHUNK': 4096})
            in_handler = in_cls(0 if static_in else 1, 'file_path', **kw)
            out_handler = out_cls(0, 'file_path', **kw)
            if case.get('relimit') is not None:
                # handlers are created where the decorators are evaluated (import time); a service that learns its limit later sets the
                # public attribute of the existing handlers
                in_handler.intercepted_size_limit = out_handler.intercepted_size_limit = case['relimit']
            state = {'mode': 'live', 'fetch_bodies': 0, 'publish_bodies': 0}

            def fetch_body(file_path):
                state['fetch_bodies'] += 1
                with open(file_path, 'wb') as f:      # the external system delivers the file
                    f.write(content)
                if case.get('returns_sidecar'):
                    # ... and reports the checksum file it wrote next to it (another existing file) as its result
                    with open(file_path + '.sha256', 'wb') as f:
                        f.write(b'0123456789abcdef  ' + os.path.basename(file_path).encode())
                    return file_path + '.sha256'
                return file_path

            def publish_body(file_path):
                state['publish_bodies'] += 1
                return 'published'

            symlinked = bool(case.get('symlinked_path'))
            relative = bool(case.get('relative_path'))
            cap = {} if relative else {'capture_args': []}        # with a relative path the path argument is part of the key (same text in both runs)

            def layout(workdir):
                """-> (path passed for the input, path passed for the output, where the input physically lives)."""
                if symlinked:
                    # <work>/current is a symlink to <work>/releases/v1: 'current/../shared' is <work>/releases/shared for the OS
                    for sub in ('releases/v1', 'releases/shared'):
                        if not os.path.isdir(os.path.join(workdir, sub)):
                            os.makedirs(os.path.join(workdir, sub))
                    if not os.path.islink(os.path.join(workdir, 'current')):
                        os.symlink(os.path.join(workdir, 'releases', 'v1'), os.path.join(workdir, 'current'))
                    return (os.path.join(workdir, 'current', '..', 'shared', 'in.bin'), os.path.join(workdir, 'current', '..', 'shared', 'out.bin'),
                            os.path.join(workdir, 'releases', 'shared', 'in.bin'))
                if case.get('brace_path'):
                    # file names with format-string metacharacters
                    a_, b_ = {1: ('in{0}.bin', 'out}.bin'), 2: ('{tenant}-in.bin', 'out{.bin'), 3: ('in{{x}}.bin', '{6F96}.bin')}[case['brace_path']]
                    return (os.path.join(workdir, a_), os.path.join(workdir, b_), os.path.join(workdir, a_))
                if relative:
                    return ('in.bin', 'out.bin', os.path.join(workdir, 'in.bin'))
                return (os.path.join(workdir, 'in.bin'), os.path.join(workdir, 'out.bin'), os.path.join(workdir, 'in.bin'))

            def fetch_deco(alias, fallback=None):
                fkw = dict(cap, data_handler=in_handler)
                if fallback is not None:
                    fkw['fallback_aliases'] = fallback
                if static_in:
                    return staticmethod(rec.static_intercept_input(alias, **fkw)(lambda file_path: fetch_body(file_path)))
                return rec.intercept_input(alias, **fkw)(lambda self, file_path: fetch_body(file_path))
            ns = {}
            ns['fetch'] = fetch_deco('files.fetch')
            if static_out:
                ns['publish'] = staticmethod(rec.static_intercept_output('files.publish', data_handler=out_handler)(lambda file_path: publish_body(file_path)))
            else:
                ns['publish'] = rec.intercept_output('files.publish', data_handler=out_handler)(lambda self, file_path: publish_body(file_path))

            def execute(self, workdir):
                src, dst, _phys = layout(workdir)
                if relative:
                    os.chdir(workdir)
                got = self.fetch(file_path=src) if kw_in else self.fetch(src)
                if case.get('returns_sidecar'):
                    got = src                     # the service reads the file it asked for, the reported sidecar is only logged
                if above:
                    data = content                # the service does not read huge files itself in this scenario
                else:
                    with open(got, 'rb') as f:
                        data = f.read()
                with open(dst, 'wb') as f:
                    f.write(data)
                res = self.publish(file_path=dst) if kw_out else self.publish(dst)
                return (len(data), res)
            ns['execute'] = rec.operation()(execute)
            from vlib import genclasses
            cls = genclasses.register(type('FileOp%d' % (case['seed'] % 100000), (object,), ns))
            if case['seed'] % 3 == 0:
                # the class also asks for copy-on-interception (two features that are each used alone elsewhere)
                from playback.tape_recorder import RecordingParameters
                rec.recording_params(RecordingParameters(copy_data_on_intercepion=True))(cls)
                ctx.count('trips_with_copy_on_interception')
            audit.start()
            live_result = cls().execute(dir_a)
            opened = audit.stop()
            saves = [e for e in spy.log if e[0] == 'save']
            if len(saves) != 1 or any(e[0] == 'save_failed' for e in spy.log):
                ctx.violation('file trip was not saved', dict(w, spy=[e[0] for e in spy.log]))
                return
            if above:
                reads = [(p, m) for p, m in opened if p.startswith(dir_a) and isinstance(m, str) and 'r' in m and 'w' not in m]
                ctx.count('above_limit_trips')
                if reads:
                    ctx.violation('a file above the size limit was opened for reading while recording', dict(w, opened=reads[:3]))
            # ---- replay in another directory --------------------------------------------------------
            rec2 = TapeRecorder(box.reader())
            state['mode'] = 'replay'
            fb, pb_ = state['fetch_bodies'], state['publish_bodies']

            replay_cls = cls
            if case.get('renamed_input'):
                # the replayed code version renamed the input and names the old alias as fallback (a list, or a function returning one)
                old_names = ['files.fetch'] if case['renamed_input'] == 'list' else (lambda *a, **k: ['files.fetch'])
                ns2 = dict(ns, fetch=fetch_deco('files.download', fallback=old_names))
                ns2['execute'] = rec.operation()(execute)
                replay_cls = type('FileOp%d' % (case['seed'] % 100000), (object,), ns2)
                ctx.count('trips_replayed_through_a_fallback_alias')

            def playback_function(recording):
                return replay_cls().execute(dir_b)
            audit.start()
            try:
                playback = rec.play(saves[0][2], playback_function) if case['same_recorder'] else None
                if playback is None:
                    # a fresh recorder: the decorators are bound to `rec`, so point it at the reader cassette instead
                    rec.tape_cassette = box.reader()
                    playback = rec.play(saves[0][2], playback_function)
            except Exception as ex:
                audit.stop()
                ctx.violation('replaying the file trip on unchanged code failed with %s' % type(ex).__name__, dict(w, error=repr(ex)[:200]))
                return
            opened_b = audit.stop()
            if state['fetch_bodies'] != fb or state['publish_bodies'] != pb_:
                ctx.violation('intercepted body executed during replay', w)
            restored_path = layout(dir_b)[2]
            expected_in = placeholder if above else content
            try:
                with open(restored_path, 'rb') as f:
                    restored = f.read()
            except IOError:
                restored = None
            ctx.count('input_files_compared')
            if restored != expected_in:
                ctx.violation('file restored at the path named by the replayed call differs from %s' % ('the placeholder' if above else 'the recorded bytes'),
                              dict(w, restored_len=None if restored is None else len(restored), restored_head=repr((restored or b'')[:40])))
            if os.path.exists(layout(dir_a)[2]) and open(layout(dir_a)[2], 'rb').read() != content:
                ctx.violation('replay modified the originally recorded file', w)
            # outputs: recorded and replayed holder content
            for which, outs, sent in (('recorded_outputs', playback.recorded_outputs, content),
                                      ('playback_outputs', playback.playback_outputs, content if not above else content)):
                ent = [o for o in outs if 'files.publish' in o.key]
                if len(ent) != 1:
                    ctx.violation('%s holds %d entries for the file output' % (which, len(ent)), w)
                    continue
                holder = out_handler.restore_output_from_recording(ent[0].value)
                try:
                    again = out_handler.restore_output_from_recording(ent[0].value)      # (comparison code restores an output as often as it likes)
                    if again.file_content != holder.file_content:
                        ctx.violation('restoring the %s file output a second time gives other content' % which, w)
                except Exception as ex:
                    ctx.violation('restoring the %s file output a second time raised %s (the first restore consumed the captured entry)' % (which, type(ex).__name__), w)
                exp = placeholder if above else sent
                ctx.count('output_holders_compared')
                if holder.file_content != exp:
                    ctx.violation('holder content of the %s file output differs from %s' % (which, 'the placeholder' if above else 'the bytes sent'),
                                  dict(w, got_len=len(holder.file_content) if holder.file_content is not None else None, head=repr(holder.file_content[:40])))
                exp_path = layout(dir_a if which == 'recorded_outputs' else dir_b)[1]
                if holder.output_file_path != exp_path:
                    ctx.violation('holder path of the %s file output is not the path the code sent' % which, dict(w, got=holder.output_file_path))
                tgt = os.path.join(dir_b, 'holder.bin')
                holder.to_file(tgt)
                if open(tgt, 'rb').read() != exp:
                    ctx.violation('holder.to_file wrote other bytes', w)
                for n_export in (2, 3):
                    # the same holder is exported again (once into a diff folder, once more into a report folder)
                    tgt2 = os.path.join(dir_b, 'holder-export-%d.bin' % n_export)
                    holder.to_file(tgt2)
                    if open(tgt2, 'rb').read() != exp:
                        ctx.violation('export number %d of the same output holder wrote other bytes than the first' % n_export, w)
                        break
            if above:
                reads = [(p, m) for p, m in opened_b if (p.startswith(dir_b) or not os.path.isabs(p)) and p.endswith('out.bin') and isinstance(m, str) and 'r' in m and 'w' not in m]
                if reads:
                    ctx.violation('a file above the size limit was opened for reading while replaying', dict(w, opened=reads[:3]))
            if not above:
                # at or below the limit the recording must hold the real bytes, not the placeholder
                rv = [o for o in playback.recorded_outputs if 'files.publish' in o.key][0].value
                if rv.get('file_content') == placeholder and content != placeholder:
                    ctx.violation('a file at or below the limit is represented by the placeholder', w)
    finally:
        os.chdir(cwd0)
        shutil.rmtree(dir_a, ignore_errors=True)
        shutil.rmtree(dir_b, ignore_errors=True)
        if case.get('env_limit') is not None:
            if old_env is None:
                del os.environ['PLAYBACK_INTERCEPTED_FILE_SIZE_LIMIT']
            else:
                os.environ['PLAYBACK_INTERCEPTED_FILE_SIZE_LIMIT'] = old_env


def trip_rounds(ctx, case):
    """Several rounds through the SAME handler objects and the SAME paths inside one operation: each round delivers other bytes of
    the same length, and the file keeps the same modification time (tools that preserve mtimes, coarse timestamps). During replay
    the target directory already holds longer left-over files at those paths."""
    from playback.tape_recorder import TapeRecorder, CapturedArg
    from playback.interception.files.input_file_interception import InputInterceptionFileDataHandler
    from playback.interception.files.output_file_interception import OutputInterceptionFileDataHandler
    from vlib import genclasses
    rng = random.Random(case['seed'])
    n = case['rounds']
    size = case['size']
    contents = [contents_fixed(rng, size if not case['shrinking'] else max(0, size - 7 * i)) for i in range(n)]
    same_key = case.get('same_key', False)
    if same_key:
        contents = [contents[0]] * n        # the very same call (same key, same delivered bytes) is made in every round
    w = dict(case)
    dir_a = tempfile.mkdtemp(prefix='vp-c20a-')
    dir_b = tempfile.mkdtemp(prefix='vp-c20b-')
    try:
        with open_box(case['cassette']) as box:
            rec = TapeRecorder(SpyCassette(box.cassette))
            rec.enable_recording()
            static = case['static_in']
            in_handler = InputInterceptionFileDataHandler(0 if static else 1, 'file_path')
            out_handler = OutputInterceptionFileDataHandler(0, 'file_path')
            bodies = [0]

            def fetch_body(file_path, round_no):
                bodies[0] += 1
                with open(file_path, 'wb') as f:
                    f.write(contents[round_no])
                os.utime(file_path, (1700000000, 1700000000))     # same mtime every round
                return file_path
            ns = {}
            if static:
                ns['fetch'] = staticmethod(rec.static_intercept_input('files.fetch', data_handler=in_handler, capture_args=[] if same_key else [CapturedArg(1, 'round_no')])(
                    lambda file_path, round_no: fetch_body(file_path, round_no)))
            else:
                ns['fetch'] = rec.intercept_input('files.fetch', data_handler=in_handler, capture_args=[] if same_key else [CapturedArg(2, 'round_no')])(
                    lambda self, file_path, round_no: fetch_body(file_path, round_no))
            ns['publish'] = rec.intercept_output('files.publish', data_handler=out_handler)(lambda self, file_path: 'ok')
            seen = []

            def execute(self, workdir):
                src, dst = os.path.join(workdir, 'in.bin'), os.path.join(workdir, 'out.bin')
                for i in range(n):
                    got = self.fetch(src, i)
                    with open(got, 'rb') as f:
                        data = f.read()
                    seen.append(data)
                    with open(dst, 'wb') as f:
                        f.write(data)
                    os.utime(dst, (1700000000, 1700000000))
                    self.publish(dst)
                    if same_key:
                        # the operation consumes its scratch file: removes it or overwrites it before it asks for it again
                        if (case['seed'] + i) % 2:
                            os.remove(src)
                        else:
                            with open(src, 'wb') as f:
                                f.write(b'processed')
                return n
            ns['execute'] = rec.operation()(execute)
            cls = genclasses.register(type('FileRounds%d' % (case['seed'] % 100000), (object,), ns))
            cls().execute(dir_a)
            saves = [e for e in rec.tape_cassette.log if e[0] == 'save']
            if len(saves) != 1 or any(e[0] == 'save_failed' for e in rec.tape_cassette.log):
                ctx.violation('file rounds trip was not saved', w)
                return
            if seen != contents:
                ctx.violation('harness error: live run read other bytes', w)
                return
            # left-over, longer files at the replay paths
            for name in ('in.bin', 'out.bin'):
                with open(os.path.join(dir_b, name), 'wb') as f:
                    f.write(b'LEFTOVER' * (size // 4 + 10))
            del seen[:]
            nb = bodies[0]
            rec.tape_cassette = box.reader()
            pb = rec.play(saves[0][2], lambda recording: cls().execute(dir_b))
            if bodies[0] != nb:
                ctx.violation('intercepted body executed during replay', w)
            ctx.count('round_files_compared', n)
            for i in range(n):
                if i >= len(seen) or seen[i] != contents[i]:
                    got = seen[i] if i < len(seen) else None
                    ctx.violation('round %d of %d: file restored at the replayed path differs from the recorded bytes (%s)' % (
                        i + 1, n, 'old tail of a longer left-over file kept' if got and got.startswith(contents[i]) and len(got) > len(contents[i]) else
                        ('bytes of another round' if got in contents else 'other bytes')), dict(w, round=i, got_len=None if got is None else len(got)))
                    break
            for which, outs in (('recorded_outputs', pb.recorded_outputs), ('playback_outputs', pb.playback_outputs)):
                ent = sorted([o for o in outs if 'files.publish' in o.key], key=lambda o: int(o.key.split('#')[1].split('.')[0]))
                if len(ent) != n:
                    ctx.violation('%s holds %d file output entries for %d calls' % (which, len(ent), n), w)
                    continue
                for i, o in enumerate(ent):
                    ctx.count('round_holders_compared')
                    if out_handler.restore_output_from_recording(o.value).file_content != contents[i]:
                        ctx.violation('round %d: holder content of the %s file output differs from the bytes sent' % (i + 1, which), dict(w, round=i))
                        break
    finally:
        shutil.rmtree(dir_a, ignore_errors=True)
        shutil.rmtree(dir_b, ignore_errors=True)


def trip_threads(ctx, quick):
    """Worker threads inside one operation fetch and publish files of different sizes through the SAME decorated functions (one
    handler object per decorated function, shared by every caller). Explored with the deterministic scheduler, preemption points on
    the lines of the file handlers; afterwards the recording is replayed and every file compared byte for byte."""
    from vlib import sched as S
    from vlib import genclasses
    from playback.tape_recorder import TapeRecorder, CapturedArg
    from playback.interception.files.input_file_interception import InputInterceptionFileDataHandler
    from playback.interception.files.output_file_interception import OutputInterceptionFileDataHandler
    import playback.interception.files.file_interception as fi
    import playback.interception.files.input_file_interception as ifi
    import playback.interception.files.output_file_interception as ofi
    tg = [fi.__file__, ifi.__file__, ofi.__file__]
    rng = random.Random(ctx.seed * 77 + 5)
    for variant in range(2 if quick else 6):
        sizes = [(3000, 10), (10, 3000), (500, 499), (0, 64), (4096, 4097), (1, 2)][variant]
        contents = [contents_fixed(rng, n) for n in sizes]
        static = variant % 2 == 1
        limit = {} if variant % 3 else {'intercepted_size_limit': 1}
        with open_box('memory') as box:
            spy = SpyCassette(box.cassette)
            rec = TapeRecorder(spy)
            rec.enable_recording()
            in_handler = InputInterceptionFileDataHandler(0 if static else 1, 'file_path', **limit)
            out_handler = OutputInterceptionFileDataHandler(0, 'file_path', **limit)

            def fetch_body(file_path, who):
                with open(file_path, 'wb') as f:
                    f.write(contents[who])
                return file_path
            ns = {}
            if static:
                ns['fetch'] = staticmethod(rec.static_intercept_input('files.fetch', data_handler=in_handler, capture_args=[CapturedArg(1, 'who')])(
                    lambda file_path, who: fetch_body(file_path, who)))
            else:
                ns['fetch'] = rec.intercept_input('files.fetch', data_handler=in_handler, capture_args=[CapturedArg(2, 'who')])(
                    lambda self, file_path, who: fetch_body(file_path, who))
            ns['publish'] = rec.intercept_output('files.publish%d' % 0, data_handler=out_handler)(lambda self, file_path: 'ok')
            ns['publish1'] = rec.intercept_output('files.publish%d' % 1, data_handler=out_handler)(lambda self, file_path: 'ok')
            holder = {}

            def execute(self, workdir, thread_cls):
                seen = holder['seen']

                def worker(who):
                    src = os.path.join(workdir, 'in%d.bin' % who)
                    dst = os.path.join(workdir, 'out%d.bin' % who)
                    got = self.fetch(src, who)
                    with open(got, 'rb') as f:
                        data = f.read()
                    seen[who] = data
                    with open(dst, 'wb') as f:
                        f.write(data)
                    (self.publish if who == 0 else self.publish1)(dst)
                if thread_cls is None:
                    for who in range(2):
                        worker(who)
                else:
                    ths = [thread_cls(target=worker, args=(who,), name='w%d' % who) for who in range(2)]
                    for t in ths:
                        t.start()
                    for t in ths:
                        t.join()
                return 2
            ns['execute'] = rec.operation()(execute)
            cls = genclasses.register(type('FileThreads%d_%d' % (ctx.seed % 1000, variant), (object,), ns))
            dirs = []

            def make(sched):
                d = tempfile.mkdtemp(prefix='vp-c20t-')
                dirs.append(d)
                holder['seen'] = {}
                holder['dir'] = d

                def main():
                    cls().execute(d, sched.Thread)
                return main

            def on_run(r, desc):
                ctx.case({'threads': True, 'variant': variant, 'trace': r.trace}, nontrivial=len(r.points) > 0)
                ctx.count('threaded_file_schedules')
                w = {'kind': 'threads', 'variant': variant, 'sizes': list(sizes), 'schedule': desc if isinstance(desc, tuple) else list(desc)}
                try:
                    if r.aborted or r.error is not None:
                        if r.aborted and 'budget' in r.aborted:
                            ctx.count('schedules_over_step_budget')
                            return
                        ctx.violation('threaded file trip: %s' % (r.aborted or repr(r.error))[:120], w)
                        return
                    saves = [e for e in spy.log if e[0] == 'save']
                    if not saves:
                        ctx.violation('threaded file trip was not saved', w)
                        return
                    rid = saves[-1][2]
                    live_seen = dict(holder['seen'])
                    for who in range(2):
                        if live_seen.get(who) != contents[who]:
                            ctx.violation('harness error: live worker read other bytes', w)
                            return
                    d2 = tempfile.mkdtemp(prefix='vp-c20t-')
                    dirs.append(d2)
                    holder['seen'] = {}
                    pb = rec.play(rid, lambda recording: cls().execute(d2, None))
                    for who in range(2):
                        ctx.count('threaded_files_compared')
                        got = holder['seen'].get(who)
                        if got != contents[who]:
                            ctx.violation('file recorded while another thread used the same handler is not restored byte-identically (%s)' % (
                                'truncated' if got is not None and contents[who].startswith(got) else 'other bytes'),
                                dict(w, who=who, want_len=len(contents[who]), got_len=None if got is None else len(got)))
                            return
                    for which, outs in (('recorded_outputs', pb.recorded_outputs), ('playback_outputs', pb.playback_outputs)):
                        for who in range(2):
                            ent = [o for o in outs if 'files.publish%d' % who in o.key]
                            if len(ent) != 1 or out_handler.restore_output_from_recording(ent[0].value).file_content != contents[who]:
                                ctx.violation('holder content of a %s file output written by a worker thread differs from the bytes sent' % which, dict(w, who=who))
                                return
                finally:
                    while dirs:
                        shutil.rmtree(dirs.pop(), ignore_errors=True)
            if quick:
                S.explore_dfs(make, tg, 1, on_run, max_runs=150, step_budget=50000)
            else:
                S.explore_dfs(make, tg, 2, on_run, max_runs=1500, step_budget=50000)
                S.explore_random(make, tg, 150, ctx.rng, on_run, step_budget=50000)


def holder_threads(ctx, quick):
    """One holder of a recorded output file is read by several threads at once (an export worker next to the comparing thread):
    every reader gets the file's bytes. Deterministic scheduler, preemption points in the file handler modules (and base64)."""
    from vlib import sched as S
    import base64
    from playback.interception.files.output_file_interception import OutputInterceptionFileDataHandler
    import playback.interception.files.file_interception as fi
    import playback.interception.files.output_file_interception as ofi
    tg = [fi.__file__, ofi.__file__, base64.__file__]
    rng = random.Random(ctx.seed + 99)
    d = tempfile.mkdtemp(prefix='vp-c20h-')
    try:
        for size in ((300, 5000) if quick else (0, 1, 300, 5000, 70000)):
            content = contents_fixed(rng, size)
            src = os.path.join(d, 'out.bin')
            with open(src, 'wb') as f:
                f.write(content)
            handler = OutputInterceptionFileDataHandler(0, 'file_path')
            recorded = handler.prepare_output_for_recording('output: files.publish #1', (src,), {})
            holderbox = {}

            # a captured output is restored as often as the comparison code likes (once per extractor call, once more to look at it)
            try:
                first = handler.restore_output_from_recording(recorded).file_content
                second = handler.restore_output_from_recording(recorded).file_content
            except Exception as ex:
                ctx.violation('restoring the same recorded file output a second time raised %s (the restore consumed the recorded entry)' % type(ex).__name__,
                              {'kind': 'holder_threads', 'size': size})
                continue
            if first != content or second != content:
                ctx.violation('restoring the same recorded file output twice does not give the file bytes both times', {'kind': 'holder_threads', 'size': size})
                continue

            def make(sched):
                holder = handler.restore_output_from_recording(recorded)
                got = {}
                holderbox.update(got=got)

                def reader(i):
                    def fn():
                        if i == 0:
                            got[i] = holder.file_content
                        else:
                            tgt = os.path.join(d, 'export%d.bin' % i)
                            holder.to_file(tgt)
                            with open(tgt, 'rb') as f:
                                got[i] = f.read()
                    return fn

                def main():
                    ths = [sched.Thread(target=reader(i), name='reader%d' % i) for i in range(2)]
                    for t in ths:
                        t.start()
                    for t in ths:
                        t.join()
                return main

            def on_run(r, desc):
                ctx.case(('holder_threads', size, r.trace), nontrivial=len(r.points) > 0)
                ctx.count('holder_read_schedules')
                w = {'kind': 'holder_threads', 'size': size, 'schedule': desc if isinstance(desc, tuple) else list(desc)}
                if r.aborted or r.error is not None:
                    if r.error is not None:
                        ctx.violation('reading an output holder from two threads raised %s' % type(r.error).__name__, dict(w, error=repr(r.error)[:200]))
                    return
                for i, v in holderbox['got'].items():
                    if v != content:
                        ctx.violation('an output holder read by two threads at once handed %s to one of them instead of the file bytes' % (
                            'the encoded text' if isinstance(v, (bytes, str)) and len(v) > len(content) else 'other content'), dict(w, reader=i))
                        return
            S.explore_dfs(make, tg, 1, on_run, max_runs=80 if quick else 3000, step_budget=100000)
            S.explore_random(make, tg, 20 if quick else 500, ctx.rng, on_run, step_budget=100000)
    finally:
        shutil.rmtree(d, ignore_errors=True)


def capture_faults(ctx):
    """The file a handler is to capture cannot be read after all: the path is a directory (a multi-part download), the file vanishes
    between the size check and the read (the service's own clean-up thread), or the read fails with EIO. Whatever the framework does -
    drop the recording or keep it - a file that is not above the limit is never represented by the placeholder, and a recording that
    is kept replays what the service got."""
    import builtins
    import errno
    from playback.tape_recorder import TapeRecorder
    from playback.interception.files.input_file_interception import InputInterceptionFileDataHandler
    from playback.interception.files.output_file_interception import OutputInterceptionFileDataHandler
    from playback.interception.files.file_interception import FileInterception
    placeholder = FileInterception.ABOVE_LIMIT_CONTENT
    for kind in ('memory', 'file', 's3'):
        for io_kind in ('input', 'output'):
            for fault in ('directory', 'vanishes_after_size_check', 'read_fails_eio', 'none'):
                d = tempfile.mkdtemp(prefix='vp-c20f-')
                try:
                    with open_box(kind) as box:
                        spy = SpyCassette(box.cassette)
                        rec = TapeRecorder(spy)
                        rec.enable_recording()
                        in_handler = InputInterceptionFileDataHandler(1, 'file_path', intercepted_size_limit=1)
                        out_handler = OutputInterceptionFileDataHandler(0, 'file_path', intercepted_size_limit=1)
                        content = b'payload of the file: ' + bytes(range(200))
                        target = os.path.join(d, 'parts' if fault == 'directory' else 'data.bin')
                        armed = {'on': False}

                        class Svc(object):
                            @rec.intercept_input('files.fetch', data_handler=in_handler, capture_args=[])
                            def fetch(self, file_path):
                                if fault == 'directory':
                                    os.makedirs(file_path)
                                    with open(os.path.join(file_path, 'part-0'), 'wb') as f:
                                        f.write(content)
                                else:
                                    with open(file_path, 'wb') as f:
                                        f.write(content)
                                armed['on'] = True
                                return file_path

                            @rec.intercept_output('files.publish', data_handler=out_handler)
                            def publish(self, file_path):
                                return 'published'

                            @rec.operation()
                            def run(self, path):
                                if io_kind == 'input':
                                    try:
                                        got = self.fetch(path)
                                    finally:
                                        armed['on'] = False
                                    return ('fetched', os.path.isdir(got) or os.path.exists(got))
                                if fault == 'directory':
                                    os.makedirs(path)
                                else:
                                    with open(path, 'wb') as f:
                                        f.write(content)
                                armed['on'] = True
                                try:
                                    return self.publish(path)
                                finally:
                                    armed['on'] = False
                        real_getsize, real_open = os.path.getsize, builtins.open

                        def getsize(pth):
                            n = real_getsize(pth)
                            if armed['on'] and fault == 'vanishes_after_size_check' and pth == target:
                                os.remove(pth)
                            return n

                        def opener(pth, mode='r', *a, **k):
                            if armed['on'] and fault == 'read_fails_eio' and pth == target and 'r' in mode:
                                raise OSError(errno.EIO, 'Input/output error (injected)', pth)
                            return real_open(pth, mode, *a, **k)
                        os.path.getsize, builtins.open = getsize, opener
                        try:
                            try:
                                Svc().run(target)
                            except Exception as ex:
                                ctx.count('capture_fault_runs_ending_in_' + type(ex).__name__)
                        finally:
                            os.path.getsize, builtins.open = real_getsize, real_open
                        w = {'kind': 'capture_faults', 'cassette': kind, 'handler': io_kind, 'fault': fault}
                        ctx.case(w)
                        ctx.count('capture_fault_runs')
                        saves = [e for e in spy.log if e[0] == 'save' and not (e[4] or {}).get(TapeRecorder.INCOMPLETE_RECORDING)]
                        if not saves:
                            ctx.count('capture_fault_runs_not_saved')
                            if fault == 'none':
                                ctx.violation('a fault-free file trip was not saved', w)
                            continue
                        ctx.count('capture_fault_runs_saved')
                        got = box.reader().get_recording(saves[0][2])
                        for key in got.get_all_keys():
                            v = got.get_data(key)
                            entry = v.get('value', v) if isinstance(v, dict) else None
                            if 'files.' in key and isinstance(entry, dict) and 'file_content' in entry:
                                ctx.count('recorded_file_entries_inspected')
                                fc = entry['file_content']
                                if fc in (placeholder, placeholder.decode() if isinstance(placeholder, bytes) else placeholder.encode()):
                                    ctx.violation('a path that is not a file above the size limit is represented by the placeholder in a saved, complete recording',
                                                  dict(w, key=key))
                        if fault == 'none':
                            ctx.count('input_files_compared')
                finally:
                    shutil.rmtree(d, ignore_errors=True)


def files_whose_size_is_not_their_content(ctx):
    """Files whose stat size under-reports what reading them yields (kernel-generated files: /proc/version, /proc/sys/kernel/ostype -
    st_size 0, content not empty): what an output file handler captures is the bytes the file yields when read, as for any file."""
    from playback.tape_recorder import TapeRecorder
    from playback.interception.files.output_file_interception import OutputInterceptionFileDataHandler
    paths = []
    for cand in ('/proc/version', '/proc/sys/kernel/ostype', '/proc/sys/kernel/osrelease', '/proc/filesystems'):
        try:
            with open(cand, 'rb') as f:
                a = f.read()
            with open(cand, 'rb') as f:
                b = f.read()
            if a and a == b and os.stat(cand).st_size < len(a):
                paths.append((cand, a))
        except (IOError, OSError):
            pass
    if not paths:
        ctx.count('no_file_with_an_under_reported_size_on_this_host')
        return
    for kind in ('memory', 'file', 's3'):
        for path, content in paths:
            for how in ('positional', 'keyword'):
                with open_box(kind) as box:
                    spy = SpyCassette(box.cassette)
                    rec = TapeRecorder(spy)
                    rec.enable_recording()
                    out_handler = OutputInterceptionFileDataHandler(0, 'file_path', intercepted_size_limit=1)

                    class Svc(object):
                        @rec.intercept_output('files.publish', data_handler=out_handler)
                        def publish(self, file_path):
                            return 'published'

                        @rec.operation()
                        def run(self, pth):
                            return self.publish(pth) if how == 'positional' else self.publish(file_path=pth)
                    Svc().run(path)
                    w = {'kind': 'size_is_not_content', 'cassette': kind, 'path': path, 'passed': how}
                    ctx.case(w)
                    ctx.count('files_with_an_under_reported_size_published')
                    saves = [e for e in spy.log if e[0] == 'save' and not (e[4] or {}).get(TapeRecorder.INCOMPLETE_RECORDING)]
                    if not saves:
                        ctx.count('under_reported_size_runs_not_saved')
                        continue
                    rec.tape_cassette = box.reader()
                    pb = rec.play(saves[0][2], lambda recording: Svc().run(path))
                    for side, outs in (('recorded', pb.recorded_outputs), ('replayed', pb.playback_outputs)):
                        ent = [o for o in outs if 'files.publish' in o.key]
                        got = out_handler.restore_output_from_recording(ent[0].value).file_content if len(ent) == 1 else None
                        ctx.count('input_files_compared')
                        if got != content:
                            ctx.violation('the %s output of a file whose stat size is smaller than its content holds %s instead of the %d bytes the file yields' % (
                                side, 'nothing' if got is None else '%d bytes' % len(got), len(content)), w)


def optimised_interpreter(ctx):
    """The same trips with the interpreter's optimisation switched on (python -O: assert statements are compiled away), as services started
    with PYTHONOPTIMIZE are: a handful of trips in a child interpreter, its violations are reported here."""
    import json
    import subprocess
    import sys
    code = ("import sys, json; sys.path.insert(0, %r); from vlib import env; env.bootstrap(); from checks import C20; import random; "
            "ctx = env.Ctx('C20', 'exploration', 'quick', 0); rng = random.Random(5); "
            "[C20.trip(ctx, dict(C20.shapes(rng), seed=900 + i, cassette=('memory', 'file', 's3')[i %% 3], **extra)) for i, extra in enumerate("
            "[{}, {}, {}, {'size': 2000, 'limit_mb': 1024 / float(C20.MIB), 'above': True}, {'size': 10240}, {'content_kind': 'zlib_of_text'}])]; "
            "print('SUB ' + json.dumps({'violations': [v['what'] for v in ctx.violations], 'compared': ctx.counters.get('input_files_compared', 0), 'optimised': not __debug__}))") % env.VERIF
    try:
        p = subprocess.run([sys.executable, '-O', '-c', code], stdout=subprocess.PIPE, stderr=subprocess.PIPE, text=True, timeout=600,
                           env=dict(os.environ, VERIF_REPO=env.REPO, PYTHONHASHSEED='0'))
        res = json.loads([l for l in p.stdout.splitlines() if l.startswith('SUB ')][-1][4:])
    except Exception as ex:
        ctx.inconclusive('trips under python -O did not report: %r' % (ex,))
        return
    ctx.case(('optimised_interpreter', res['compared']))
    ctx.count('trips_under_python_O', res['compared'])
    if not res['optimised'] or not res['compared']:
        ctx.inconclusive('the child interpreter did not run optimised trips')
    for what in res['violations'][:3]:
        ctx.violation('with interpreter optimisation on (python -O): ' + what, {'kind': 'optimised_interpreter'})


def contents_fixed(rng, size):
    return bytes(rng.randrange(256) for _ in range(size))


def shapes(rng):
    return {'static_in': rng.random() < 0.5, 'static_out': rng.random() < 0.5, 'kw_in': rng.random() < 0.5, 'kw_out': rng.random() < 0.5,
            'cassette': rng.choice(['memory', 'file', 's3']), 'same_recorder': rng.random() < 0.5}


def run(ctx):
    rng = ctx.rng
    base = ctx.seed * 1000003 + ctx.shard * 1000000
    n = ctx.budget(200, 5000)
    idx = 0
    # boundary sizes with byte-exact explicit limits
    for L in ([1024, 4096] if ctx.quick else [1, 1024, 4096, 65536, 3 * 1024 + 1]):
        for delta in (-1, 0, 1):
            for rep in range(2 if ctx.quick else 6):
                idx += 1
                if not ctx.mine(idx):
                    continue
                size = L + delta
                case = dict(shapes(rng), seed=base + idx, size=size, limit_mb=L / float(MIB), above=delta > 0, boundary='explicit %d%+d' % (L, delta))
                ctx.case(case)
                ctx.count('boundary_trips')
                trip(ctx, case)
    # an explicit limit of zero: "never capture content" - every non-empty file is strictly above it, the empty file is not
    for lim in (0, 0.0):
        for size in (0, 1, 300):
            for env_limit in (None, 2):
                idx += 1
                if not ctx.mine(idx):
                    continue
                case = dict(shapes(rng), seed=base + idx, size=size, limit_mb=lim, above=size > 0, boundary='explicit zero limit %r, %d bytes' % (lim, size))
                if env_limit is not None:
                    case['env_limit'] = env_limit
                ctx.case(case)
                ctx.count('zero_limit_trips')
                trip(ctx, case)
    # environment variable limit: 1 MiB +- 1 byte
    for delta in (-1, 0, 1):
        idx += 1
        if ctx.mine(idx):
            case = dict(shapes(rng), seed=base + idx, size=MIB + delta, env_limit=1, above=delta > 0, boundary='env 1MiB%+d' % delta)
            ctx.case(case)
            ctx.count('env_limit_trips')
            trip(ctx, case)
    # files larger than 1 MiB that are still within the limit (chunked reading / encoding must not lose anything)
    # just above every power of two from 4 KiB to 16 MiB (a chunk size somebody might pick), plus odd sizes
    ladder = [2 ** k + 1 for k in ((13, 16, 20, 22) if ctx.quick else range(12, 25))]
    for size in (ladder + [2 * MIB + 12345] if ctx.quick else ladder + [MIB + 3, 2 * MIB, 2 * MIB + 12345, 3 * MIB + 1, 5 * MIB - 1]):
        idx += 1
        if ctx.mine(idx):
            case = dict(shapes(rng), seed=base + idx, size=size, limit_mb=rng.choice([20, 500]), boundary='large %d' % size)
            ctx.case(case)
            ctx.count('large_file_trips')
            trip(ctx, case)
    # files that are themselves encoded / compressed data, on every cassette
    for ki, kind in enumerate(CONTENT_KINDS):
        for ci, cassette in enumerate(['memory', 'file', 's3']):
            idx += 1
            if ctx.mine(idx) and (not ctx.quick or (ki + ci) % 3 == 0 or kind.startswith('zlib')):
                case = dict(shapes(rng), seed=base + idx, content_kind=kind, cassette=cassette)
                ctx.case(case)
                ctx.count('encoded_content_trips')
                trip(ctx, case)
    # the input function reports ANOTHER existing file as its result; the service's own handler subclasses
    for vi, extra in enumerate([{'returns_sidecar': True}, {'returns_sidecar': True, 'size': 4097, 'limit_mb': 4096 / float(MIB), 'above': True},
                                {'derived_handlers': True}, {'derived_handlers': True, 'size': 4097, 'limit_mb': 4096 / float(MIB), 'above': True},
                                {'derived_handlers': True, 'size': 4096, 'limit_mb': 4096 / float(MIB)}]):
        for cassette in ('memory', 'file', 's3'):
            idx += 1
            if ctx.mine(idx) and (not ctx.quick or (vi + idx) % 2 == 0 or extra.get('above')):
                case = dict(shapes(rng), seed=base + idx, cassette=cassette, **extra)
                ctx.case(case)
                ctx.count('sidecar_and_derived_handler_trips')
                trip(ctx, case)
    # file names with braces, below and above the limit
    for bp in (1, 2, 3):
        for extra in ({}, {'size': 4097, 'limit_mb': 4096 / float(MIB), 'above': True}):
            idx += 1
            if ctx.mine(idx):
                case = dict(shapes(rng), seed=base + idx, brace_path=bp, cassette=('memory', 'file', 's3')[(bp + len(extra)) % 3], **extra)
                ctx.case(case)
                ctx.count('brace_path_trips')
                trip(ctx, case)
    # the limit of existing handlers is changed after they were constructed (lowered below / raised above the file size)
    for built_with, now, size in ((1, 1024 / float(MIB), 2000), (1024 / float(MIB), 1, 2000), (None, 1024 / float(MIB), 1025), (1024 / float(MIB), 2048 / float(MIB), 2048),
                                  (5, 0, 10), (0, 5, 10)):
        for rep in range(1 if ctx.quick else 3):
            idx += 1
            if ctx.mine(idx):
                case = dict(shapes(rng), seed=base + idx, size=size, limit_mb=built_with, relimit=now, above=size > now * MIB,
                            boundary='limit %r set to %r after construction, %d bytes' % (built_with, now, size))
                ctx.case(case)
                ctx.count('limit_changed_after_construction_trips')
                trip(ctx, case)
    for i in range(ctx.budget(30, 600)):
        case = {'seed': base + 50000 + i, 'rounds': rng.choice([2, 3]), 'size': rng.choice([0, 1, 17, 300, 5000]), 'shrinking': rng.random() < 0.4,
                'static_in': rng.random() < 0.5, 'cassette': rng.choice(['memory', 'file', 's3']), 'kind': 'rounds', 'same_key': i % 3 == 2}
        ctx.case(case)
        ctx.count('round_trips')
        trip_rounds(ctx, case)
    if ctx.shard == 0:
        trip_threads(ctx, ctx.quick)
        holder_threads(ctx, ctx.quick)
        capture_faults(ctx)
        files_whose_size_is_not_their_content(ctx)
        optimised_interpreter(ctx)
    for i in range(n):
        case = dict(shapes(rng), seed=base + 10000 + i)
        if rng.random() < 0.3:
            case['limit_mb'] = rng.choice([0.5, 1, 500, 0.01])
        if i % 7 == 3:
            case['symlinked_path'] = True      # '<dir>/current/../shared/in.bin' with 'current' a symlink
        elif i % 7 == 5:
            case['relative_path'] = True       # the service runs in its work directory and passes bare file names
        if i % 5 == 1:
            case['renamed_input'] = ('list', 'function')[(i // 5) % 2]
        ctx.case(case)
        ctx.count('content_trips')
        trip(ctx, case)
    ctx.sample({'case': dict(shapes(random.Random(1)), size=1025, limit_mb=1024 / float(MIB), above=True), 'expected': 'placeholder, file never opened for reading'})
    if not ctx.counters.get('input_files_compared'):
        ctx.inconclusive('no file compared')


def replay(ctx, w):
    case = {k: v for k, v in w.items() if k not in ('content_len', 'round', 'got_len')}
    if case.get('kind') == 'rounds':
        return trip_rounds(ctx, case)
    if case.get('kind') == 'capture_faults':
        return capture_faults(ctx)
    if case.get('kind') == 'size_is_not_content':
        return files_whose_size_is_not_their_content(ctx)
    if case.get('kind') == 'optimised_interpreter':
        return optimised_interpreter(ctx)
    if case.get('kind') == 'holder_threads':
        return holder_threads(ctx, ctx.quick)
    if case.get('kind') == 'threads':
        return trip_threads(ctx, ctx.quick)      # the exploration is deterministic: run it again
    trip(ctx, case)
