"""C06 Input lookup keys identify calls by alias and captured argument values only.

Key-equivalence monitor.  Reference equivalence of two input calls: same resolved alias and type-aware-equal captured
argument values (positionally captured and keyword captured kept apart, as documented).  Observed end to end (which
tokened value a replayed call receives) and on Recording.get_all_keys() (number of distinct input keys == number of
inequivalent calls), in the same process and between a recorder process and a replayer process started with
different PYTHONHASHSEED values (file cassette in between).
"""
import json
import os
import random
import shutil
import subprocess
import sys
import tempfile

from vlib import env
from vlib.cassettes import open_box
from vlib.programs import Built, World, Journal, describe, playback_function_for, call_outcome, outcome_teq, canon, clone, Outcome
from vlib.spies import SpyCassette
from vlib.values import recording_in_domain, Obj, Obj2, teq, in_domain, fresh

PROPERTY = 'C06'
LEVEL = 'exploration'
RULE = ('(A) same process: seeded call sets over two decls whose aliases are near misses of each other (prefixes, resolver templates, text " args=") with '
        'near-miss arguments (1/True/1.0/"1", (1,)/[1], {}/[], "a"/b"a", nested permutations, sets, objects), every capture selection, static and instance; '
        'recorded once, then replayed with structurally equal but rebuilt arguments (dict insertion order reversed, sets rebuilt, non-captured arguments '
        'changed) and with never-recorded near misses; (B) cross process: the same seeded programs recorded under PYTHONHASHSEED=s1 into a file cassette and '
        'replayed under s2 != s1. A case = one call set / one program x seed pair; distinct = hash of its description; non-trivial = >= 2 inequivalent calls.')
ASSUMPTIONS = ['positional vs keyword passing of the same parameter is not judged (documented to give different keys)',
               'known finding set-arg-key-depends-on-hashseed: a mismatch whose two keys become equal once every py/set list inside them is sorted']

NEAR = [1, True, 1.0, '1', 0, False, 0.0, -0.0, '', None, 'None', (1,), [1], {}, [], (), 'a', b'a', 'A', {'a': 1}, {'a': True}, {'a': 1, 'b': 2},
        [1, [2]], [[1], 2], 'a"', "a'", ' args=', ', kwargs=', [1, 2], [2, 1], {1, 2}, {'x', 'y', 'zz'}, {('a', 1), ('b', 2)}, Obj(a=1), Obj2(a=1),
        Obj(a=1, b=2), Obj(a=[1]), 10 ** 20, -1, 'é', 'é', [None], [[]], {'k': {}}, {'k': []}, (1, 2), ((1,), 2), b'', b'\x00']
def deep(n, leaf):
    v = leaf
    for i in range(n):
        v = {'d': v} if i % 2 else [v]
    return v


from vlib import values2 as _v2  # noqa: E402
NEAR += [_v2.Obj(a=1), _v2.Obj2(a=1), _v2.Obj(a=[1]), [_v2.Obj(a=1)]]      # same class NAME, other module: other values
NEAR += [deep(40, 1), deep(40, 2), deep(40, {'a': 1, 'b': 2}), deep(33, Obj(a=1)), deep(33, Obj(a=2)), deep(60, 'x'), deep(60, 'y')]
ALIASES = [('x', 'x args='), ('in.a', 'in.a.b'), ('q', 'q '), ('in.{p}', 'in.'), ('a, kwargs=[]', 'a'), ('é', 'e'), ('svc', 'svc#1')]


def rebuild(v, rng):
    """A structurally equal value built differently (other dict insertion order, other set insertion order)."""
    if isinstance(v, dict):
        items = list(v.items())
        items.reverse()
        return {k: rebuild(x, rng) for k, x in items}
    if isinstance(v, list):
        return [rebuild(x, rng) for x in v]
    if isinstance(v, tuple):
        return tuple(rebuild(x, rng) for x in v)
    if isinstance(v, set):
        items = sorted(v, key=canon, reverse=True)
        s = set()
        for x in items:
            s.add(x)
        return s
    if isinstance(v, (Obj, Obj2, _v2.Obj, _v2.Obj2)):
        o = type(v)()
        for k in reversed(list(v.__dict__)):
            o.__dict__[k] = rebuild(v.__dict__[k], rng)
        return o
    return v


def has_multi_set(v):
    if isinstance(v, (set, frozenset)):
        return len(v) >= 2 or any(has_multi_set(x) for x in v)
    if isinstance(v, (list, tuple)):
        return any(has_multi_set(x) for x in v)
    if isinstance(v, dict):
        return any(has_multi_set(x) for x in v.values())
    if hasattr(v, '__dict__') and not isinstance(v, type):
        return has_multi_set(v.__dict__)
    return False


def unshare(v):
    """Structurally equal copy in which no mutable node is reachable twice (every occurrence becomes its own object)."""
    if isinstance(v, dict):
        return {k: unshare(x) for k, x in v.items()}
    if isinstance(v, list):
        return [unshare(x) for x in v]
    if isinstance(v, tuple):
        return tuple(unshare(x) for x in v)
    if isinstance(v, set):
        return set(unshare(x) for x in v)
    if isinstance(v, (Obj, Obj2, _v2.Obj, _v2.Obj2)):
        o = type(v)()
        for k, x in v.__dict__.items():
            o.__dict__[k] = unshare(x)
        return o
    return v


def has_internal_aliasing(v):
    seen = set()
    dup = [False]

    def walk(x):
        if isinstance(x, (list, dict, set)) or isinstance(x, (Obj, Obj2, _v2.Obj, _v2.Obj2)):
            if id(x) in seen:
                dup[0] = True
                return
            seen.add(id(x))
        if isinstance(x, dict):
            for y in x.values():
                walk(y)
        elif isinstance(x, (list, tuple, set)):
            for y in x:
                walk(y)
        elif isinstance(x, (Obj, Obj2, _v2.Obj, _v2.Obj2)):
            walk(x.__dict__)
    walk(v)
    return dup[0]


def _norm_sets(j):
    if isinstance(j, dict):
        if set(j) == {'py/set'} and isinstance(j['py/set'], list):
            return {'py/set': sorted((_norm_sets(x) for x in j['py/set']), key=lambda x: json.dumps(x, sort_keys=True))}
        return {k: _norm_sets(v) for k, v in j.items()}
    if isinstance(j, list):
        return [_norm_sets(x) for x in j]
    return j


def split_key(key, ralias):
    """'input: <alias> args=<json>, kwargs=<json>' -> (args json, kwargs json) or None."""
    head = u'input: %s args=' % ralias
    if not key.startswith(head):
        return None
    dec = json.JSONDecoder()
    try:
        a, end = dec.raw_decode(key, len(head))
        mid = ', kwargs='
        if key[end:end + len(mid)] != mid:
            return None
        k, end2 = dec.raw_decode(key, end + len(mid))
        if end2 != len(key):
            return None
        return a, k
    except ValueError:
        return None


def only_set_order_differs(recorded_keys, replay_key, ralias):
    """Mechanism predicate of the known finding: some recorded key equals the replay key once py/set lists are sorted."""
    rk = split_key(replay_key, ralias)
    if rk is None:
        return False
    nrk = _norm_sets(list(rk))
    for k in recorded_keys:
        if k == replay_key:
            continue
        sk = split_key(k, ralias)
        if sk is not None and _norm_sets(list(sk)) == nrk:
            return True
    return False


def real_key(built, d, args, kwargs):
    from playback.tape_recorder import TapeRecorder
    static = d['kind'] == 'static'
    full = tuple(args) if static else (built.inst,) + tuple(args)
    cap = built._capture_arg_list(d)
    return TapeRecorder._input_interception_key(built.resolved_alias(d, args, kwargs), cap, static, *full, **kwargs)


def classify_mismatch(ctx, built, d, args, kwargs, recorded_keys, what, w, recorded_call=None):
    """A call that is reference-equivalent to a recorded one missed (or an inequivalent one hit)."""
    try:
        rk = real_key(built, d, args, kwargs)
    except Exception:
        rk = None
    if recorded_call is not None and rk is not None:
        ra, rkw = recorded_call
        if has_internal_aliasing([list(ra), dict(rkw)]) or has_internal_aliasing([list(args), dict(kwargs)]):
            try:
                k1 = real_key(built, d, unshare(list(ra)), unshare(dict(rkw)))
                k2 = real_key(built, d, unshare(list(args)), unshare(dict(kwargs)))
            except Exception:
                k1, k2 = 1, 2
            ral = built.resolved_alias(d, args, kwargs)
            if k1 == k2 or (k1 != 1 and has_multi_set([list(args), dict(kwargs)]) and only_set_order_differs([k1], k2, ral)):
                ctx.finding('aliased-args-key-depends-on-identity',
                            'captured arguments in which the same mutable object occurs twice are keyed with a py/id back-reference, so structurally '
                            'equal arguments without that aliasing get another key',
                            dict(w, decl=d['name'], replay_key=rk[:300]))
                return
    cap = built.key_identity(d, args, kwargs)
    pos_kw = _captured_values(built, d, args, kwargs)
    if rk is not None and has_multi_set(pos_kw) and only_set_order_differs(recorded_keys, rk, built.resolved_alias(d, args, kwargs)):
        ctx.finding('set-arg-key-depends-on-hashseed',
                    'a captured argument containing a set with >= 2 elements is keyed in set iteration order (differs between equal sets / hash seeds)',
                    dict(w, decl=d['name'], replay_key=rk[:300]))
    else:
        ctx.violation(what, dict(w, decl=d['name'], args=repr(args)[:200], kwargs=repr(kwargs)[:200], replay_key=(rk or '')[:300]))


def _captured_values(built, d, args, kwargs):
    cap = d.get('capture', 'all')
    if cap == 'all':
        return [list(args), dict(kwargs)]
    if cap == 'none':
        return []
    named = {'p%d' % i: a for i, a in enumerate(args)}
    named.update(kwargs)
    return [named.get('p%d' % i) for i in cap]


# ------------------------------------------------------------------------------------------------------
# part A

def callset_program(rng, seed):
    a1, a2 = rng.choice(ALIASES)
    nparams = rng.randrange(1, 4)
    kind = rng.choice(['instance', 'static'])
    capture = rng.choice(['all', 'all', 'none', 'subset'])
    if capture == 'subset':
        capture = sorted(rng.sample(range(nparams), rng.randrange(1, nparams + 1)))
    decls = []
    for i, al in enumerate((a1, a2)):
        d = {'name': 'in%d' % i, 'io': 'in', 'kind': kind, 'nparams': nparams, 'resolver': None, 'capture': capture, 'handler': None,
             'fallback': None, 'run_original': False, 'substitute': ('none',), 'nested': [], 'alias': al}
        if '{p}' in al:
            d['resolver'] = 0
            if rng.random() < 0.5:
                d['fallback'] = ['never.recorded.alias']      # a fallback list kept by the decorator across calls
        decls.append(d)
    if rng.random() < 0.25:
        for d in decls:
            d['consumes_args'] = True      # the input mutates the list / dict arguments it is handed
    nkw = rng.randrange(0, nparams + 1) if rng.random() < 0.4 else 0
    calls = []
    pool = rng.sample(NEAR, rng.randrange(4, 10))
    for _ in range(rng.randrange(4, 14)):
        d = rng.choice(decls)
        vals = [rng.choice(pool) for _ in range(nparams)]
        calls.append((d['name'], vals))
    body = []
    for i, (dn, vals) in enumerate(calls):
        cp = bool(decls[0].get('consumes_args'))
        args = [{'lit': v, 'copy_per_call': True} if cp else {'lit': v} for v in vals[:nparams - nkw]]
        kwargs = {'p%d' % j: ({'lit': vals[j], 'copy_per_call': True} if cp else {'lit': vals[j]}) for j in range(nparams - nkw, nparams)}
        body.append({'op': 'try', 'body': [{'op': 'in', 'decl': dn, 'args': args, 'kwargs': kwargs, 'var': 'c%d' % i}]})
    return {'seed_world': seed, 'class_level': False, 'extractor': None, 'params': None, 'opts': {'raise_rate': 0.05}, 'inputs': decls, 'outputs': [],
            'body': body, 'uid': 930000 + seed % 50000, 'pool': pool}


def variant_program(prog, rng):
    """Equivalent variants of every call + never-recorded near misses. -> (P', list of (step index, kind))."""
    p2 = clone(prog)
    p2['uid'] = prog['uid']
    kinds = []
    new_body = []
    recorded_ids = None
    for s in p2['body']:
        c = s['body'][0]
        d = next(x for x in p2['inputs'] if x['name'] == c['decl'])
        cap = d['capture']
        args = []
        for i, a in enumerate(c['args']):
            captured = cap == 'all' or (cap != 'none' and i in cap)
            if not captured and d.get('resolver') != i and rng.random() < 0.7:
                args.append({'lit': ('NOT-CAPTURED', rng.randrange(100))})
            else:
                args.append({'lit': rebuild(a['lit'], rng)})
        kwargs = {}
        for k, a in c['kwargs'].items():
            i = int(k[1:])
            captured = cap == 'all' or (cap != 'none' and i in cap)
            if not captured and d.get('resolver') != i and rng.random() < 0.7:
                kwargs[k] = {'lit': ('NOT-CAPTURED', rng.randrange(100))}
            else:
                kwargs[k] = {'lit': rebuild(a['lit'], rng)}
        if rng.random() < 0.6:     # keyword arguments passed in another order are the same call
            kwargs = dict(reversed(list(kwargs.items())))
        new_body.append({'op': 'try', 'body': [dict(c, args=args, kwargs=kwargs)]})
        kinds.append('equivalent')
    # near misses never recorded
    for _ in range(rng.randrange(2, 6)):
        s = rng.choice(prog['body'])['body'][0]
        d = next(x for x in p2['inputs'] if x['name'] == s['decl'])
        vals = [a['lit'] for a in s['args']] + [s['kwargs']['p%d' % j]['lit'] for j in range(len(s['args']), d['nparams'])]
        j = rng.randrange(d['nparams'])
        vals[j] = rng.choice(NEAR)
        na = len(s['args'])
        c = dict(s, args=[{'lit': v} for v in vals[:na]], kwargs={'p%d' % q: {'lit': vals[q]} for q in range(na, d['nparams'])}, var='n%d' % len(new_body))
        new_body.append({'op': 'try', 'body': [c]})
        kinds.append('probe')
    p2['body'] = new_body
    return p2, kinds


def part_a_case(ctx, seed, with_fallback=False):
    from playback.tape_recorder import TapeRecorder
    from playback.exceptions import RecordingKeyError
    rng = random.Random(seed)
    prog = callset_program(rng, seed)
    # the first input names the second one's alias as a fallback alias: a call recorded under BOTH aliases with the same
    # captured arguments must still be answered with what was recorded for its own alias
    # (every applicable call set runs a second time in this configuration, so that the first run is what it always was)
    if with_fallback:
        if not (all('{p}' not in d['alias'] for d in prog['inputs']) and prog['inputs'][0]['alias'] != prog['inputs'][1]['alias']):
            return
        prog['inputs'][0]['fallback'] = [prog['inputs'][1]['alias']]
        ctx.count('callsets_with_the_other_alias_as_fallback')
    p2, kinds = variant_program(prog, rng)
    desc = describe(prog)
    w = {'case_seed': seed, 'program': desc, 'with_fallback': with_fallback}
    with open_box(('memory', 'file')[seed % 2]) as box:
        spy = SpyCassette(box.cassette)
        rec = TapeRecorder(spy)
        rec.enable_recording()
        live = Built(prog, rec, World(prog['seed_world'], raise_rate=0.05))
        live.run('live')
        saves = [e for e in spy.log if e[0] == 'save']
        if len(saves) != 1:
            ctx.violation('call-set program not saved exactly once', w)
            return
        ro = spy.recordings[saves[0][1]]
        if not recording_in_domain(ro.recording_data, ro.recording_metadata):
            ctx.count('recordings_out_of_serializer_domain')
            return
        present = {}
        rec_args = {}
        for e in live.journal.calls():
            ki = live.key_identity(live.decls[e['decl']], e['args'], e['kwargs'])
            present[ki] = call_outcome(e)
            rec_args.setdefault(ki, (e['args'], e['kwargs']))
        ctx.case(desc, nontrivial=len(present) >= 2)
        ctx.count('inequivalent_calls_recorded', len(present))
        fetched = box.reader().get_recording(saves[0][2])
        rkeys = [k for k in fetched.get_all_keys() if k.startswith('input:')]
        ctx.count('keys_counted')
        if len(rkeys) > len(present):
            # more keys than inequivalent calls: two equivalent calls got different keys (only sets may do that, known finding)
            sets_involved = any(has_multi_set(e['args']) or has_multi_set(e['kwargs']) for e in live.journal.calls())
            alias_involved = any(has_internal_aliasing([e['args'], e['kwargs']]) for e in live.journal.calls())
            if alias_involved and not sets_involved:
                ctx.finding('aliased-args-key-depends-on-identity', 'equal captured arguments, one of them with an object occurring twice, produced different keys in one recording', w)
            elif sets_involved:
                ctx.finding('set-arg-key-depends-on-hashseed', 'equal set-valued captured arguments produced different keys in one recording', w)
            else:
                ctx.violation('recording holds %d input keys for %d inequivalent calls: equivalent calls got different keys' % (len(rkeys), len(present)), dict(w, keys=rkeys[:6]))
        elif len(rkeys) < len(present):
            ctx.violation('recording holds %d input keys for %d inequivalent calls: different calls share a key' % (len(rkeys), len(present)), dict(w, keys=rkeys[:6]))
        rec2 = TapeRecorder(box.reader())
        rep = Built(p2, rec2, World(1, poison=True), cls_name=live.cls.__name__)
        rec2.play(saves[0][2], playback_function_for(rep))
        for e, kind in zip(rep.journal.calls(), kinds):
            d = rep.decls[e['decl']]
            ident = rep.key_identity(d, e['args'], e['kwargs'])
            got = call_outcome(e)
            ctx.count('replayed_calls_judged')
            if ident in present:
                ctx.count('equivalent_calls')
                if not outcome_teq(got, present[ident]):
                    if got.kind == 'exc' and isinstance(got.value, RecordingKeyError):
                        classify_mismatch(ctx, rep, d, e['args'], e['kwargs'], rkeys, 'a call equivalent to a recorded one did not find its value', w,
                                          recorded_call=rec_args.get(ident))
                    else:
                        ctx.violation('a call equivalent to a recorded one received another value', dict(w, decl=d['name'], got=repr(got)[:200], expected=repr(present[ident])[:200]))
            elif d.get('fallback') == [rep.decls['in1']['alias']] and d['name'] == 'in0' and \
                    rep.key_identity(rep.decls['in1'], e['args'], e['kwargs']) in present:
                # never recorded under its own alias, recorded under the fallback alias: the documented policy answers with that
                ctx.count('probe_calls_answered_through_the_fallback_alias')
                ident2 = rep.key_identity(rep.decls['in1'], e['args'], e['kwargs'])
                if not outcome_teq(got, present[ident2]):
                    if got.kind == 'exc' and isinstance(got.value, RecordingKeyError):
                        # the same classification as for a call under its own alias (the two listed key findings: aliased arguments, sets)
                        classify_mismatch(ctx, rep, rep.decls['in1'], e['args'], e['kwargs'], rkeys,
                                          'a call recorded under its fallback alias only did not find that recorded value', w, recorded_call=rec_args.get(ident2))
                    else:
                        ctx.violation('a call recorded under its fallback alias only was not answered with that recorded value',
                                      dict(w, decl=d['name'], got=repr(got)[:200]))
            else:
                ctx.count('inequivalent_probe_calls')
                if not (got.kind == 'exc' and isinstance(got.value, RecordingKeyError)):
                    ctx.violation('a call that was never recorded was answered with a value recorded for another call',
                                  dict(w, decl=d['name'], args=repr(e['args'])[:200], kwargs=repr(e['kwargs'])[:200], got=repr(got)[:200]))


# ------------------------------------------------------------------------------------------------------
# part B

def part_b(ctx, npairs, nprogs):
    worker = os.path.join(env.VERIF, 'checks', 'C06_worker.py')
    for pi in range(npairs):
        if not ctx.mine(pi):
            continue
        s1, s2 = (pi * 2 + 1 + ctx.seed * 100) % 4294967295, (pi * 2 + 2 + ctx.seed * 100) % 4294967295
        d = tempfile.mkdtemp(prefix='vp-c06-')
        try:
            base_seed = ctx.seed * 7919 + pi * 1000
            e1 = dict(os.environ, PYTHONHASHSEED=str(s1), VERIF_REPO=env.REPO)
            r1 = subprocess.run([sys.executable, worker, 'record', d, str(base_seed), str(nprogs)], env=e1, capture_output=True, text=True, timeout=600)
            if r1.returncode != 0:
                ctx.inconclusive('recorder subprocess failed: ' + r1.stderr[-300:])
                continue
            e2 = dict(os.environ, PYTHONHASHSEED=str(s2), VERIF_REPO=env.REPO)
            r2 = subprocess.run([sys.executable, worker, 'replay', d, str(base_seed), str(nprogs)], env=e2, capture_output=True, text=True, timeout=600)
            if r2.returncode != 0:
                ctx.inconclusive('replayer subprocess failed: ' + r2.stderr[-300:])
                continue
            out = json.loads(r2.stdout.strip().splitlines()[-1])
            ctx.count('cross_process_pairs')
            ctx.count('cross_process_programs', out['programs'])
            ctx.count('cross_process_calls_judged', out['calls'])
            ctx.count('cross_process_calls_with_sets', out['calls_with_sets'])
            for i in range(out['programs']):
                ctx.case(('xproc', base_seed + i, s1, s2))
            for f in out['findings']:
                ctx.finding('set-arg-key-depends-on-hashseed', f['what'], dict(f['w'], hashseeds=[s1, s2]))
            for v in out['violations']:
                ctx.violation(v['what'], dict(v['w'], hashseeds=[s1, s2], base_seed=base_seed))
        finally:
            shutil.rmtree(d, ignore_errors=True)


def key_while_another_thread_saves(ctx):
    """Keys are built on the service thread while another thread of the process (the flusher of an asynchronous cassette) encodes and
    saves the previous recording into an S3 cassette. Explored with the deterministic scheduler (preemption points: S3 cassette
    module and recorder); the keys must be the ones a sequential run builds. (Schedules are beyond C06's quantifier; the workload
    only uses what the unchanged code supports.)"""
    from vlib import sched as S
    from vlib.fakes3 import FakeS3
    from playback.tape_recorder import TapeRecorder
    from playback.tape_cassettes.in_memory.in_memory_tape_cassette import InMemoryTapeCassette
    import playback.tape_cassettes.s3.s3_tape_cassette as cmod
    import playback.tape_recorder as rmod
    from vlib import genclasses
    tg = [cmod.__file__, rmod.__file__]
    args = [u'Zo\u00eb', {u'na\u00efve': u'\u65e5\u672c'}, [u'\u00e9', 1]]

    def run_op(rec):
        ns = {'execute': rec.operation()(lambda self: [self.read(a) for a in args]),
              'read': rec.intercept_input('c06.user')(lambda self, who: 'row')}
        cls = genclasses.register(type('C06Concurrent', (object,), ns))
        cls().execute()
        cas = rec.tape_cassette
        return sorted(k for k in cas.get_recording(cas.get_last_recording_id()).get_all_keys() if k.startswith('input:'))
    ref_rec = TapeRecorder(InMemoryTapeCassette())
    ref_rec.enable_recording()
    reference = run_op(ref_rec)
    holder = {}

    def make(sched):
        fake = FakeS3()
        cm = fake.installed()
        cm.__enter__()
        s3 = fake.cassette('w', key_prefix='k', read_only=False)
        prev = s3.create_new_recording('Prev')
        prev.set_data(u'input: c06.user args=' + u'Zo\u00eb', {'value': [u'Zo\u00eb', u'\u65e5\u672c']})
        prev.add_metadata({'who': u'Zo\u00eb'})
        rec = TapeRecorder(InMemoryTapeCassette())
        rec.enable_recording()
        holder.update(cm=cm, out={})

        def main():
            t1 = sched.Thread(target=lambda: s3.save_recording(prev), name='saver')
            t2 = sched.Thread(target=lambda: holder['out'].__setitem__('keys', run_op(rec)), name='service')
            t1.start()
            t2.start()
            t1.join()
            t2.join()
        return main

    def on_run(r, desc):
        try:
            ctx.case(('key_while_saving', r.trace), nontrivial=len(r.points) > 0)
            ctx.count('keys_built_while_another_thread_saves')
            if r.aborted or r.error is not None:
                return
            got = holder['out'].get('keys')
            if got != reference:
                ctx.violation('input keys built while another thread saved a recording into an S3 cassette differ from the keys of a sequential run',
                              {'key_while_saving': True, 'schedule': desc if isinstance(desc, tuple) else list(desc),
                               'got': got, 'sequential': reference})
        finally:
            holder['cm'].__exit__(None, None, None)
    S.explore_dfs(make, tg, 1, on_run, max_runs=150 if ctx.quick else 5000, step_budget=100000)
    S.explore_random(make, tg, 30 if ctx.quick else 1500, ctx.rng, on_run, step_budget=100000)


# pairs of DIFFERENT texts that some normalisation (unicode NFC/NFKC, case folding, trimming, path clean-up) would make equal
CONFUSABLE = [(u'\u00e9', u'e\u0301'), (u'\u212b', u'\u00c5'), (u'\ufb01le', u'file'), (u'Stra\u00dfe', u'Strasse'), (u'a', u'A'), (u'x', u'x '), (u'x', u' x'),
              (u'1', u'\uff11'), (u'', u' '), (u'a/b', u'a//b'), (u'a', u'a\u200b'), (u'\u0131', u'i'), (u'a.csv', u'./a.csv'), (u'\u1e9b\u0323', u'\u1e9b\u0323'.encode('utf-8').decode('utf-8') + u'\u0307'),
              (u'\uac00', u'\u1100\u1161'), (u'n\u0303', u'\u00f1'), (u'K', u'\u212a'), (u'tab\t', u'tab '), (u'a\r\n', u'a\n')]


def directed_cases(ctx):
    """(1) Different texts that a normalisation would merge, as resolver parameter of the alias, as positional / keyword argument and as a
    dict key inside an argument: each call gets its own value, a never recorded twin misses. (2) Instance methods whose receiver is not
    called ``self``, on instances whose state differs between the recording and the replay (and cannot be encoded): the receiver never
    enters the key."""
    import threading
    from playback.tape_recorder import TapeRecorder
    from playback.tape_cassettes.in_memory.in_memory_tape_cassette import InMemoryTapeCassette
    from playback.exceptions import RecordingKeyError
    for pi, (p, q) in enumerate(CONFUSABLE):
        for where in ('resolver', 'positional', 'keyword', 'dict_key', 'in_list'):
            for both in (False, True):
                cas = InMemoryTapeCassette()
                rec = TapeRecorder(cas)
                rec.enable_recording()
                shape = {'resolver': lambda t: ((t,), {}), 'positional': lambda t: ((t,), {}), 'keyword': lambda t: ((), {'name': t}),
                         'dict_key': lambda t: (({t: 1},), {}), 'in_list': lambda t: (([0, t],), {})}[where]
                state = {'mode': 'record'}
                backend = {'calls': []}

                class Files(object):
                    if where == 'resolver':
                        @rec.intercept_input('files.{name}.read', alias_params_resolver=lambda self, name: {'name': name}, capture_args=[])
                        def read(self, name):
                            backend['calls'].append(name)
                            return {'content of': name}
                    else:
                        @rec.intercept_input('files.read')
                        def read(self, *a, **k):
                            backend['calls'].append((a, k))
                            return {'content of': repr((a, sorted(k.items())))}

                    @rec.operation()
                    def run(self, texts):
                        out = []
                        for t in texts:
                            a, k = shape(t)
                            try:
                                out.append(('value', self.read(*a, **k)))
                            except RecordingKeyError:
                                out.append(('missing', None))
                        state['got'] = out
                        return len(out)
                texts = [p, q] if both else [p]
                Files().run(texts)
                live = state['got']
                rid = cas.get_last_recording_id()
                del backend['calls'][:]
                rec.play(rid, lambda recording: Files().run([p, q]))
                got = state['got']
                w = {'directed': 'confusable', 'pair': [p, q], 'where': where, 'both_recorded': both}
                ctx.case(w)
                ctx.count('confusable_text_replays')
                ctx.count('replayed_calls_judged', 2)
                if backend['calls']:
                    ctx.violation('an intercepted input body ran during replay', w)
                if got[0] != live[0]:
                    ctx.violation('a recorded call did not get its own value back (texts that differ only before a normalisation)', dict(w, recorded=repr(live[0])[:150], replayed=repr(got[0])[:150]))
                if both and got[1] != live[1]:
                    ctx.violation('a recorded call did not get its own value back (texts that differ only before a normalisation)', dict(w, recorded=repr(live[1])[:150], replayed=repr(got[1])[:150]))
                if not both and got[1][0] != 'missing':
                    ctx.violation('a call that was never recorded was answered with the value of a different call', dict(w, answered=repr(got[1])[:150]))
    # ---- two-parameter alias templates whose resolved values contain text that looks like a placeholder; captured-by-position arguments
    #      left to their default while a later captured argument is passed by keyword
    from playback.tape_recorder import CapturedArg
    for variant in ('placeholder_in_value', 'placeholder_in_value_reversed', 'omitted_positional_then_keyword'):
        cas = InMemoryTapeCassette()
        rec = TapeRecorder(cas)
        rec.enable_recording()
        state = {}
        backend = {'calls': 0}
        if variant == 'omitted_positional_then_keyword':
            calls = [(('stock',), {'include_deleted': False}), (('stock',), {'include_deleted': True}), (('stock', 5), {'include_deleted': True})]
            deco = rec.intercept_input('inventory.lookup', capture_args=[CapturedArg(1, 'table'), CapturedArg(2, 'limit'), CapturedArg(None, 'include_deleted')])
        else:
            pairs = [('/users/{id}', 5), ('/users/5', 5), ('{id}', '{route}'), ('{route}', 5)]
            if variant.endswith('reversed'):
                pairs.reverse()
            calls = [((r, i), {}) for r, i in pairs]
            deco = rec.intercept_input('http.get.{route}.{id}', alias_params_resolver=lambda self, route, id: {'route': route, 'id': id}, capture_args=[])

        class Client(object):
            @deco
            def fetch(self, *a, **k):
                backend['calls'] += 1
                return ['answer for', repr((a, sorted(k.items())))]

            @rec.operation()
            def run(self):
                out = []
                for a, k in calls:
                    try:
                        out.append(self.fetch(*a, **k))
                    except RecordingKeyError:
                        out.append('missing')
                state['got'] = out
        Client().run()
        live = state['got']
        w = {'directed': variant}
        ctx.case(w)
        ctx.count('placeholder_and_omitted_argument_cases')
        try:
            rid = cas.get_last_recording_id()
            cas.get_recording(rid)
        except Exception:
            ctx.count('directed_cases_not_saved')          # (a key that cannot be built discards the recording: nothing to replay)
            continue
        backend['calls'] = 0
        rec.play(rid, lambda recording: Client().run())
        ctx.count('replayed_calls_judged', len(calls))
        if backend['calls']:
            ctx.violation('an intercepted input body ran during replay', w)
        if state['got'] != live:
            bad = [i for i, (x, y) in enumerate(zip(state['got'], live)) if x != y]
            ctx.violation('a saved recording answers a call with the value recorded for a different call (calls with different resolved aliases / captured '
                          'arguments share a key)', dict(w, call=repr(calls[bad[0]])[:120], recorded=repr(live[bad[0]])[:120], replayed=repr(state['got'][bad[0]])[:120]))
    # ---- argument values that differ only in something a key builder might think it can ignore
    from vlib.values import Obj
    near_pairs = [(Obj(_code='USD'), Obj(_code='GBP')), (Obj(base='EUR', _quote='USD'), Obj(base='EUR', _quote='GBP')), (Obj(__v=1), Obj(__v=2)),
                  (1696320000.123456, 1696320000.123457), (0.1 + 0.2, 0.3), (1.0000000000000002, 1.0), (1e16, 1e16 + 2), (5e-324, 0.0), (-0.0, 0.0),
                  (12345678.12345678, 12345678.123456782), ([0.1 + 0.2], [0.3]), ({'min_score': 0.1 + 0.2}, {'min_score': 0.3}),
                  ({'a': Obj(_id=1)}, {'a': Obj(_id=2)}), ((1, [Obj(_k='x')]), (1, [Obj(_k='y')])), ('x' * 2000 + 'a', 'x' * 2000 + 'b'),
                  (list(range(300)), list(range(299)) + [300]), (10 ** 18, 10 ** 18 + 1), (float('inf'), 1.7976931348623157e308)]
    for ni, (a, b) in enumerate(near_pairs):
        for where in ('positional', 'keyword'):
            cas = InMemoryTapeCassette()
            rec = TapeRecorder(cas)
            rec.enable_recording()
            state = {}
            backend = {'calls': 0}

            class Rates(object):
                @rec.intercept_input('rates.current')
                def current(self, *args, **kwargs):
                    backend['calls'] += 1
                    return ['rate for call number', backend['calls']]

                @rec.operation()
                def run(self):
                    out = []
                    for v in (a, b):
                        try:
                            out.append(self.current(v) if where == 'positional' else self.current(pair=v))
                        except RecordingKeyError:
                            out.append('missing')
                    state['got'] = out
            Rates().run()
            live = state['got']
            w = {'directed': 'near_values', 'pair': ni, 'where': where}
            ctx.case(w)
            ctx.count('near_value_pairs')
            try:
                rid = cas.get_last_recording_id()
                cas.get_recording(rid)
            except Exception:
                ctx.count('directed_cases_not_saved')
                continue
            backend['calls'] = 0
            rec.play(rid, lambda recording: Rates().run())
            ctx.count('replayed_calls_judged', 2)
            if backend['calls'] or state['got'] != live:
                ctx.violation('two calls whose captured arguments differ (%s) share a key: replay answers one with the value recorded for the other' % (
                    'only in private attributes' if hasattr(a, '__dict__') or ni in (12, 13) else 'only slightly'),
                    dict(w, a=repr(a)[:80], b=repr(b)[:80], recorded=repr(live)[:120], replayed=repr(state['got'])[:120]))
    # ---- ordinary parameters that happen to be NAMED like a receiver (def load(this, key, cls=None) / **kwargs holding 'self'), passed by keyword
    for kwname in ('cls', 'self', 'klass', 'owner'):
        cas = InMemoryTapeCassette()
        rec = TapeRecorder(cas)
        rec.enable_recording()
        state = {}
        backend = {'calls': 0}

        class Documents(object):
            @rec.intercept_input('documents.load')
            def load(this, key, **options):
                backend['calls'] += 1
                return ['document', key, sorted(options.items())]

            @rec.operation()
            def run(this):
                out = []
                for kind in ('Invoice', 'Receipt'):
                    try:
                        out.append(this.load('doc-1', **{kwname: kind}))
                    except RecordingKeyError:
                        out.append('missing')
                state['got'] = out
        Documents().run()
        live = state['got']
        w = {'directed': 'parameter_named_like_a_receiver', 'name': kwname}
        ctx.case(w)
        ctx.count('receiver_like_parameter_names')
        try:
            rid = cas.get_last_recording_id()
            cas.get_recording(rid)
        except Exception:
            ctx.count('directed_cases_not_saved')
            continue
        backend['calls'] = 0
        rec.play(rid, lambda recording: Documents().run())
        ctx.count('replayed_calls_judged', 2)
        if backend['calls'] or state['got'] != live:
            ctx.violation('two calls that differ only in a keyword argument named %r share a key' % kwname, dict(w, recorded=repr(live)[:150], replayed=repr(state['got'])[:150]))
    # ---- receivers that are not called self
    for variant in range(4):
        cas = InMemoryTapeCassette()
        rec = TapeRecorder(cas)
        rec.enable_recording()
        serial = {'n': 0}
        state = {}

        class Gateway(object):
            def __init__(this):
                serial['n'] += 1
                this.session = 'session-%d' % serial['n']        # differs between the recording and the replay
                this.lock = threading.Lock()                      # and the instance cannot be encoded at all

            @rec.intercept_input('gw.fetch')
            def fetch(this, key):
                return ['fetched', key, this.session]

            @rec.intercept_input('gw.fetch_me', capture_args=None)
            def fetch_me(me, key, flag=False):
                return ['fetched_me', key, flag]

            @rec.intercept_input('gw.under')
            def under(_, key):
                return ['under', key]

            @rec.intercept_input('gw.{key}', alias_params_resolver=lambda inst, key: {'key': key})
            def by_alias(inst, key):
                return ['by_alias', key]

            @rec.operation()
            def run(obj):
                try:
                    state['got'] = [obj.fetch(1), obj.fetch(2), obj.fetch_me('k', flag=True), obj.under((1, 2)), obj.by_alias('a')]
                except RecordingKeyError as ex:
                    state['got'] = 'missing key: %s' % str(ex)[:120]
        Gateway().run()
        live = state['got']
        w = {'directed': 'receiver_name', 'variant': variant}
        ctx.case(w)
        ctx.count('receiver_name_replays')
        try:
            rid = cas.get_last_recording_id()
        except Exception:
            ctx.violation('an operation on an instance whose receiver is not called self (and cannot be encoded) was not recorded', w)
            continue
        for _ in range(variant):
            Gateway()           # other instances created in between
        rec.play(rid, lambda recording: Gateway().run())
        ctx.count('replayed_calls_judged', 5)
        if state['got'] != live:
            ctx.violation('replay on another instance of the class did not find the recorded inputs: the receiver entered the key',
                          dict(w, recorded=repr(live)[:200], replayed=repr(state['got'])[:200]))


def run(ctx):
    if ctx.shard == 0:
        directed_cases(ctx)
    n = ctx.budget(300, 10000)
    base = ctx.seed * 1000003 + ctx.shard * 1000000
    for i in range(n):
        try:
            part_a_case(ctx, base + i)
            part_a_case(ctx, base + i, with_fallback=True)
        except Exception as ex:
            # recording, storing, fetching and replaying a call set never raises on the unchanged tree (what the replayed program
            # itself catches is journaled): an exception escaping here comes out of the framework
            ctx.violation('recording / fetching / replaying a call set raised %s' % type(ex).__name__, {'case_seed': base + i, 'error': repr(ex)[:200]})
    part_b(ctx, 4 if ctx.quick else 32, 25 if ctx.quick else 60)
    if ctx.shard == 0:
        key_while_another_thread_saves(ctx)
    ctx.sample(describe(callset_program(random.Random(base), base)))
    if not ctx.counters.get('replayed_calls_judged'):
        ctx.inconclusive('no call judged')


def replay(ctx, w):
    if 'directed' in w:
        return directed_cases(ctx)
    if 'case_seed' in w:
        part_a_case(ctx, w['case_seed'], with_fallback=bool(w.get('with_fallback')))
    else:
        print('cross-process witness: re-run the check with the same VERIF_SEED')
