#!/bin/bash
# usage: tools/seeded_eval.sh <worktree> <A|B> <tier> <check ids...>
# applies SEEDED/<X>/patch.diff inside the scratch worktree, confirms tests + demo, runs the checks with VERIF_REPO=<worktree>, reverts.
wt=$1; x=$2; tier=$3; shift 3
cd $wt || exit 1
git checkout -q -- . ; git clean -fdq playback ; git apply ${SD:-SEEDED}/$x/patch.diff || { echo "patch does not apply"; exit 1; }
echo "== $wt $x: $(python3 -c "import json;print(json.load(open('${SD:-SEEDED}/$x/meta.json')).get('summary','')[:160])")"
if [ "${SKIP_TESTS:-0}" != 1 ]; then
  echo "tests: $(PYTHONPATH=$wt /venv/bin/python -m pytest -q -p no:cacheprovider --timeout=900 --continue-on-collection-errors 2>&1 | tail -1)"
  PYTHONPATH=$wt timeout 300 /venv/bin/python ${SD:-SEEDED}/$x/demo.py > /tmp/vp_demo.$$.out 2>&1; echo "demo with change: exit $? ($(tail -1 /tmp/vp_demo.$$.out | cut -c1-100))"
fi
for c in "$@"; do
  VERIF_REPO=$wt timeout 3000 /venv/bin/python /verif/check $c --tier $tier 2>&1 | grep -E "^(HELD|VIOLATED|INCONCLUSIVE|VIOLATION)" | cut -c1-200 | (head -2; tail -1)
done
git checkout -q -- . ; git clean -fdq playback
if [ "${SKIP_TESTS:-0}" != 1 ]; then
  PYTHONPATH=$wt timeout 300 /venv/bin/python ${SD:-SEEDED}/$x/demo.py > /tmp/vp_demo.$$.out 2>&1; echo "demo without change: exit $?"
fi
