#!/usr/bin/env python3
"""Regenerates MANIFEST.json from the table below; a property is claimed iff checks/<id>.py exists."""
import json
import os

HERE = os.path.dirname(os.path.dirname(os.path.abspath(__file__)))

BASE_NOTE = ('Trusted: CPython 3.12.1 of /venv, jsonpickle 0.9.3 (domain gate), the harness and its reference models in '
             '/verif/vlib. Verdict = held on the executions listed in the evidence file, nothing more.')

P = {
 'C01': ('exploration', 'differential record/replay monitor over generated programs',
         'Generated operation programs (all decorator shapes, threads, handlers, resolvers, capture subsets) are recorded and '
         'replayed against a poison world on every cassette type, also after one service-level fault at every step (unencodable exceptions/values from intercepted bodies); a client-side journal is the oracle for every intercepted call '
         'and for Playback.playback_outputs vs recorded_outputs. Exploration is the right level: the quantifier is over programs and values.',
         'values restricted to the calibrated faithful domain of jsonpickle; inputs pure in (alias, captured args)', '3 C01'),
 'C02': ('exploration', 'reference replay-policy monitor + store-immutability monitor',
         'Replays of edited programs over the exhaustive missing-key option lattice and random pairs; every call outcome is compared with a '
         'reference policy, bodies are journalled, the cassette is wrapped by a spy and its store is snapshotted before/after play().',
         'reference policy written from README/docstrings; exceptions compared by type', '3 C02'),
 'C03': ('exploration', 'journal-vs-captured-outputs monitor over program pairs',
         'Expected output map is built from the client-side journal of output calls alone and compared with recorded_outputs/playback_outputs for '
         'P and behavioural edits P\'; the diff of the two captured maps must equal the diff of the two journals.',
         'exception arguments not judged (serializer); faithful value domain', '3 C03'),
 'C04': ('fault_enumeration', 'differential twin execution under enumerated fault placements + deterministic thread scheduler',
         'Every single and pair placement of tolerated faults over base programs, each compared with an undecorated twin (same returned object, same '
         'exception object, bodies run once); worker-thread programs explored under a sys.monitoring line-level scheduler with bounded preemptions.',
         'line-granularity schedules up to the stated preemption bound, random beyond', '3 C04'),
 'C05': ('fault_enumeration', 'offline exactly-once checker over spy-cassette history + conservation + replay of everything saved',
         'Enumerates fault/discard/termination placements; the spy log must show save+abort == 1 per created recording, saved keys must cover the '
         'journalled interceptions, and every saved complete recording is replayed without a missing-key error.',
         'single-threaded (quantifier has no schedules)', '3 C05'),
 'C06': ('exploration', 'key-equivalence monitor, same-process and cross-process with different PYTHONHASHSEED',
         'Call sets with near-miss arguments are recorded and replayed; equivalent calls must hit, inequivalent ones must not share a key; recorder and '
         'replayer subprocesses run under different hash seeds with a file cassette between them.',
         'positional-vs-keyword passing of the same parameter not judged (documented)', '3 C06'),
 'C07': ('exploration', 'model-based round-trip monitor on every cassette',
         'Recordings with hostile key texts/values are written straight into each cassette and read back; the model is the dict the harness wrote; unknown ids must raise NoSuchRecording.',
         'keys starting with py/ excluded (serializer vocabulary)', '3 C07'),
 'C08': ('fault_enumeration', 'token-attribution monitor over scripted per-recording behaviours, real worker processes',
         'Each case runs the real Equalizer (in-process and dedicated-process) in its own subprocess with a behaviour script per recording; verdict, order, labels and '
         'unique tokens of every Comparison are checked against the script, including deterministically produced late answers.',
         'late answer produced by delaying the kill until the answer is in the pipe (a legal OS schedule)', '3 C08'),
 'C09': ('exploration', 'idle-state predicates after every run + differential against a fresh recorder',
         'All length-2 histories and random longer ones of runs/replays with every termination mode, then a probe compared with the same probe on a fresh recorder.',
         'probe sampling rate >= 1 so RNG consumption cannot differ legitimately', '3 C09'),
 'C10': ('exploration', 'reference-lookup monitor, cross-cassette differential',
         'Identical recordings saved into memory/file/S3 cassettes; every listing is compared with the reference lookup and across cassettes; limits, random order, skip-incomplete default.',
         'limit=0 not judged (undocumented)', '3 C10'),
 'C11': ('exploration', 'aliasing monitor (shared mutable node detection) + mutate-and-reread differential',
         'Everything handed out by get_data / get_recording / replay is deep-mutated and re-read; object graphs are checked for shared mutable nodes.',
         'get_metadata() on the same Recording object not judged', '3 C11'),
 'C12': ('exploration', 'deterministic scheduler exploration with exactly-once/order/twin-equality history checker',
         'Real AsyncRecordOnlyTapeCassette code with scheduler-aware lock/event/thread; exhaustive bounded-preemption DFS at line granularity then random schedules; unique ids per write; '
         'wrapped spy logs applications; blocking predicate evaluated at each lock acquisition.',
         'bounded preemptions / timer firings; real-thread stress run guards the twins', '3 C12'),
 'C13': ('fault_enumeration', 'bounded-progress and /proc process-census monitor on real worker processes',
         'Hang/exit/late behaviours at all positions with recycle rates; per-comparison monotonic timestamps, task->pid log and /proc census after completion, early close, consumer exception and dropped generator.',
         'liveness judged as bounded progress (timeout + margin, grace); overloaded machine => re-run, inconclusive not violation', '3 C13'),
 'C14': ('exploration', 'reference-model monitor on the real matcher, exhaustive small universe + random',
         'Every call of the real matcher over an exhaustive universe of filters x recorded values is compared with a reference matcher and repeated for determinism; listings on all cassettes must not abort.',
         'reference matcher written from the property text; {=,None} vs missing is unspecified', '3 C14'),
 'C15': ('fault_enumeration', 'attributed mutation-log monitor + invariant hook after every bucket mutation + crash injection',
         'Random call sequences over cassettes sharing a fake bucket behind the real facade; after every mutation a fresh read-only cassette checks discoverable => fetchable; crash before each mutation of each save.',
         'fake bucket implements exactly the calls the facade makes, lexicographic listing', '3 C15'),
 'C16': ('exploration', 'reference window monitor over an exhaustive hour grid with a controlled clock',
         'One recording per hour over several days; every (start, end) pair on the grid plus end=None; listing compared with the reference window.',
         'process clock in UTC; created and saved at the same instant', '3 C16'),
 'C17': ('exploration', 'reference sampling policy monitor with a draw-logging RNG at a spy cassette',
         'Exhaustive decision table and long seeded histories; each save/abort decision compared to the reference policy using the single logged draw; content-varied paired histories; binomial band.',
         'inclusive reading of "within the rate"', '3 C17'),
 'C18': ('fault_enumeration', 'journal-vs-metadata monitor over enumerated termination points',
         'Termination mode x step x extractor behaviour; saved metadata compared with what the journal knows about the run.',
         'duration bracket epsilon 5 ms on one clock', '3 C18'),
 'C19': ('exploration', 'category/token attribution monitor over generated studios',
         'Studios over prefix-related categories on all cassettes, failing tuners for every subset, generators consumed in random interleavings; each playback function/extractor/comparator journals (category, token).',
         'in-process comparison', '3 C19'),
 'C20': ('exploration', 'byte-exact file round-trip monitor + open() audit hook',
         'Full trips of files through handlers, recorder and every cassette with boundary sizes; audit hook proves above-limit files are never opened for reading.',
         'sizes near 1 MiB only for the env-var limit', '3 C20'),
}


def main():
    checks, na = [], []
    for pid in sorted(P):
        level, technique, text, note, ref = P[pid]
        if os.path.exists(os.path.join(HERE, 'checks', pid + '.py')):
            checks.append({
                'property_id': pid,
                'quick_cmd': '/venv/bin/python check %s --tier quick' % pid,
                'thorough_cmd': '/venv/bin/python check %s --tier thorough' % pid,
                'evidence_file': 'evidence/%s.json' % pid,
                'replay_cmd_template': '/venv/bin/python check %s --replay {path}' % pid,
                'engine': 'playback-runtime-monitors',
                'level_claimed': {'category': level, 'text': text, 'design_ref': 'DESIGN.md section ' + ref},
                'level_note': note + '. ' + BASE_NOTE,
                'technique': 'runtime monitoring: ' + technique,
            })
        else:
            na.append({'property_id': pid, 'reason': 'check not built yet in this commit (planned, see DESIGN.md section %s); not claimed until it is' % ref})
    m = {
        'version': 1,
        'setup_cmd': 'mkdir -p evidence replays && /venv/bin/python -m compileall -q vlib checks check >/dev/null && /venv/bin/python -c "import sys; sys.path.insert(0, \'/repo\'); import playback, jsonpickle, jsonschema"',
        'hooks': {
            'guard': 'OPTIBUS_PLAYBACK_VERIF',
            'enable': 'no source hooks: all observation points are reached from outside (spies, fakes, sys.monitoring); the checks set OPTIBUS_PLAYBACK_VERIF=1 for uniformity but /repo does not read it',
            'baseline_off_cmd': 'cd /repo && /venv/bin/python -m pytest -ra -q -p no:cacheprovider --timeout=900 --continue-on-collection-errors',
            'source_commits': [],
            'add_only': True,
        },
        'engines': [{
            'name': 'playback-runtime-monitors', 'path': 'check',
            'serves_properties': [c['property_id'] for c in checks],
            'kind_free_text': 'Python harness that drives the real playback code from /repo under generated, fault-injected and schedule-controlled workloads; monitors = client-side journals, spy cassettes, fake S3 bucket with mutation log, sys.monitoring scheduler, /proc census; oracles = reference models and differential twins',
        }],
        'checks': checks,
        'not_applicable': na,
        'notes': 'Technique family: runtime monitoring. See DESIGN.md. KNOWN_FINDINGS.txt lists known/fixed defects.',
    }
    with open(os.path.join(HERE, 'MANIFEST.json'), 'w') as f:
        json.dump(m, f, indent=1)
        f.write('\n')
    try:
        import jsonschema
        jsonschema.validate(m, json.load(open('/root/.vp/MANIFEST.schema.json')))
        print('MANIFEST valid: %d checks, %d not yet claimed' % (len(checks), len(na)))
    except ImportError:
        print('written (jsonschema not available to validate)')


if __name__ == '__main__':
    main()
