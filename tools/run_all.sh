#!/bin/bash
# usage: tools/run_all.sh quick|thorough [ids...]   -> one verdict line per property
tier=${1:-quick}; shift
ids=${@:-C01 C02 C03 C04 C05 C06 C07 C08 C09 C10 C11 C12 C13 C14 C15 C16 C17 C18 C19 C20}
cd "$(dirname "$0")/.."
for c in $ids; do
  s=$(date +%s)
  /venv/bin/python check $c --tier $tier 2>&1 | grep -E "^(HELD|VIOLATED|INCONCLUSIVE|VIOLATION|KNOWN-FINDING|WATCHDOG)" | cut -c1-260
  echo "   [$c $tier took $(( $(date +%s) - s ))s]"
done
