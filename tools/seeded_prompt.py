# usage: python3 tools/seeded_prompt.py Cxx > /tmp/vp-prompt-Cxx.txt  (expects the property JSON in /tmp/vp-prop-Cxx.txt and a scratch worktree /tmp/vp-wt-Cxx); the text
# handed to an independent sub-agent of a seeded-change round (round 14 wording). The sub-agent gets nothing from /verif.
import sys
c=sys.argv[1]
prop=open('/tmp/vp-prop-%s.txt'%c).read()
print(f"""You are testing how robust a verification effort is. Work ONLY inside the scratch git worktree /tmp/vp-wt-{c} (a checkout of the Python project Optibus/playback: a decorator framework that records intercepted inputs/outputs of service operations to cassettes - memory/file/S3 - and replays them). Do not read or touch /repo, /verif or any other /tmp/vp-wt-* directory. Python is /venv/bin/python; run programs with PYTHONPATH=/tmp/vp-wt-{c}. There is no network.

Here is a semantic property the project is supposed to satisfy:

{prop}

Your task: write ONE change to the project's source (under /tmp/vp-wt-{c}/playback/, not tests) that BREAKS this property while still importing/compiling and leaving the existing test suite at its baseline result. Baseline: `cd /tmp/vp-wt-{c} && PYTHONPATH=/tmp/vp-wt-{c} /venv/bin/python -m pytest -q -p no:cacheprovider --timeout=900 --continue-on-collection-errors` gives 105 passed, 2 failed, 1 collection error (the 3 non-passing ones need network and fail with or without your change). The change must look like a plausible refactoring/optimisation/bug a maintainer could make, and must need something SPECIFIC to manifest: a particular interleaving, a crash or fault at a particular point, a multi-step sequence of operations, an unusual input or configuration, or two cooperating sites that each look fine alone. It must NOT be something that ordinary simple use would expose at once. Be inventive - dozens of simple changes to this property have been tried already (dropped calls, off-by-one counters, swapped arguments, state leaking across runs, wrong key text, missed edge values), so pick a less obvious corner of the code that the property's statement and quantifier still cover.

Deliverables, all inside /tmp/vp-wt-{c}/SEEDED14/A/ :
 - patch.diff : output of `git -C /tmp/vp-wt-{c} diff -- playback` with your change applied (it must apply with `git apply` to a clean checkout)
 - demo.py : a small standalone program (run as `PYTHONPATH=/tmp/vp-wt-{c} /venv/bin/python SEEDED14/A/demo.py` from the worktree root) that exits 1 (printing what went wrong) WITH the change and exits 0 WITHOUT it. It must only use the project's public behaviour (no check for the patched text itself), must be deterministic and finish within 60 s. For S3 use an in-memory fake you write yourself in the demo (monkeypatch boto3 client/resource as needed); no network.
 - meta.json : {{"summary": "...what was changed and which clause of the property it breaks...", "needs_to_manifest": "...", "files_changed": [...], "ran": ["commands you ran and their results"]}}

Before finishing: confirm the suite result with the change (105 passed), the demo exits 1 with the change, then `git -C /tmp/vp-wt-{c} checkout -- playback` and confirm the demo exits 0 without it. Leave the worktree CLEAN (change reverted; only the untracked SEEDED14 directory remains). You have about 12 minutes: keep it small, do not explore for long. Reply with a two-line summary.""")
