#!/usr/bin/env python3
"""usage: tools/gen_matrix_md.py <matrix log files...>  - writes seeded/MATRIX.md from the lines printed by tools/seeded_matrix.sh"""
import os, subprocess, sys
rows = {}
for f in sys.argv[1:]:
    for line in open(f):
        line = line.strip()
        if ':' in line and line[0] == 'C':
            cid, rest = line.split(':', 1)
            rows[cid] = rest.strip()
head = subprocess.run(['git', '-C', '/repo', 'rev-parse', '--short', 'HEAD'], stdout=subprocess.PIPE, text=True).stdout.strip()
out = ['# Seeded changes x checks (quick tier)', '',
       'Generated from `tools/seeded_matrix.sh quick` (every `seeded/<id>/patch.diff` applied to a scratch worktree of /repo HEAD %s, the checks in its' % head,
       '`caught_by` - or the check of its property when that list is empty - run with `VERIF_REPO=<worktree>`).', '', '| change | result |', '|---|---|']
missed = []
for cid in sorted(rows):
    out.append('| %s | %s |' % (cid, ', '.join(rows[cid].split())))
    if 'VIOLATED' not in rows[cid]:
        missed.append(cid)
out += ['', '%d changes; %d reported VIOLATED by at least one check; not reported: %s (documented in DESIGN.md 8.6 and in their meta.json).' % (
    len(rows), len(rows) - len(missed), ', '.join(missed) or 'none')]
open(os.path.join(os.path.dirname(os.path.dirname(os.path.abspath(__file__))), 'seeded', 'MATRIX.md'), 'w').write('\n'.join(out) + '\n')
print(out[-1])
