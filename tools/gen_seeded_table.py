#!/usr/bin/env python3
"""Rewrites the table between the SEEDED-TABLE markers of DESIGN.md from seeded/*/meta.json."""
import glob, json, os, re
here = os.path.dirname(os.path.dirname(os.path.abspath(__file__)))
rows = []
for d in sorted(glob.glob(os.path.join(here, 'seeded', '*', 'meta.json'))):
    m = json.load(open(d))
    rows.append('| %s | %s | %s | %s |' % (m['id'], (m['summary'] or '').replace('|', '/')[:140].replace('\n', ' '), ', '.join(m['caught_by']) or '**none**',
                                           (m.get('note') or '').replace('|', '/')))
table = '| id | change | caught by | note |\n|---|---|---|---|\n' + '\n'.join(rows) + '\n'
p = os.path.join(here, 'DESIGN.md')
s = open(p).read()
a, b = '<!-- SEEDED-TABLE-BEGIN -->', '<!-- SEEDED-TABLE-END -->'
if a in s:
    s = s[:s.index(a) + len(a)] + '\n' + table + s[s.index(b):]
else:
    i = s.index('| id | change | caught by | note |')
    s = s[:i] + a + '\n' + table + b + '\n'
open(p, 'w').write(s)
print(len(rows), 'rows')
