#!/usr/bin/env python3
"""usage: tools/seeded_import.py <worktree> <A|B> <id> <caught_by comma list or 'none'> [note]
Copies a confirmed seeded change into /verif/seeded/<id>/ with a meta.json describing what was run here."""
import json, os, shutil, sys
wt, x, sid, caught = sys.argv[1:5]
note = sys.argv[5] if len(sys.argv) > 5 else ''
src = os.path.join(wt, os.environ.get('SD', 'SEEDED'), x)
dst = os.path.join(os.path.dirname(os.path.dirname(os.path.abspath(__file__))), 'seeded', sid)
os.makedirs(dst, exist_ok=True)
shutil.copy(os.path.join(src, 'patch.diff'), dst)
shutil.copy(os.path.join(src, 'demo.py'), dst)
m = json.load(open(os.path.join(src, 'meta.json')))
meta = {
    'id': sid, 'property': sid.split('-')[0], 'summary': m.get('summary'), 'needs_to_manifest': m.get('needs_to_manifest'),
    'files_changed': m.get('files_changed'), 'author': 'independent sub-agent given only the property text and a scratch worktree',
    'author_ran': m.get('ran'),
    'confirmed_here': ['git apply patch.diff in a scratch worktree of /repo HEAD: applies',
                       'repository test suite with the change: 105 passed, same 2 failures + 1 collection error as baseline',
                       'demo.py with the change: exit 1; without it: exit 0',
                       'checks run with VERIF_REPO=<scratch worktree with the change>'],
    'caught_by': [] if caught == 'none' else caught.split(','), 'note': note,
}
json.dump(meta, open(os.path.join(dst, 'meta.json'), 'w'), indent=1)
print('imported', sid, '->', dst)
