#!/bin/bash
# usage: tools/sweep.sh <tier> <seeds...>   runs all checks for each seed; prints only non-HELD verdicts and a summary
tier=$1; shift
cd "$(dirname "$0")/.."
for s in "$@"; do
  for c in C01 C02 C03 C04 C05 C06 C07 C08 C09 C10 C11 C12 C13 C14 C15 C16 C17 C18 C19 C20; do
    out=$(VERIF_SEED=$s /venv/bin/python check $c --tier $tier 2>&1)
    v=$(echo "$out" | grep -E "^(HELD|VIOLATED|INCONCLUSIVE)" | cut -c1-60)
    echo "seed=$s $v"
    echo "$out" | grep -E "^(VIOLATION|INCONCLUSIVE|WATCHDOG)" | cut -c1-240 | head -6
  done
done
