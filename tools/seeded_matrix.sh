#!/bin/bash
# usage: tools/seeded_matrix.sh [tier]  - applies every seeded/<id>/patch.diff to a scratch worktree of /repo HEAD and runs the
# check of its property (VERIF_REPO=<worktree>); prints one line per seeded change. Worktree is removed afterwards.
tier=${1:-quick}
cd "$(dirname "$0")/.."
wt=/tmp/vp-matrix-wt
git -C /repo worktree remove --force $wt 2>/dev/null
git -C /repo worktree add -q --detach $wt HEAD || exit 1
for d in seeded/*/; do
  id=$(basename $d); prop=${id%%-*}
  git -C $wt checkout -q -- . ; git -C $wt apply $PWD/$d/patch.diff 2>/dev/null || { echo "$id: patch does not apply to HEAD"; continue; }
  v=$(VERIF_REPO=$wt timeout 3000 /venv/bin/python check $prop --tier $tier 2>&1 | grep -E "^(HELD|VIOLATED|INCONCLUSIVE)" | cut -d' ' -f1)
  first=$(VERIF_REPO=$wt true; grep -h -m1 -o '"what": "[^"]*' replays/$prop/*.json 2>/dev/null | head -1 | cut -c10-110)
  echo "$id: $prop $tier -> $v | $first"
done
git -C $wt checkout -q -- .
git -C /repo worktree remove --force $wt
