#!/bin/bash
# usage: tools/seeded_matrix.sh [tier] [id-prefix]  - applies every seeded/<id>/patch.diff to a scratch worktree of /repo HEAD and runs
# the checks named in its meta.json "caught_by" (or the check of its property) with VERIF_REPO=<worktree>; one line per change.
tier=${1:-quick}; filter=${2:-}
cd "$(dirname "$0")/.."
wt=/tmp/vp-matrix-wt${filter}
git -C /repo worktree remove --force $wt 2>/dev/null
git -C /repo worktree add -q --detach $wt HEAD || exit 1
for d in seeded/${filter}*/; do
  id=$(basename $d); prop=${id%%-*}
  checks=$(python3 -c "import json;m=json.load(open('$d/meta.json'));print(' '.join(m['caught_by']) or '$prop')")
  git -C $wt checkout -q -- . ; git -C $wt clean -fdq playback ; git -C $wt apply $PWD/$d/patch.diff 2>/dev/null || { echo "$id: patch does not apply to HEAD"; continue; }
  line="$id:"
  for c in $checks; do
    v=$(VERIF_REPO=$wt timeout 3000 /venv/bin/python check $c --tier $tier 2>&1 | grep -E "^(HELD|VIOLATED|INCONCLUSIVE)" | cut -d' ' -f1)
    line="$line $c=$v"
  done
  echo "$line"
done
git -C $wt checkout -q -- .
git -C /repo worktree remove --force $wt
