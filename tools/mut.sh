#!/bin/bash
# usage: tools/mut.sh <file relative to /repo> <python-regex-old> <new> -- <check ids...>   (applies to /repo, runs checks, restores)
f=$1; old=$2; new=$3; shift 4
cd /repo || exit 1
git diff --quiet || { echo "repo dirty"; exit 1; }
python3 - "$f" "$old" "$new" <<'PY'
import sys,re
f,old,new=sys.argv[1:4]
s=open(f).read()
assert old in s, 'pattern not found'
s=s.replace(old,new,1)
open(f,'w').write(s)
PY
[ $? -eq 0 ] || { git checkout -- .; exit 1; }
git diff | grep '^[+-][^+-]'
if [ "${RUN_TESTS:-0}" = 1 ]; then /venv/bin/python -m pytest -q -p no:cacheprovider --timeout=900 --continue-on-collection-errors 2>&1 | tail -1; fi
cd /verif
for c in "$@"; do ./check $c --tier ${TIER:-quick} 2>&1 | grep -E "^(HELD|VIOLATED|INCONCLUSIVE|VIOLATION)" | cut -c1-220 | head -4; done
git -C /repo checkout -- .
